-------------------------- MODULE EioClientFineSim --------------------------
(***************************************************************************)
(* Behaviour generation at L2 (spec -> code): EioClientFine with a history *)
(* variable recording who took each step.  TLC simulates; every behaviour  *)
(* that runs to the end (the three tasks finished) prints its schedule and *)
(* its final events / frames.  The harness then drives the real threaded   *)
(* Client under exactly that schedule (the hub in scripted mode stops a    *)
(* task at every primitive) and must observe the same events and frames -  *)
(* including the behaviours in which two disconnect events fire (F27).     *)
(***************************************************************************)
EXTENDS EioClientFine

VARIABLE sched      \* sequence of [p, silent]: who stepped; silent = the step touched no primitive
svars == <<st, q, ev, tx, wsc, sclosed, sseen, inq, pc, it, nx, pk, nsent, rdisc, sched>>

Rec(p, s) == sched' = Append(sched, [p |-> p, silent |-> s])

SimInit == Init /\ sched = <<>>
SimNext ==
    \/ AppStep /\ Rec("app", pc["app"] = "send" /\ nsent < MaxSend /\ st # "connected")
    \/ WrStep /\ Rec("wr", FALSE)
    \/ RdStep /\ Rec("rd", pc["rd"] = "r_wait" /\ inq # <<>> /\ st # "connected")
    \/ SrvCloses /\ Rec("srv_closed", FALSE)
    \/ SrvDisconnects /\ Rec("srv_disconnects", FALSE)
SimSpec == SimInit /\ [][SimNext]_svars

Finished == pc["app"] = "done" /\ pc["wr"] = "done" /\ pc["rd"] = "done"
\* printed once, in the first state where everything has ended
EmitSchedule ==
    Finished => PrintT(<<"SCHEDULE", sched, ev, tx, st>>)
=============================================================================
