-------------------------- MODULE EioQueueFineUpSim --------------------------
(***************************************************************************)
(* Behaviour generation at L2 for the upgrade (spec -> code):              *)
(* EioQueueFineUp with a history variable recording who was started, who   *)
(* took a step and what the client sent.  TLC simulates; whenever no task  *)
(* can move (all started, each finished or blocked) the schedule so far    *)
(* and the outcome are printed; the harness drives the real threaded       *)
(* Server under exactly that schedule (hub in scripted mode: a task stops  *)
(* after every primitive, flag writes and wait() calls included; the       *)
(* client's frames are delivered where the schedule says - also between    *)
(* two steps of the upgrade request, e.g. UPGRADE before the put(NOOP)     *)
(* took effect) and must observe the same outcome.                         *)
(***************************************************************************)
EXTENDS EioQueueFineUp

VARIABLE sched      \* sequence of [p, k]: p = 0 the client (k = what it does); k = kind for a
                    \* start; k = "" for a step of task p
svars == <<allvars, sched>>
Rec(p, k) == sched' = Append(sched, [p |-> p, k |-> k])

SimInit == UpInit /\ sched = <<>>
SimNext ==
    \/ StartUpgrade /\ Rec(U, "upg")
    \/ UpgraderStep /\ Rec(U, "")
    \/ WriterStep /\ Rec(Wt, "")
    \/ \E p \in Others : \/ ShortStep(p) /\ Rec(p, "")
                         \/ \E k \in {"poll", "send"} : UpStart(p, k) /\ Rec(p, k)
    \/ ClientProbe /\ Rec(0, IF wsin'[Len(wsin')] = "PINGprobe" THEN "probe" ELSE "bad1")
    \/ ClientUpgrade /\ Rec(0, IF wsin'[Len(wsin')] = "UPGRADE" THEN "upgrade" ELSE "bad2")
    \/ ClientGone /\ Rec(0, "gone")
SimSpec == SimInit /\ [][SimNext]_svars

Stuck == ~ENABLED UpgraderStep /\ ~ENABLED WriterStep /\ \A p \in Others : ~ENABLED ShortStep(p)
AllStarted == pc[U] # "idle" /\ \A p \in Others : pc[p] # "idle"
EmitSchedule ==
    (Stuck /\ AllStarted) =>
        PrintT(<<"SCHEDULE", sched, q, unf, upgrading, upgraded, MsgsOf(deliv), MsgsOf(wsdeliv), sent,
                 [p \in Proc |-> pc[p]]>>)
=============================================================================
