"""C10 - this package's clients and servers interoperate without loss or disagreement."""
import random
import re

import concurrent.futures as cf
import json
import os

from .. import tlc, tracecheck
from ..common import Check, MachineryError, NCPU, load_known_findings
from ..harness import e2e
from ..harness.servercheck import _extract_diag

MODE = {'poll': 'polling', 'both': 'upgrade', 'ws': 'websocket'}
SYS_INVS = ['TypeOK', 'InOrderOnce', 'NoLoss', 'NoSpontaneousEnd', 'BothSeeDisconnect',
            'TransportAgreed']


def sys_consts(mode, **kw):
    c = dict(MaxMsg=2, MaxPing=1, CBatch=2, SLimit=2, SBatch=2, CLimit=2, Mode='"%s"' % mode,
             CountPings='TRUE', Flush='TRUE', AllowDisc='{"client", "server"}')
    c.update(kw)
    return c


def trace_consts(mode):
    # the code's numbers: 16 packets per POST / per poll response, decoders accept 16
    return dict(MaxMsg=100000, MaxPing=0, CBatch=16, SLimit=16, SBatch=16, CLimit=16,
                Mode='"%s"' % mode, CountPings='FALSE', Flush='TRUE',
                AllowDisc='{"client", "server"}')


def system_models(ck, th):
    """EioSystem: the protocol between one client and one server implements the contract."""
    jobs = []
    big = 3 if th else 2
    for mode in ('polling', 'upgrade', 'websocket'):
        jobs.append(dict(name='EioSystem %s, either side may disconnect: invariants + refinement '
                              'of EioE2E' % mode, spec='Spec',
                         consts=sys_consts(mode, MaxMsg=big, MaxPing=1),
                         invariants=SYS_INVS, properties=['ImplementsE2E'], constraints=['Bound']))
        jobs.append(dict(name='EioSystem %s, nobody disconnects: no loss, no spontaneous end, '
                              'batches larger than one payload' % mode, spec='Spec',
                         consts=sys_consts(mode, MaxMsg=4 if th else 3, MaxPing=2, AllowDisc='{}'),
                         invariants=SYS_INVS, properties=['ImplementsE2E'], constraints=['Bound']))
        jobs.append(dict(name='EioSystem %s, liveness under fair protocol steps: every message '
                              'sent on a connection that stays up is delivered' % mode,
                         spec='FairSpec', consts=sys_consts(mode), properties=['EventuallyDelivered']))
    # negative controls: the defects F2 / F2b at design level
    jobs.append(dict(name='negative control: client batch (3) above the server decoder limit (2)',
                     spec='Spec', consts=sys_consts('polling', MaxMsg=3, CBatch=3, AllowDisc='{}'),
                     invariants=SYS_INVS, constraints=['Bound'], expect='NoSpontaneousEnd'))
    jobs.append(dict(name='negative control: server poll batch (3) above the client decoder limit (2)',
                     spec='Spec', consts=sys_consts('polling', MaxMsg=3, SBatch=3, AllowDisc='{}'),
                     invariants=SYS_INVS, constraints=['Bound'], expect='NoSpontaneousEnd'))

    jobs.append(dict(name='negative control: disconnect() while a POST is in flight drops the queued '
                          'CLOSE (defect F25 at design level): the server never sees a disconnect',
                     spec='Spec', consts=sys_consts('polling', Flush='FALSE'),
                     invariants=SYS_INVS, constraints=['Bound'], expect='BothSeeDisconnect'))

    def one(j):
        cfg = tlc.cfg_text(spec=j['spec'], constants=j['consts'],
                           invariants=j.get('invariants', ()), properties=j.get('properties', ()),
                           constraints=j.get('constraints', ()))
        return j, tlc.run('EioSystem', cfg, workers=4, timeout=1500, constants=j['consts'])
    with cf.ThreadPoolExecutor(max_workers=4) as ex:
        for j, r in ex.map(one, jobs):
            if r.error:
                raise MachineryError('TLC job %s failed: %s\n%s' % (j['name'], r.error,
                                                                     r.out[-2500:]))
            ck.add_tlc(r, j['name'])
            if j.get('expect'):
                if r.violated != j['expect']:
                    raise MachineryError('negative control %s: expected %s violated, got %r' % (
                        j['name'], j['expect'], r.violated))
                ck.cov.setdefault('negative_controls', []).append(
                    '%s: %s violated as expected' % (j['name'], j['expect']))
            elif r.violated:
                ck.violation('EioSystem: %s violated (%s)' % (r.violated, j['name']),
                             {'job': j['name'], 'constants': j['consts'],
                              'counterexample': '\n'.join(r.trace)[-8000:] or r.out[-4000:]})
            elif r.distinct < 1000:
                raise MachineryError('vacuity: %s has only %d states' % (j['name'], r.distinct))


def diagnose_sys(trace, mode):
    """Re-run one rejected conversation printing every reached state: where the model could
    not follow."""
    wd = tlc.workdir('diag-')
    path = os.path.join(wd, 'one.json')
    with open(path, 'w') as f:
        json.dump([trace], f)
    consts = trace_consts(mode)
    cfgtxt = tlc.cfg_text(spec='TraceSpec', constants=consts, constraints=['DiagPrint'])
    r = tlc.run('EioSystemTrace', cfgtxt, wd=wd, workers=1, env={'TRACE_FILE': path},
                constants=consts)
    states = [x for x in _extract_diag(r.out) if isinstance(x[1], int) and x[1] > 0]
    if not states:
        return {'error': r.out[-1500:]}
    far = max((x[1], x[2], x[3]) for x in states)
    li, j, b = far
    st = trace[li - 1] if li - 1 < len(trace) else None
    cands = [x for x in states if (x[1], x[2], x[3]) == far][:6]
    return {'step': li - 1, 'op': st and st['op'], 'events_matched': j - 1, 'calls_done': b,
            'next_event': (st['ev'][j - 1] if st and j - 1 < len(st['ev']) else None),
            'observed_end': st and {k: st[k] for k in ('cup', 'sup', 'ctr', 'str', 'settled')},
            'model_states': cands}


def to_trace(steps):
    tr = []
    for st in steps:
        evs = []
        for e in st['ev']:
            m = re.match(r'^([cs])(connect|msg:|disc:)(.*)$', e)
            side, kind, rest = m.group(1), m.group(2), m.group(3)
            if kind == 'connect':
                evs.append({'e': side + 'connect', 'n': 0})
            elif kind == 'disc:':
                evs.append({'e': side + 'disc', 'n': 0, 'r': rest})
            else:
                d = re.sub(r'\D', '', rest)
                ok = rest.startswith('M' if side == 'c' else 'm') and d
                evs.append({'e': side + 'msg', 'n': int(d) if ok else 0, 'tok': rest})
        tr.append({'op': st['op'], 'a': {'acc': st['a'].get('acc', [])}, 'ev': evs,
                   'cup': st['cup'], 'sup': st['sup'], 'ctr': st['ctr'], 'str': st['str'],
                   'settled': st.get('settled', True)})
    return tr


def conversations(seed, n, th):
    rng = random.Random(seed)
    out = []
    for i in range(n):
        tr = ('poll', 'ws', 'both')[i % 3]
        sc = [{'op': 'connect', 'tr': tr}]
        t = 0
        for _ in range(rng.randint(3, 9 if th else 6)):
            k = rng.choice(['csend', 'ssend', 'ssendburst', 'tick', 'csend', 'ssend'])
            if k == 'tick':
                t += rng.choice([1, 5, 16, 40, 200, 400])
                sc.append({'op': 'tick', 't': t})
            else:
                sc.append({'op': k, 'k': rng.choice([1, 1, 2, 3, 15, 16, 17, 18, 25, 40])})
        end = rng.choice(['cdisc', 'sdisc', 'none', 'cdisc', 'sdisc'])
        if end != 'none':
            sc.append({'op': end})
            if rng.random() < 0.3:
                sc.append({'op': rng.choice(['csend', 'ssend']), 'k': 2})
        t += 400
        sc.append({'op': 'tick', 't': t})
        out.append(sc)
    return out


def slow_conversations(seed, n):
    rng = random.Random(seed)
    out = []
    for i in range(n):
        tr = ('both', 'ws', 'both')[i % 3]
        sc = [{'op': 'connect', 'tr': tr}]
        t = 0
        for _ in range(rng.randint(4, 10)):
            k = rng.choice(['tick', 'tick', 'csend', 'ssend', 'tick'])
            if k == 'tick':
                t += rng.choice([1, 1, 2, 3, 5])
                sc.append({'op': 'tick', 't': t})
            else:
                sc.append({'op': k, 'k': rng.choice([1, 2, 3])})
        t += 20
        sc.append({'op': 'tick', 't': t})
        sc.append({'op': 'ssend', 'k': 2})
        sc.append({'op': 'csend', 'k': 2})
        t += 300
        sc.append({'op': 'tick', 't': t})          # many heartbeat cycles of idleness
        sc.append({'op': 'ssend', 'k': 1})
        t += 20
        sc.append({'op': 'tick', 't': t})
        if i % 2:
            sc.append({'op': rng.choice(['cdisc', 'sdisc'])})
            t += 300
            sc.append({'op': 'tick', 't': t})
        out.append(sc)
    return out


def slow_http_conversations(seed, n):
    """Polling / upgrading conversations on a network where every HTTP request and response
    (and, every other time, every frame) takes 1-3 ticks: requests in flight across sends,
    bursts above one payload, heartbeats and a disconnect by either side."""
    rng = random.Random(seed)
    out = []
    for i in range(n):
        sc = [{'op': 'connect', 'tr': ('poll', 'both', 'poll')[i % 3]}]
        t = 0
        for _ in range(rng.randint(5, 11)):
            k = rng.choice(['tick', 'tick', 'csend', 'ssend', 'ssendburst', 'tick'])
            if k == 'tick':
                t += rng.choice([1, 1, 2, 3, 5, 9])
                sc.append({'op': 'tick', 't': t})
            else:
                sc.append({'op': k, 'k': rng.choice([1, 2, 3, 17, 20, 33])})
        t += 40
        sc.append({'op': 'tick', 't': t})
        sc.append({'op': 'csend', 'k': 2})
        sc.append({'op': 'ssend', 'k': 2})
        if i % 2:
            sc.append({'op': rng.choice(['cdisc', 'sdisc'])})     # with the sends in flight
        t += 300
        sc.append({'op': 'tick', 't': t})
        out.append(sc)
    return out


def f27_normalise(trace):
    """Known finding F27 (threaded client, pre-emptive schedule): a step in which the application
    called disconnect() has two client disconnect events of different reasons, one 'client' (from
    disconnect() itself), the other 'terror' / 'server' (from the read loop, which ended the
    connection in the gap before disconnect() changed the state).  Returns (trace without the
    read loop's event, hit): the rest of the conversation is still validated."""
    out, hit = [], False
    for st in trace:
        cd = [i for i, e in enumerate(st['ev']) if e['e'] == 'cdisc']
        if st['op'] in ('csendcdisc', 'cdisc', 'bothdisc') and len(cd) == 2:
            rs = [st['ev'][i].get('r') for i in cd]
            if sorted(rs) in (['client', 'terror'], ['client', 'server']):
                drop = cd[0] if rs[0] != 'client' else cd[1]
                st = dict(st, ev=[e for i, e in enumerate(st['ev']) if i != drop])
                hit = True
        out.append(st)
    return out, hit


def racing_conversations(seed, n):
    rng = random.Random(seed)
    out = []
    for i in range(n):
        sc = [{'op': 'connect', 'tr': ('poll', 'both', 'poll', 'ws')[i % 4]}, {'op': 'tick', 't': 1}]
        if rng.random() < 0.5:
            sc.append({'op': 'csend', 'k': rng.choice([1, 2, 17])})
        if rng.random() < 0.3:
            sc.append({'op': 'ssend', 'k': rng.choice([1, 2])})
        end = rng.choice(['csendcdisc', 'csendcdisc', 'ssendsdisc', 'bothdisc'])
        if end == 'bothdisc':
            sc.append({'op': 'bothdisc'})
        else:
            sc.append({'op': end, 'k': rng.choice([1, 1, 2, 3, 5, 17])})
        sc.append({'op': 'tick', 't': 400})
        out.append(sc)
    return out


def idle_conversations(seed, n, end=True):
    """Idle periods of many heartbeat cycles with an occasional send either way, time advancing
    in steps of 1-3 ticks (for the pre-emptive hub: every PING / PONG exchange then happens under
    a schedule of its own, e.g. the ping thread descheduled right after queueing its PING while
    the PONG comes back); one advance in four carries an application send() issued at the same
    moment, so that it runs concurrently with the ping threads and the service task."""
    rng = random.Random(seed)
    out = []
    for i in range(n):
        sc = [{'op': 'connect', 'tr': ('poll', 'both', 'ws')[i % 3]}, {'op': 'tick', 't': 1}]
        now = 1
        for _ in range(rng.randint(20, 40)):
            r = rng.random()
            if r < 0.15:
                sc.append({'op': 'ssend', 'k': 1})
            elif r < 0.25:
                sc.append({'op': 'csend', 'k': 1})
            else:
                now += rng.choice([1, 1, 2, 3])
                # (one advance in four carries an application send() issued at the same moment)
                sc.append({'op': 'tsend' if rng.random() < 0.25 else 'tick', 't': now})
        if end:
            sc += [{'op': 'cdisc'}, {'op': 'tick', 't': now + 60}]
        out.append(sc)
    return out


IDLE_HB = [(4, 2), (4, 8), (3, 1), (8, 4)]


def run_idle_preempt(ck, seed, n, end=True):
    """Threaded client and threaded server on one pre-emptive hub through idle periods;
    returns (traces, metas) for validation against the end-to-end contract."""
    traces, metas = [], []
    for k, sc in enumerate(idle_conversations(seed, n, end)):
        pi, pt = IDLE_HB[k % len(IDLE_HB)]
        scfg = {'ping_interval': pi, 'ping_timeout': pt, 'monitor': k % 2 == 0}
        sseed = seed * 2003 + k
        steps, facts = e2e.run_conversation('sync', 'sync', scfg, sc, seed=sseed, preempt=True,
                                            time_yield=True)
        traces.append(to_trace(steps))
        metas.append({'pair': facts['pair'], 'transports': sc[0]['tr'], 'hb': [pi, pt], 'script': sc,
                      'schedule_seed': sseed, 'preempt': True, 'time_yield': True, 'scfg': scfg,
                      'api_exceptions': facts['server_api_exceptions']})
        ck.distinct([facts['pair'], 'idle-preempt', k, sseed])
    nexc = 0
    for m_ in metas:
        if m_['api_exceptions']:
            nexc += 1
            if nexc <= 3:
                ck.violation('an application call of the threaded server raised under a pre-emptive '
                             'schedule (%s, heartbeat=%s): %s' % (m_['transports'], m_['hb'],
                                                                   m_['api_exceptions'][0]),
                             {'meta': m_, 'kind': 'e2e'})
    return traces, metas


def run(tier):
    ck = Check('C10', tier)
    th = tier == 'thorough'
    c = {'MaxMsg': 3}
    r = tlc.run('EioE2E', tlc.cfg_text(spec='Spec', constants=c,
                                       invariants=['NoInvention', 'OneDisconnectEach',
                                                   'UpMeansConnected']), constants=c)
    tlc.must_pass(r, 'EioE2E')
    ck.add_tlc(r, 'the end-to-end contract itself (MaxMsg = 3): its invariants over all behaviours')
    if r.violated:
        ck.violation('EioE2E: %s violated' % r.violated, {'tlc': r.out[-3000:]})
    system_models(ck, th)
    seed = ck.seed
    traces, metas = [], []
    hb = [(16, 8), (8, 8)] if not th else [(16, 8), (8, 8), (4, 8), (40, 12)]
    n = 18 if not th else 36
    blocked = []
    for cimpl in ('sync', 'async'):
        for simpl in ('sync', 'async'):
            for (pi, pt) in hb:
                for k, sc in enumerate(conversations(seed + pi, n, th)):
                    tr0 = sc[0]['tr']
                    scfg = {'ping_interval': pi, 'ping_timeout': pt, 'monitor': k % 2 == 0,
                            'async_handlers': k % 4 == 1}
                    steps, facts = e2e.run_conversation(cimpl, simpl, scfg, sc, seed=seed)
                    traces.append(to_trace(steps))
                    metas.append({'pair': facts['pair'], 'transports': tr0, 'hb': [pi, pt],
                                  'script': sc})
                    ck.distinct([facts['pair'], tr0, pi, pt, [(o['op'], o.get('k'), o.get('t')) for o in sc]])
                    if facts['client_calls_blocked']:
                        blocked.append((metas[-1], facts['client_calls_blocked']))
                    if facts['client_handlers_not_run']:
                        blocked.append((metas[-1], ['%d message handlers never ran' %
                                                    facts['client_handlers_not_run']]))
    # slow network: websocket frames spend 1-3 ticks on the wire, so that the upgrade handshake
    # overlaps heartbeat deadlines, sends and the clock
    for cimpl in ('sync', 'async'):
        for simpl in ('sync', 'async'):
            for lat, (pi, pt) in ((1, (4, 4)), (2, (4, 8)), (3, (8, 8))):
                for k, sc in enumerate(slow_conversations(seed + lat, 6 if not th else 12)):
                    scfg = {'ping_interval': pi, 'ping_timeout': pt, 'monitor': k % 2 == 0}
                    steps, facts = e2e.run_conversation(cimpl, simpl, scfg, sc, seed=seed, latency=lat)
                    traces.append(to_trace(steps))
                    metas.append({'pair': facts['pair'], 'transports': sc[0]['tr'], 'hb': [pi, pt],
                                  'latency': lat, 'script': sc})
                    ck.distinct([facts['pair'], 'slow', lat, pi, pt, k])
                    if facts['client_calls_blocked']:
                        blocked.append((metas[-1], facts['client_calls_blocked']))
    for cimpl in ('sync', 'async'):
        for simpl in ('sync', 'async'):
            for hl, (pi, pt) in ((1, (8, 8)), (2, (8, 8)), (3, (16, 16))):
                for k, sc in enumerate(slow_http_conversations(seed + 10 + hl, 6 if not th else 12)):
                    scfg = {'ping_interval': pi, 'ping_timeout': pt, 'monitor': k % 2 == 0}
                    lat = hl if k % 2 else 0
                    steps, facts = e2e.run_conversation(cimpl, simpl, scfg, sc, seed=seed,
                                                        latency=lat, http_latency=hl)
                    traces.append(to_trace(steps))
                    metas.append({'pair': facts['pair'], 'transports': sc[0]['tr'], 'hb': [pi, pt],
                                  'latency': lat, 'http_latency': hl, 'script': sc})
                    ck.distinct([facts['pair'], 'slowhttp', hl, pi, pt, k])
                    if facts['client_calls_blocked']:
                        blocked.append((metas[-1], facts['client_calls_blocked']))
    # threaded client and threaded server on one pre-emptive hub: sends and disconnect() issued
    # back to back, so that disconnect() overlaps the write loop's request under many schedules
    for k, sc in enumerate(racing_conversations(seed + 50, 48 if not th else 200)):
        scfg = {'ping_interval': 16, 'ping_timeout': 8, 'monitor': k % 2 == 0}
        steps, facts = e2e.run_conversation('sync', 'sync', scfg, sc, seed=seed * 1009 + k, preempt=True)
        tr, hit = f27_normalise(to_trace(steps))
        if hit:
            opn, _ = load_known_findings('C10')
            f27 = [e for e in opn if e['id'] == 'F27']
            if f27:
                ck.known_finding('F27', f27[0]['what'])
                ck.cov['f27_schedules'] = ck.cov.get('f27_schedules', 0) + 1
            else:
                tr = to_trace(steps)        # not listed: judged as it is
        traces.append(tr)
        metas.append({'pair': facts['pair'], 'transports': sc[0]['tr'], 'hb': [16, 8], 'script': sc,
                      'schedule_seed': seed * 1009 + k, 'preempt': True})
        ck.distinct([facts['pair'], 'racing', k])
        if facts['client_calls_blocked']:
            blocked.append((metas[-1], facts['client_calls_blocked']))
    # ... and through idle periods of many heartbeat cycles: every PING / PONG exchange under a
    # schedule of its own
    itr, imeta = run_idle_preempt(ck, seed + 70, 36 if not th else 150)
    for tr, m_ in zip(itr, imeta):
        tr, hit = f27_normalise(tr)
        if hit:
            opn, _ = load_known_findings('C10')
            f27 = [e for e in opn if e['id'] == 'F27']
            if f27:
                ck.known_finding('F27', f27[0]['what'])
                ck.cov['f27_schedules'] = ck.cov.get('f27_schedules', 0) + 1
        traces.append(tr)
        metas.append(m_)
    v = tracecheck.validate('EioE2ETrace', traces, constants={'MaxMsg': 100000}, batch=400)
    ck.cov['states'] += v.states
    ck.cov['transitions'] += v.generated
    ck.add_conformance('conversations between a real client and a real server of this package: 4 '
                       'implementation pairs x transports [polling] / [websocket] / [polling, websocket] '
                       'x %d heartbeat settings x %d scripts (bursts of 1..40 sends each way, idle '
                       'periods of many heartbeat cycles, disconnect by either side, sends after the '
                       'end), validated against EioE2E' % (len(hb), n), len(traces), len(v.accepted))
    for i in v.rejected[:5]:
        why = explain(traces[i])
        ck.violation('conversation violates the end-to-end contract (%s, transports=%s, '
                     'heartbeat=%s): %s' % (metas[i]['pair'], metas[i]['transports'], metas[i]['hb'], why),
                     {'meta': metas[i], 'trace': traces[i], 'kind': 'e2e'})
    # the same conversations against the protocol model EioSystem (code's batch sizes / limits)
    nacc = 0
    for mode_key, mode in MODE.items():
        idx = [i for i, m_ in enumerate(metas) if m_['transports'] == mode_key]
        if not idx:
            continue
        vs = tracecheck.validate('EioSystemTrace', [traces[i] for i in idx],
                                 constants=trace_consts(mode), invariants=['TypeOK', 'InOrderOnce'],
                                 batch=400)
        ck.cov['states'] += vs.states
        ck.cov['transitions'] += vs.generated
        nacc += len(vs.accepted)
        for k in vs.rejected[:3]:
            i = idx[k]
            d = diagnose_sys(traces[i], mode)
            ck.violation('conversation is not a behaviour of the protocol model EioSystem (%s, '
                         'transports=%s, heartbeat=%s): stuck in step %s (%s) after %s events, next '
                         'recorded event %s' % (metas[i]['pair'], metas[i]['transports'],
                                                metas[i]['hb'], d.get('step'), d.get('op'),
                                                d.get('events_matched'), d.get('next_event')),
                         {'meta': metas[i], 'trace': traces[i], 'kind': 'e2e', 'diagnosis': d})
        for k, inv, txt in vs.inv_violations[:3]:
            i = idx[k]
            ck.violation('EioSystem invariant %s violated on a real conversation (%s)' % (
                inv, metas[i]['pair']), {'meta': metas[i], 'trace': traces[i], 'kind': 'e2e',
                                         'tlc': txt})
    ck.add_conformance('the same conversations validated step by step against the protocol model '
                       'EioSystem (CBatch = SLimit = SBatch = CLimit = 16): every application event '
                       'in its recorded order, quiescence and transports at the end of each step',
                       len(traces), nacc)
    for m_, b in blocked[:3]:
        ck.violation('client application call never returned: %r (%s)' % (b, m_['pair']),
                     {'meta': m_, 'kind': 'e2e'})
    ck.sample({'meta': metas[0], 'steps': traces[0][:3]})
    ck.cov['rule'] = ('case = one scripted conversation on one implementation pair / transport choice '
                      '/ heartbeat setting; distinct by that tuple and the script')
    ck.assume('the network is reliable and ordered per connection; in the slow conversations every '
              'frame and / or every HTTP request and response spends 1-3 ticks on the wire, so that '
              'application calls, heartbeats and the upgrade overlap traffic in flight')
    ck.assume('a disconnect initiated by one side reaches the other through the transport (CLOSE / '
              'socket closure) or, on polling when the client disconnects while its POST is in flight, '
              'through the heartbeat: the final clock advance lets both happen')
    return ck.finish()


def explain(tr):
    cs = ss = cr = sr = 0
    cup = sup = False
    asked = False
    cd = sd = 0
    for li, st in enumerate(tr):
        if st['op'] in ('cdisc', 'sdisc', 'csendcdisc', 'ssendsdisc', 'bothdisc'):
            asked = True
        if st['op'] in ('csend', 'csendcdisc'):
            cs += len(st['a']['acc'])
        if st['op'] in ('ssend', 'ssendsdisc'):
            ss += len(st['a']['acc'])
        for e in st['ev']:
            if e['e'] == 'sconnect':
                sup = True
            elif e['e'] == 'cconnect':
                cup = True
            elif e['e'] == 'smsg':
                if not sup or e['n'] != sr + 1 or e['n'] > cs:
                    return 'step %d: server received %r (expected message %d of %d sent)' % (li, e, sr + 1, cs)
                sr = e['n']
            elif e['e'] == 'cmsg':
                if not cup or e['n'] != cr + 1 or e['n'] > ss:
                    return 'step %d: client received %r (expected message %d of %d sent)' % (li, e, cr + 1, ss)
                cr = e['n']
            elif e['e'] == 'cdisc':
                if not cup:
                    return 'step %d: second / unexpected client disconnect event' % li
                cup = False
                cd += 1
            elif e['e'] == 'sdisc':
                if not sup:
                    return 'step %d: second / unexpected server disconnect event' % li
                sup = False
                sd += 1
        if cup != st['cup'] or sup != st['sup']:
            return 'step %d (%s): connection bits client %s/%s server %s/%s' % (
                li, st['op'], cup, st['cup'], sup, st['sup'])
        if cup and sup and st.get('settled', True) and (cr != ss or sr != cs or st['ctr'] != st['str']):
            return 'step %d (%s): at quiescence client has %d of %d, server has %d of %d, transports %s/%s' % (
                li, st['op'], cr, ss, sr, cs, st['ctr'], st['str'])
        if not asked and (cd or sd):
            return 'step %d (%s): connection ended although nobody disconnected' % (li, st['op'])
    if cd + sd > 0 and not (cd == 1 and sd == 1):
        return 'end: client saw %d disconnect events, server %d' % (cd, sd)
    return 'rejected (no single reason found)'


def replay(path, pid='C10'):
    import json
    rp = json.load(open(path))
    m = rp['meta']
    cimpl = m['pair'].split('-client/')[0]
    simpl = m['pair'].split('/')[1].split('-server')[0]
    steps, facts = e2e.run_conversation(cimpl, simpl, m.get('scfg') or
                                        {'ping_interval': m['hb'][0], 'ping_timeout': m['hb'][1]},
                                        m['script'],
                                        latency=m.get('latency', 0),
                                        http_latency=m.get('http_latency', 0),
                                        seed=m.get('schedule_seed', 0), preempt=m.get('preempt', False),
                                        time_yield=m.get('time_yield', False))
    tr = to_trace(steps)
    v = tracecheck.validate('EioE2ETrace', [tr], constants={'MaxMsg': 100000})
    mode = MODE[m['transports']]
    vs = tracecheck.validate('EioSystemTrace', [tr], constants=trace_consts(mode),
                             invariants=['TypeOK', 'InOrderOnce'])
    if facts.get('server_api_exceptions'):
        print('replay: application call raised: %s' % facts['server_api_exceptions'][0])
        print('VIOLATION property=%s replay=%s' % (pid, path))
        return 1
    if v.accepted and vs.accepted:
        print('replay: conversation satisfies the contract and is a behaviour of EioSystem')
        return 0
    if not v.accepted:
        print('replay: %s' % explain(tr))
    else:
        print('replay: not a behaviour of EioSystem: %s' % json.dumps(diagnose_sys(tr, mode))[:3000])
    print('VIOLATION property=%s replay=%s' % (pid, path))
    return 1
