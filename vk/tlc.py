"""Running TLC (model checking, simulation, trace validation) and reading its output."""
import glob
import json
import os
import re
import shutil
import subprocess
import time

from .common import SPEC, NCPU, scratch, MachineryError

JAR_CP = '/opt/veriftools/tla/tla2tools.jar:/opt/veriftools/tla/CommunityModules-deps.jar'
TLAPS_LIB = '/opt/veriftools/tlapm/lib/tlapm/stdlib'      # TLAPS.tla, for proof modules


class TLCResult:
    def __init__(self):
        self.module = self.cfg = ''
        self.constants = {}
        self.generated = self.distinct = self.depth = 0
        self.ok = False                 # finished without error
        self.violated = None            # name of violated invariant/property
        self.error = None               # other error text
        self.trace = []                 # counterexample states (text blocks)
        self.coverage = {}              # action -> (distinct, total)
        self.printed = []               # PrintT output lines (raw text)
        self.out = ''
        self.wall = 0.0
        self.mode = 'bfs'
        self.workdir = None


def workdir(prefix='tlc-'):
    """Fresh scratch dir holding a copy of every spec module."""
    d = scratch(prefix)
    for f in glob.glob(os.path.join(SPEC, '*.tla')):
        shutil.copy(f, d)
    return d


def cfg_text(spec=None, init=None, next_=None, constants=None, invariants=(), properties=(),
             constraints=(), action_constraints=(), view=None, symmetry=None,
             postcondition=None, deadlock=False, alias=None):
    """Render a TLC configuration. Constant values are TLA+ source strings (or `X <- Y`
    substitutions when the value starts with '<-')."""
    lines = []
    if spec:
        lines.append('SPECIFICATION %s' % spec)
    if init:
        lines.append('INIT %s' % init)
    if next_:
        lines.append('NEXT %s' % next_)
    if constants:
        lines.append('CONSTANTS')
        for k, v in constants.items():
            v = str(v)
            if v.startswith('<-'):
                lines.append('  %s %s' % (k, v))
            else:
                lines.append('  %s = %s' % (k, v))
    for i in invariants:
        lines.append('INVARIANT %s' % i)
    for p in properties:
        lines.append('PROPERTY %s' % p)
    for c in constraints:
        lines.append('CONSTRAINT %s' % c)
    for c in action_constraints:
        lines.append('ACTION_CONSTRAINT %s' % c)
    if view:
        lines.append('VIEW %s' % view)
    if symmetry:
        lines.append('SYMMETRY %s' % symmetry)
    if postcondition:
        lines.append('POSTCONDITION %s' % postcondition)
    if alias:
        lines.append('ALIAS %s' % alias)
    lines.append('CHECK_DEADLOCK %s' % ('TRUE' if deadlock else 'FALSE'))
    return '\n'.join(lines) + '\n'


_RE_STATS = re.compile(r'(\d+) states generated, (\d+) distinct states found')
_RE_DEPTH = re.compile(r'The depth of the complete state graph search is (\d+)')
_RE_INV = re.compile(r'Error: Invariant (\S+) is violated')
_RE_PROP = re.compile(r'Error: (?:Action|Temporal) propert(?:y|ies) (?:(\S+) )?(?:is|was|were) violated')
_RE_COV = re.compile(r'^<(\w+) line (\d+), col (\d+) .*?>: (\d+):(\d+)', re.M)


def run(module, cfg, wd=None, workers=None, simulate=None, depth=None, coverage=False,
        timeout=1800, env=None, seed=None, java_opts=None, constants=None, dfid=None,
        extra_args=()):
    """Run TLC on `module` with configuration text `cfg` in a scratch copy of the specs."""
    wd = wd or workdir()
    cfgname = 'run_%s_%d.cfg' % (module, int(time.time() * 1000) % 100000000)
    with open(os.path.join(wd, cfgname), 'w') as f:
        f.write(cfg)
    meta = os.path.join(wd, 'meta_%d' % (int(time.time() * 1e6) % 1000000000))
    # TLC unpacks its standard modules into java.io.tmpdir (one directory per run): keep that
    # inside the scratch directory, which is removed at exit
    jt = os.path.join(wd, 'jtmp')
    os.makedirs(jt, exist_ok=True)
    cmd = ['java', '-XX:+UseParallelGC', '-Xss16m', '-Djava.io.tmpdir=' + jt]
    cmd += java_opts or []
    cmd += ['-cp', JAR_CP, 'tlc2.TLC', '-metadir', meta, '-noGenerateSpecTE',
            '-workers', str(workers or NCPU), '-config', cfgname]
    if simulate:
        cmd += ['-simulate', simulate]
    if depth:
        cmd += ['-depth', str(depth)]
    if seed is not None:
        cmd += ['-seed', str(seed)]
    if coverage:
        cmd += ['-coverage', '1']
    if dfid:
        cmd += ['-dfid', str(dfid)]
    cmd += list(extra_args)
    cmd += [module]
    e = dict(os.environ)
    e.pop('JAVA_TOOL_OPTIONS', None)
    if env:
        e.update(env)
    t0 = time.time()
    try:
        p = subprocess.run(cmd, cwd=wd, env=e, stdout=subprocess.PIPE, stderr=subprocess.STDOUT,
                           timeout=timeout)
        out = p.stdout.decode('utf-8', 'replace')
        rc = p.returncode
    except subprocess.TimeoutExpired as ex:
        out = (ex.stdout or b'').decode('utf-8', 'replace') + '\n[TIMEOUT]\n'
        rc = -9
    r = TLCResult()
    r.module, r.cfg, r.out, r.wall, r.workdir = module, cfg, out, time.time() - t0, wd
    r.constants = constants or {}
    r.mode = 'simulate' if simulate else 'bfs'
    shutil.rmtree(meta, ignore_errors=True)
    ms = _RE_STATS.findall(out)
    if ms:
        r.generated, r.distinct = int(ms[-1][0]), int(ms[-1][1])
    m = _RE_DEPTH.search(out)
    if m:
        r.depth = int(m.group(1))
    m = _RE_INV.search(out)
    if m:
        r.violated = m.group(1)
    else:
        m = _RE_PROP.search(out)
        if m:
            r.violated = m.group(1) or 'temporal'
    if simulate:
        m = re.search(r'The number of states generated: (\d+)', out)
        if m:
            r.generated = r.distinct = int(m.group(1))
    if coverage:
        for name, line, col, dist, tot in _RE_COV.findall(out):
            key = name
            d0, t0_ = r.coverage.get(key, (0, 0))
            r.coverage[key] = (d0 + int(dist), t0_ + int(tot))
    r.printed = out.splitlines()
    finished = ('Model checking completed. No error has been found' in out) or \
        (simulate and rc in (0, -9) and 'Error:' not in out)
    if r.violated is None and not finished:
        if rc == -9 and simulate:
            pass
        else:
            errs = [ln for ln in out.splitlines() if 'Error' in ln or 'error' in ln]
            r.error = '\n'.join(errs[:8]) or ('TLC exit %s' % rc)
    r.ok = r.violated is None and r.error is None
    if r.violated:
        r.trace = re.findall(r'^State \d+:.*?(?=^State \d+:|\Z|^\d+ states generated)', out,
                             re.M | re.S)
    return r


def must_pass(r, what):
    """TLC must have completed without error; an invariant violation is reported by the
    caller as a property violation, anything else is a machinery failure."""
    if r.error:
        raise MachineryError('%s: TLC failed: %s\n%s' % (what, r.error, r.out[-3000:]))
    return r


def sany(files, wd=None):
    wd = wd or workdir('sany-')
    bad = []
    jt = os.path.join(wd, 'jtmp')
    os.makedirs(jt, exist_ok=True)
    for f in files:
        p = subprocess.run(['java', '-Djava.io.tmpdir=' + jt, '-DTLA-Library=' + TLAPS_LIB,
                            '-cp', JAR_CP, 'tla2sany.SANY',
                            os.path.basename(f)],
                           cwd=wd, stdout=subprocess.PIPE, stderr=subprocess.STDOUT)
        out = p.stdout.decode('utf-8', 'replace')
        if p.returncode != 0 or 'error' in out.lower().replace('errors: 0', ''):
            if 'Semantic errors' in out or 'Parse Error' in out or 'Fatal' in out or \
                    p.returncode != 0:
                bad.append((f, out[-1500:]))
    return bad


_RE_TUPLE_LINE = re.compile(r'^<<.*>>$')


def printed_tuples(r, tag):
    """Lines printed with PrintT(<<"tag", ...>>) -> list of raw line strings."""
    pref = '<<"%s"' % tag
    return [ln.strip() for ln in r.printed if ln.strip().startswith(pref)]


def parse_state(text):
    """A counterexample state block (as in TLCResult.trace) -> {variable: parsed value}."""
    out = {}
    for m in re.finditer(r'^/\\ (\w+) = (.*?)(?=^/\\ \w+ = |\Z)', text, re.S | re.M):
        try:
            out[m.group(1)] = parse_tla_value(m.group(2).strip())
        except (AssertionError, IndexError):
            out[m.group(1)] = None
    return out


def fn_get(f, k):
    """Value of a parsed TLA+ function (tuple display -> list, :> display -> dict) at k."""
    return f[k - 1] if isinstance(f, list) else f[k]


def parse_tla_value(s):
    """Parse a small subset of TLC's value syntax (ints, strings, tuples, sets, records,
    booleans) into Python (tuples -> list, sets -> list, records -> dict)."""
    pos = 0
    n = len(s)

    def ws():
        nonlocal pos
        while pos < n and s[pos] in ' \t\r\n':
            pos += 1

    def val():
        nonlocal pos
        ws()
        if s.startswith('<<', pos):
            pos += 2
            items = []
            ws()
            if s.startswith('>>', pos):
                pos += 2
                return items
            while True:
                items.append(val())
                ws()
                if s.startswith('>>', pos):
                    pos += 2
                    return items
                assert s[pos] == ',', (s, pos)
                pos += 1
        if s[pos] == '{':
            pos += 1
            items = []
            ws()
            if s[pos] == '}':
                pos += 1
                return items
            while True:
                items.append(val())
                ws()
                if s[pos] == '}':
                    pos += 1
                    return items
                assert s[pos] == ',', (s, pos)
                pos += 1
        if s[pos] == '[':
            pos += 1
            d = {}
            ws()
            while True:
                ws()
                m = re.compile(r'(\w+)\s*\|->').match(s, pos)
                assert m, (s, pos)
                pos = m.end()
                d[m.group(1)] = val()
                ws()
                if s[pos] == ']':
                    pos += 1
                    return d
                assert s[pos] == ',', (s, pos)
                pos += 1
        if s[pos] == '(':
            # function display (a :> b @@ c :> d)
            pos += 1
            d = {}
            while True:
                k = val()
                ws()
                assert s.startswith(':>', pos), (s, pos)
                pos += 2
                v = val()
                d[k if isinstance(k, (str, int)) else json.dumps(k)] = v
                ws()
                if s.startswith('@@', pos):
                    pos += 2
                    continue
                assert s[pos] == ')', (s, pos)
                pos += 1
                return d
        if s[pos] == '"':
            j = pos + 1
            buf = []
            while s[j] != '"':
                if s[j] == '\\':
                    j += 1
                buf.append(s[j])
                j += 1
            pos = j + 1
            return ''.join(buf)
        m = re.compile(r'-?\d+').match(s, pos)
        if m:
            pos = m.end()
            return int(m.group(0))
        m = re.compile(r'\w+').match(s, pos)
        assert m, (s, pos)
        pos = m.end()
        w = m.group(0)
        if w == 'TRUE':
            return True
        if w == 'FALSE':
            return False
        return w

    v = val()
    return v


def tla_str(x):
    """Python value -> TLA+ source text."""
    if isinstance(x, bool):
        return 'TRUE' if x else 'FALSE'
    if isinstance(x, int):
        return str(x)
    if isinstance(x, str):
        return '"' + x.replace('\\', '\\\\').replace('"', '\\"') + '"'
    if isinstance(x, (list, tuple)):
        return '<<' + ', '.join(tla_str(v) for v in x) + '>>'
    if isinstance(x, (set, frozenset)):
        return '{' + ', '.join(tla_str(v) for v in sorted(x, key=repr)) + '}'
    if isinstance(x, dict):
        return '[' + ', '.join('%s |-> %s' % (k, tla_str(v)) for k, v in x.items()) + ']'
    raise TypeError(x)


def write_json(path, obj):
    with open(path, 'w') as f:
        json.dump(obj, f)
