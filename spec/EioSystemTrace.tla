--------------------------- MODULE EioSystemTrace ---------------------------
(***************************************************************************)
(* Validation of real client+server conversations (the ones C10 records)   *)
(* against the protocol model EioSystem.  A trace is a sequence of steps   *)
(* {op, a, ev, cup, sup, ctr, str, settled}: the application call made,    *)
(* the application events both sides saw during the step in their real     *)
(* order, and the connection bits / transports once everything was quiet.  *)
(*                                                                         *)
(* Within a step the model takes the call's own action(s) and any of its   *)
(* protocol steps; a step of the model that produces an application event  *)
(* must produce exactly the next recorded one.  The step ends when all     *)
(* recorded events were produced, the model is quiescent (when the network *)
(* was) and agrees with the observation.  Heartbeats may start only while  *)
(* the clock is advanced ("tick").                                         *)
(***************************************************************************)
EXTENDS EioSystem, Json, IOUtils, TLCExt

Tr == JsonDeserialize(IOEnv.TRACE_FILE)
VARIABLES tid, l, j, b     \* trace, step, next event of the step, calls of the step done
tvars == <<C, S, get, post, c2s, s2c, tid, l, j, b>>

TraceInit == Init /\ tid \in 1..Len(Tr) /\ l = 1 /\ j = 1 /\ b = 0

St == Tr[tid][l]
InStep == l <= Len(Tr[tid])

\* the application event a step of the model produces, if any
EvOf ==
    IF S'.conns > S.conns THEN [e |-> "sconnect", n |-> 0]
    ELSE IF C'.conns > C.conns THEN [e |-> "cconnect", n |-> 0]
    ELSE IF Len(S'.recv) > Len(S.recv) THEN [e |-> "smsg", n |-> Last(S'.recv)]
    ELSE IF Len(C'.recv) > Len(C.recv) THEN [e |-> "cmsg", n |-> Last(C'.recv)]
    ELSE IF C'.discs > C.discs THEN [e |-> "cdisc", n |-> 0]
    ELSE IF S'.discs > S.discs THEN [e |-> "sdisc", n |-> 0]
    ELSE [e |-> "none", n |-> 0]

Observed ==
    \/ EvOf.e = "none" /\ j' = j
    \/ /\ j <= Len(St.ev) /\ EvOf.e = St.ev[j].e /\ EvOf.n = St.ev[j].n
       /\ j' = j + 1

\* how many calls the step's operation stands for
Calls == CASE St.op \in {"csend", "ssend"} -> Len(St.a.acc)
           [] St.op \in {"csendcdisc", "ssendsdisc"} -> Len(St.a.acc) + 1
           [] St.op = "bothdisc" -> 2
           [] St.op = "tick" -> 0
           [] OTHER -> 1

Call ==
    /\ InStep /\ b < Calls
    /\ CASE St.op = "connect" -> (COpenReq \/ CWsOpenReq)
         [] St.op = "csend"   -> CSend
         \* sends, then disconnect(), issued back to back
         [] St.op = "csendcdisc" -> IF b < Len(St.a.acc) THEN CSend
                                    ELSE IF C.up /\ C.ph = "up" THEN CDisconnect
                                    ELSE UNCHANGED vars
         [] St.op = "ssendsdisc" -> IF b < Len(St.a.acc) THEN SSend
                                    ELSE IF S.up THEN SDisconnect ELSE UNCHANGED vars
         [] St.op = "bothdisc" -> IF b = 0
                                  THEN (IF C.up /\ C.ph = "up" THEN CDisconnect ELSE UNCHANGED vars)
                                  ELSE (IF S.up THEN SDisconnect ELSE UNCHANGED vars)
         [] St.op = "ssend"   -> SSend
         \* disconnect() of a side that is not connected does nothing
         [] St.op = "cdisc"   -> IF C.up /\ C.ph = "up" THEN CDisconnect ELSE UNCHANGED vars
         [] St.op = "sdisc"   -> IF S.up THEN SDisconnect ELSE UNCHANGED vars
         [] OTHER -> FALSE
    /\ Observed
    /\ b' = b + 1
    /\ UNCHANGED <<tid, l>>

Proto ==
    /\ InStep
    /\ Internal \/ (St.op = "tick" /\ SPing)
    /\ Observed
    /\ UNCHANGED <<tid, l, b>>

Transport(t) == IF t = "websocket" THEN "websocket" ELSE "polling"
EndStep ==
    /\ InStep /\ b = Calls /\ j = Len(St.ev) + 1
    /\ St.settled => Quiescent
    /\ C.up = St.cup /\ S.up = St.sup
    /\ (C.up /\ S.up /\ St.settled) =>
           (Transport(C.tr) = St.ctr /\ Transport(S.tr) = St.str)
    /\ l' = l + 1 /\ j' = 1 /\ b' = 0
    /\ UNCHANGED <<vars, tid>>

Finish ==
    /\ l = Len(Tr[tid]) + 1
    /\ PrintT(<<"ACC", tid>>)
    /\ l' = l + 1
    /\ UNCHANGED <<vars, tid, j, b>>

TraceNext == Call \/ Proto \/ EndStep \/ Finish
TraceSpec == TraceInit /\ [][TraceNext]_tvars

\* the model's safety properties are evaluated on every state of every accepted conversation
DiagPrint == PrintT(<<"DIAG", l, j, b, C, S, get, post, c2s, s2c>>)
=============================================================================
