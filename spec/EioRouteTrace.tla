---------------------------- MODULE EioRouteTrace ----------------------------
EXTENDS EioRoute, Json, IOUtils, TLC, TLCExt
Tr == JsonDeserialize(IOEnv.TRACE_FILE)
VARIABLES tid, l
tvars == <<tid, l>>
Ok(e) ==
    CASE e.k = "route" ->
            /\ e.outcome \in RouteAllowed(e.under, e.bare, e.matches, e.exists, e.dots, e.escapes,
                                          e.hasapp)
            /\ (e.outcome = "file" => (e.beneath /\ e.ctok /\ e.content))
      [] e.k = "life" ->
            IF LifePassThrough(e.cbstart, e.cbstop, e.hasapp)
            THEN e.passed /\ e.sends = <<>>
            ELSE ~e.passed /\ e.sends = LifeSends(e.cbstart, e.cbstop, e.events)
      [] OTHER -> FALSE
TraceInit == tid \in 1..Len(Tr) /\ l = 1
Step == l <= Len(Tr[tid]) /\ Ok(Tr[tid][l]) /\ l' = l + 1 /\ UNCHANGED tid
Finish == l = Len(Tr[tid]) + 1 /\ PrintT(<<"ACC", tid>>) /\ l' = l + 1 /\ UNCHANGED tid
TraceSpec == TraceInit /\ [][Step \/ Finish]_tvars
=============================================================================
