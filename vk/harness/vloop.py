"""Virtual-time asyncio event loop: a SelectorEventLoop whose selector never blocks and whose
clock is ours.  quiesce() runs ready callbacks (FIFO, asyncio's own order) until none is left;
time moves only through advance_to(), deadline by deadline."""
import asyncio
import heapq
import selectors

EPOCH = 1000000.0


class _NullSelector(selectors.BaseSelector):
    def __init__(self):
        self._map = {}

    def register(self, fileobj, events, data=None):
        key = selectors.SelectorKey(fileobj, 0, events, data)
        self._map[fileobj] = key
        return key

    def unregister(self, fileobj):
        return self._map.pop(fileobj, None)

    def select(self, timeout=None):
        return []

    def get_map(self):
        return self._map

    def close(self):
        self._map.clear()


class VLoop(asyncio.SelectorEventLoop):
    def __init__(self):
        super().__init__(_NullSelector())
        self.vnow = EPOCH
        self._clock_resolution = 1e-9

    def time(self):
        return self.vnow

    # ---- stepping ------------------------------------------------------------------
    def _due(self):
        while self._scheduled and self._scheduled[0]._cancelled:
            h = heapq.heappop(self._scheduled)
            h._scheduled = False
            self._timer_cancelled_count = max(0, self._timer_cancelled_count - 1)
        return bool(self._scheduled) and self._scheduled[0]._when <= self.vnow

    def quiesce(self, limit=100000):
        n = 0
        prev = asyncio.events._get_running_loop()
        asyncio.events._set_running_loop(self)
        try:
            while self._ready or self._due():
                self._run_once()
                n += 1
                if n > limit:
                    raise RuntimeError('virtual loop does not quiesce')
        finally:
            asyncio.events._set_running_loop(prev)
        return n

    def next_deadline(self):
        while self._scheduled and self._scheduled[0]._cancelled:
            h = heapq.heappop(self._scheduled)
            h._scheduled = False
            self._timer_cancelled_count = max(0, self._timer_cancelled_count - 1)
        return self._scheduled[0]._when if self._scheduled else None

    def spawn(self, coro, name=None):
        prev = asyncio.events._get_running_loop()
        asyncio.events._set_running_loop(self)
        try:
            return self.create_task(coro, name=name)
        finally:
            asyncio.events._set_running_loop(prev)

    def shutdown(self):
        """Cancel and drain everything, close the loop."""
        prev = asyncio.events._get_running_loop()
        asyncio.events._set_running_loop(self)
        try:
            for _ in range(5):
                tasks = [t for t in asyncio.all_tasks(self) if not t.done()]
                if not tasks:
                    break
                for t in tasks:
                    t.cancel()
                k = 0
                while self._ready and k < 10000:
                    self._run_once()
                    k += 1
            for t in asyncio.all_tasks(self):
                if t.done() and not t.cancelled():
                    t.exception()       # mark retrieved
        finally:
            asyncio.events._set_running_loop(prev)
        self._scheduled.clear()
        self._ready.clear()
        try:
            self.close()
        except Exception:
            pass


class TimeShim:
    def __init__(self, loop):
        self.loop = loop

    def time(self):
        return self.loop.vnow

    def monotonic(self):
        return self.loop.vnow
