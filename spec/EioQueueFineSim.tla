--------------------------- MODULE EioQueueFineSim ---------------------------
(***************************************************************************)
(* Behaviour generation at L2 for the threaded server (spec -> code):      *)
(* EioQueueFine with a history variable recording which task was started   *)
(* or took a step.  TLC simulates; behaviours in which every started task  *)
(* has finished or is blocked for good print their schedule and outcome;   *)
(* the harness drives the real threaded Server under exactly that schedule *)
(* (hub in scripted mode) and must observe the same outcome.               *)
(***************************************************************************)
EXTENDS EioQueueFine

VARIABLE sched      \* sequence of [p, k]: k = kind for a start, "" for a step
svars == <<q, unf, closing, closed, intable, ev, deliv, sent, kind, pc, pk, it, resp, nx, alloc,
           putord, sched>>

SimInit == Init /\ sched = <<>>
SimNext ==
    \E p \in Proc :
        \/ Step(p) /\ sched' = Append(sched, [p |-> p, k |-> ""])
        \/ \E k \in Kinds : Start(p, k) /\ sched' = Append(sched, [p |-> p, k |-> k])
SimSpec == SimInit /\ [][SimNext]_svars

\* nothing more can happen: every task is idle, done, or blocked with its condition false
Stuck == \A p \in Proc : ~ENABLED Step(p)
AllStarted == \A p \in Proc : pc[p] # "idle"
EmitSchedule ==
    (Stuck /\ AllStarted) =>
        PrintT(<<"SCHEDULE", sched, q, unf, closed, closing, intable, ev, MsgsOf(deliv), sent,
                 [p \in Proc |-> pc[p]]>>)
=============================================================================
