"""C20 - gateway middleware routes by path only and static files stay inside their roots."""
import asyncio
import itertools
import os
import posixpath
import shutil
import tempfile

from .. import tlc, tracecheck
from ..common import Check

SEGS = ['engine.io', 'engine.iox', 'static', 'a.txt', 'index.html', '..', '.', '', '%2e%2e', 'sub',
        'nx', 'file', 'b.js', 'secret.txt']


class FakeEio:
    """Stands in for the Engine.IO server behind the middleware (the middleware only calls
    handle_request)."""
    def handle_request(self, environ, start_response):
        start_response('200 OK', [('X-Route', 'engine')])
        return [b'ENGINE']


class FakeAsyncEio:
    async def handle_request(self, scope, receive, send):
        await send({'type': 'http.response.start', 'status': 200, 'headers': [(b'x-route', b'engine')]})
        await send({'type': 'http.response.body', 'body': b'ENGINE'})


def make_tree():
    top = tempfile.mkdtemp(prefix='verif-c20-')
    root = os.path.join(top, 'root')
    os.makedirs(os.path.join(root, 'sub'))
    files = {'a.txt': b'FILE:a.txt', 'index.html': b'FILE:index.html', 'sub/b.js': b'FILE:sub/b.js',
             'sub/index.html': b'FILE:sub/index.html', 'b.js': b'FILE:b.js'}
    for k, v in files.items():
        with open(os.path.join(root, k), 'wb') as f:
            f.write(v)
    with open(os.path.join(top, 'secret.txt'), 'wb') as f:
        f.write(b'SECRET')
    # siblings whose names merely begin with the mapped directory's name (a containment test by
    # string prefix would take them for being inside)
    os.makedirs(os.path.join(top, 'root-old'))
    for name, content in (('root-old/secret.txt', b'SECRET2'), ('root-old/index.html', b'SECRET3'),
                          ('rootfile', b'SECRET4'), ('root.txt', b'SECRET5')):
        with open(os.path.join(top, name), 'wb') as f:
            f.write(content)
    return top, root


CT = {'txt': 'text/plain', 'html': 'text/html', 'js': 'application/javascript'}


def mappings(root):
    return {
        'dir': {'/static': root},
        'dirslash': {'/static/': root + '/'},
        'file': {'/file': os.path.join(root, 'a.txt')},
        'rootdir': {'/': root + '/'},
        'dirdefault': {'/static': root, '': 'a.txt'},
        'ctype': {'/static': {'filename': root, 'content_type': 'x/y'}},
        'filect': {'/file': {'filename': os.path.join(root, 'a.txt'), 'content_type': 'x/z'}},
        'dictnoct': {'/static': {'filename': root}},
        'defaultct': {'/static': {'filename': root}, '': {'filename': 'a.txt', 'content_type': 'x/d'}},
        'none': {},
    }


def resolve(path, mapname, root):
    """Reference resolver: -> (matches, exists, dots, escapes, expected file relative to root,
    expected content type)"""
    key = {'dir': '/static', 'dirslash': '/static/', 'file': '/file', 'rootdir': '/',
           'dirdefault': '/static', 'ctype': '/static', 'filect': '/file', 'dictnoct': '/static',
           'defaultct': '/static', 'none': None}[mapname]
    if key is None:
        return False, False, False, False, None, None
    if mapname in ('file', 'filect'):
        m = path == '/file'
        return m, m, False, False, 'a.txt' if m else None, ('x/z' if mapname == 'filect' else 'text/plain')
    base = key.rstrip('/')
    if not (path == base or path.startswith(base + '/')):
        if not (mapname == 'rootdir'):
            return False, False, False, False, None, None
    rest = path[len(base):]
    segs = rest.split('/')[1:] if rest else []
    dots = any(s in ('', '.', '..') for s in segs[:-1]) or (segs and segs[-1] in ('.', '..'))
    trailing = rest.endswith('/')
    if rest == '':
        # the mapped directory itself, named without trailing slash: either outcome
        return True, False, True, False, None, None
    stack = []
    escapes = False
    for s in segs:
        if s in ('', '.'):
            continue
        if s == '..':
            if not stack:
                escapes = True
                break
            stack.pop()
        else:
            stack.append(s)
    if escapes:
        return True, False, True, True, None, None
    rel = '/'.join(stack)
    full = os.path.join(root, rel) if rel else root
    default = 'a.txt' if mapname in ('dirdefault', 'defaultct') else 'index.html'
    used_default = False
    if trailing or os.path.isdir(full):
        if trailing:
            rel = (rel + '/' if rel else '') + default
            used_default = True
        # a directory without trailing slash is not a file
    full = os.path.join(root, rel)
    exists = os.path.isfile(full)
    ext = rel.rsplit('.', 1)[-1] if '.' in rel else ''
    ct = 'x/y' if mapname == 'ctype' else CT.get(ext, 'application/octet-stream')
    if mapname == 'defaultct' and used_default:
        ct = 'x/d'           # the default-file entry carries its own content type
    return True, exists, bool(dots), False, rel, ct


def run(tier):
    import engineio
    ck = Check('C20', tier)
    th = tier == 'thorough'
    r = tlc.run('MC_EioRoute', tlc.cfg_text(spec='Spec', invariants=['C20_EscapeNeverServed',
                                                                     'C20_EngineIffUnder']))
    tlc.must_pass(r, 'MC_EioRoute')
    ck.add_tlc(r, 'route table facts over all 128 cells')
    ck.cov['states'] += 128
    ck.cov['transitions'] += 128
    if r.violated:
        ck.violation('EioRoute fact %s violated' % r.violated, {'tlc': r.out[-3000:]})
    top, root = make_tree()
    recs, metas = [], []
    try:
        maps = mappings(root)
        maxlen = 4 if th else 3
        paths = set()
        for L in range(0, maxlen + 1):
            for tup in itertools.product(SEGS, repeat=L):
                if L == maxlen and not (set(tup) & {'..', '.', '', 'static', 'engine.io'}):
                    continue
                p = '/' + '/'.join(tup)
                paths.add(p)
                if L <= 2:
                    paths.add(p + '/')
        # an absolute file name smuggled in after an empty segment, and other spellings of the
        # secret's location
        sec = os.path.join(top, 'secret.txt')
        special = set()
        for pre in ('/static/', '/static//', '/static/sub/', '/', '//', '/static/./'):
            special.add(pre + sec)
            special.add(pre + sec.lstrip('/'))
            special.add(pre + '../' * 6 + sec.lstrip('/'))
        for pre in ('/static/', '/static/sub/../', '/', '/static/./', '/static/sub/'):
            for tail in ('../root-old/secret.txt', '../root-old/', '../root-old/index.html',
                         '../rootfile', '../root.txt', '../../root-old/secret.txt',
                         '../root-old/../root-old/secret.txt'):
                special.add(pre + tail)
        paths = sorted(paths)
        if not th:
            paths = [p for i, p in enumerate(paths) if len(p.split('/')) <= 4 or i % 3 == 0]
        paths = paths + sorted(special)
        for mapname, mp in maps.items():
            # endpoint spellings of one segment, the root endpoint (both spellings), an endpoint of
            # two segments that lies inside the mapped directory, and ASGIApp's None (= everything)
            for endpoint in ('engine.io', '/engine.io/', 'engine.io/', '/', '', 'static/sub', None):
                if endpoint != 'engine.io' and mapname not in ('dir', 'none'):
                    continue
                esegs = [x for x in (endpoint or '').split('/') if x]
                eroot = '/' + '/'.join(esegs)
                for has_app in (False, True):
                    if has_app and mapname not in ('dir', 'none', 'rootdir'):
                        continue
                    for gw in ('wsgi', 'asgi'):
                        if endpoint is None and gw == 'wsgi':
                            continue
                        app = build(engineio, gw, mp, endpoint, has_app)
                        for p in paths:
                            out = call(gw, app, p)
                            # independent of the code's normalisation: by path segments
                            under = not esegs or p.startswith(eroot + '/')
                            bare = bool(esegs) and p == eroot
                            m, ex, dots, esc, rel, ct = resolve(p, mapname, root)
                            rec = {'k': 'route', 'under': under, 'bare': bare, 'matches': m,
                                   'exists': ex, 'dots': dots, 'escapes': esc, 'hasapp': has_app,
                                   'outcome': out['outcome'], 'beneath': True, 'ctok': True,
                                   'content': True}
                            if out['outcome'] == 'file':
                                body = out['body']
                                rec['beneath'] = body.startswith(b'FILE:')
                                rec['content'] = (rel is None) or body == b'FILE:' + rel.encode() or dots
                                if rel is not None and not dots:
                                    rec['ctok'] = out['ctype'] == ct
                            recs.append(rec)
                            metas.append({'gw': gw, 'map': mapname, 'endpoint': endpoint,
                                          'has_app': has_app, 'path': p, 'ctype': out.get('ctype'),
                                          'body': repr(out.get('body'))[:40]})
                        ck.distinct([mapname, endpoint, has_app, gw])
        nroute = len(recs)
        # ---- lifespan ---------------------------------------------------------------------
        for cbs, cbe, has_app in itertools.product(['none', 'ok', 'okasync', 'raise'],
                                                   ['none', 'ok', 'okasync', 'raise'], [False, True]):
            for L in range(1, 4):
                for evs in itertools.product(['startup', 'shutdown', 'other'], repeat=L):
                    sends, passed = lifespan(engineio, cbs, cbe, has_app, list(evs))
                    recs.append({'k': 'life', 'cbstart': cbs.replace('okasync', 'ok'),
                                 'cbstop': cbe.replace('okasync', 'ok'), 'hasapp': has_app,
                                 'events': list(evs), 'sends': sends, 'passed': passed})
                    metas.append({'cbs': cbs, 'cbe': cbe, 'has_app': has_app, 'events': evs})
    finally:
        shutil.rmtree(top, ignore_errors=True)
    traces = [recs[i:i + 500] for i in range(0, len(recs), 500)]
    v = tracecheck.validate('EioRouteTrace', traces, constants={}, batch=40)
    ck.cov['states'] += v.states
    ck.cov['transitions'] += v.generated
    ck.add_conformance('%d routed requests (all paths of <= %d segments over a 14-segment alphabet x 8 '
                       'static mappings x endpoint spellings x wrapped app x WSGIApp/ASGIApp, real '
                       'directory tree with a secret outside every root) and %d lifespan event '
                       'sequences' % (nroute, maxlen, len(recs) - nroute), len(recs),
                       sum(len(traces[i]) for i in v.accepted))
    bad = 0
    for ti in v.rejected:
        for jx, rec in enumerate(traces[ti]):
            if not ok(rec):
                bad += 1
                if bad <= 5:
                    ck.violation('routing / static resolution contradicts EioRoute: %r -> %r' % (
                        metas[ti * 500 + jx], rec), {'record': rec, 'meta': metas[ti * 500 + jx]})
    if v.rejected and not bad:
        ck.violation('trace rejected', {'n': len(v.rejected)})
    for m_ in metas[:nroute:997]:
        ck.distinct(m_)
    ck.cov['distinct_nontrivial'] = 0
    for m_ in metas:
        ck.distinct(m_)
    ck.sample({'record': recs[100], 'meta': metas[100]})
    ck.cov['rule'] = ('case = one request path against one middleware configuration, or one lifespan '
                      'event sequence; distinct by (gateway, mapping, endpoint, app, path)')
    ck.assume('the bare endpoint path without trailing slash may go either way (WSGIApp and ASGIApp '
              'differ); paths with dot segments that stay inside the mapped directory may be served '
              'or not; leaving it must never be served')
    return ck.finish()


def ok(e):
    if e['k'] == 'life':
        if e['hasapp'] and e['cbstart'] == 'none' and e['cbstop'] == 'none':
            return e['passed'] and e['sends'] == []
        exp = []
        for ev in e['events']:
            if ev == 'startup':
                if e['cbstart'] == 'raise':
                    exp.append('startup.failed')
                    break
                exp.append('startup.complete')
            elif ev == 'shutdown':
                exp.append('shutdown.failed' if e['cbstop'] == 'raise' else 'shutdown.complete')
                break
        return (not e['passed']) and e['sends'] == exp
    fb = 'app' if e['hasapp'] else 'notfound'
    if e['under']:
        allowed = {'engine'}
    elif e['bare']:
        allowed = {'engine', fb, 'file'}
    elif not e['matches'] or e['escapes']:
        allowed = {fb}
    elif e['dots']:
        allowed = {'file', fb}
    elif e['exists']:
        allowed = {'file'}
    else:
        allowed = {fb}
    if e['outcome'] not in allowed:
        return False
    return e['outcome'] != 'file' or (e['beneath'] and e['ctok'] and e['content'])


def build(engineio, gw, mp, endpoint, has_app):
    if gw == 'wsgi':
        def other(environ, start_response):
            start_response('200 OK', [('X-Route', 'app')])
            return [b'APP']
        return engineio.WSGIApp(FakeEio(), other if has_app else None, static_files=mp,
                                engineio_path=endpoint)

    async def other_asgi(scope, receive, send):
        await send({'type': 'http.response.start', 'status': 200, 'headers': [(b'x-route', b'app')]})
        await send({'type': 'http.response.body', 'body': b'APP'})
    return engineio.ASGIApp(FakeAsyncEio(), other_asgi if has_app else None, static_files=mp,
                            engineio_path=endpoint)


def call(gw, app, path):
    if gw == 'wsgi':
        got = {}

        def sr(status, headers, exc_info=None):
            got['status'] = status
            got['headers'] = headers
        env = {'REQUEST_METHOD': 'GET', 'PATH_INFO': path, 'QUERY_STRING': ''}
        try:
            body = b''.join(app(env, sr))
        except Exception as e:  # noqa
            return {'outcome': 'error:' + type(e).__name__}
        status = got.get('status', '')
        hdrs = dict((k.lower(), v) for k, v in got.get('headers', []))
    else:
        sent = []

        async def receive():
            return {'type': 'http.request', 'body': b'', 'more_body': False}

        async def send(ev):
            sent.append(ev)
        scope = {'type': 'http', 'path': path, 'method': 'GET', 'query_string': b'', 'headers': []}
        try:
            asyncio.run(app(scope, receive, send))
        except Exception as e:  # noqa
            return {'outcome': 'error:' + type(e).__name__}
        st = [e for e in sent if e['type'] == 'http.response.start']
        bd = [e for e in sent if e['type'] == 'http.response.body']
        if len(st) != 1 or len(bd) != 1:
            return {'outcome': 'error:events'}
        status = str(st[0]['status'])
        hdrs = dict((k.decode().lower(), v.decode()) for k, v in st[0]['headers'])
        body = bd[0]['body']
    if body == b'ENGINE':
        return {'outcome': 'engine'}
    if body == b'APP':
        return {'outcome': 'app'}
    if status.startswith('404'):
        return {'outcome': 'notfound'}
    if status.startswith('200'):
        return {'outcome': 'file', 'body': body, 'ctype': hdrs.get('content-type')}
    return {'outcome': 'error:status ' + status}


def lifespan(engineio, cbs, cbe, has_app, events):
    passed = []

    def mk(kind):
        if kind == 'none':
            return None
        if kind == 'ok':
            return lambda: None
        if kind == 'okasync':
            async def f():
                return None
            return f

        def g():
            raise RuntimeError('scripted')
        return g

    async def other(scope, receive, send):
        passed.append(scope['type'])
    app = engineio.ASGIApp(FakeAsyncEio(), other if has_app else None, on_startup=mk(cbs),
                           on_shutdown=mk(cbe))
    q = list(events) + ['shutdown']          # the server always ends with a shutdown
    sent = []
    consumed = []

    async def receive():
        e = q.pop(0)
        consumed.append(e)
        return {'type': 'lifespan.' + e}

    async def send(ev):
        sent.append(ev['type'].replace('lifespan.', ''))

    async def go():
        await asyncio.wait_for(app({'type': 'lifespan'}, receive, send), 2)
    try:
        asyncio.run(go())
    except Exception as e:  # noqa
        sent.append('EXC:' + type(e).__name__)
    # only what was caused by the scripted events (the trailing shutdown is ours)
    n = len(events)
    if len(consumed) > n and not passed:
        # trailing shutdown consumed: drop its reply
        if sent and sent[-1].startswith('shutdown') and 'shutdown' not in events:
            sent = sent[:-1]
    return sent, bool(passed)


def replay(path):
    print(open(path).read()[:3000])
    return 1
