--------------------------- MODULE EioClientProps ---------------------------
(* C08 / C09 over EioClient's variables and history (c.ev, c.tx, c.rx).       *)
EXTENDS EioClient

IsDisc(e) == Len(e) > 5 /\ SubSeq(e, 1, 5) = "disc:"
IsMsgEv(e) == Len(e) > 4 /\ SubSeq(e, 1, 4) = "msg:"
NoDev == c.dev \subseteq {"LateReceive", "WriteLoopDropsQueued"}

TypeOK == /\ c.st \in {"disconnected", "connected", "disconnecting"}
          /\ c.sid \in {0, 1}

\* C08: events of one connection cycle: connect, messages, exactly one disconnect
Cycles(ev) == Len(SelectSeq(ev, LAMBDA e : e = "connect"))
Discs(ev) == Len(SelectSeq(ev, IsDisc))
C08_OneDisconnectPerConnect ==
    /\ Discs(c.ev) <= Cycles(c.ev)
    /\ (c.st = "disconnected" /\ call.stage = "none" /\ Quiescent /\ NoDev) => Discs(c.ev) = Cycles(c.ev)
C08_ConnectedHasOpenCycle == c.st = "connected" => Cycles(c.ev) = Discs(c.ev) + 1
\* clean state after the end
C08_CleanAfter ==
    \* (dj > 0: an application disconnect() is still waiting for the read loop; it cleans up
    \* when it returns)
    (c.st = "disconnected" /\ call.stage = "none" /\ dj = 0 /\ hj = 0) => (c.sid = 0 /\ ~c.reg)
\* while connected the client is registered and has a session id
C08_ConnectedConsistent == c.st = "connected" => (c.sid = 1 /\ c.reg)
\* the background tasks end, so wait() returns: at quiescence nothing is blocked without a
\* deadline or without somebody who will wake it
C08_NoTaskStuck ==
    (Quiescent /\ NoDev) =>
        /\ (rd.st \in {"get", "recv"} => rd.dl # None)
        /\ (wr.st \in {"qwait", "post"} => wr.dl # None)
        /\ (rd.st = "joinw" => wr.st \in {"qwait", "post"})
        /\ (call.stage # "none" => call.dl # None)
        /\ ((dj > 0 \/ wj > 0 \/ hj > 0) => rd.st \in {"get", "recv", "joinw"})
\* once disconnected (and no connect() in progress) the loops are on their way out: the
\* reader is not going to issue another request
C08_TasksEnd ==
    (Quiescent /\ NoDev /\ c.st = "disconnected" /\ call.stage = "none") =>
        (rd.st \in {"none", "done", "joinw"} \/ (rd.st \in {"get", "recv"} /\ rd.dl # None))
\* negative-control form: once a POST has failed the connection must not stay "connected" for
\* ever (violated when the repaired defect F17 is re-admitted)
C08_PostFailureEndsConnectionRaw ==
    ("PostFailureSilent" \in c.dev /\ Quiescent /\ now >= 30) => c.st # "connected"
\* no packet is handed to the message handler once the connection has ended (a handler that was
\* already started for an earlier packet may still be running: those messages were received
\* while connected)
C08_NothingReceivedAfterEnd == "LateReceive" \notin c.dev
\* the write loop never stops with packets (the CLOSE of a disconnect() in particular) still
\* queued just because the state changed while it was busy (raw form: negative control of F25)
C08_NothingLeftQueuedRaw == "WriteLoopDropsQueued" \notin c.dev
\* C09: messages are handled exactly once, in arrival order
MsgEvents == SelectSeq(c.ev, IsMsgEv)
C09_RxOnceInOrder ==
    /\ Len(MsgEvents) + Len(c.hq) = Len(c.rx)
    /\ \A i \in 1..Len(MsgEvents) : MsgEvents[i] = "msg:" \o c.rx[i]
=============================================================================
