------------------------ MODULE EioQueueFineWsTrace ------------------------
(***************************************************************************)
(* Primitive-by-primitive validation of pre-emptive executions of the real *)
(* threaded server with one websocket session against EioQueueFineWs.      *)
(* Records: {t, op, item}; t = 0 for the environment ("env": the client    *)
(* sends a CLOSE frame / goes away).  The reader is Proc 1, the writer     *)
(* Proc 2 (blocked in queue.get() when the log starts).                    *)
(***************************************************************************)
EXTENDS EioQueueFineWs, Json, IOUtils, TLCExt

Tr == JsonDeserialize(IOEnv.TRACE_FILE)
VARIABLES tid, l
tvars == <<q, unf, closing, closed, intable, ev, deliv, sent, kind, pc, pk, it, resp,
           nx, alloc, putord, wsopen, gone, inframes, tid, l>>

Evs == Tr[tid].log
TraceInit == WsInit /\ tid \in 1..Len(Tr) /\ l = 1

StepOf(p) == IF p = Reader THEN ReaderStep
             ELSE IF p = Writer THEN WriterStep
             ELSE ShortStep(p)

Consume ==
    /\ l <= Len(Evs)
    /\ LET e == Evs[l]
           p == e.t
       IN CASE e.op = "env"       -> IF e.item = "close" THEN ClientSendsClose ELSE ClientGone
            [] e.op = "start"     -> WsStart(p, e.item)
            [] e.op = "get_enter" -> p = Writer /\ StepOf(p) /\ pc'[p] = "wait" /\ q' = q /\ unf' = unf
            [] e.op = "put_enter" -> StepOf(p) /\ pc'[p] = "put" /\ it'[p] = e.item /\ q' = q
            [] e.op = "put"       -> DoPut(p) /\ WsUnch /\ it[p] = e.item
            [] e.op = "get"       -> StepOf(p) /\ q # <<>> /\ Head(q) = e.item /\ q' = Tail(q)
            [] e.op = "task_done" -> StepOf(p) /\ unf' = unf - 1 /\ q' = q
            [] e.op = "ws_close"  -> p = Writer /\ WClose /\ pc'[p] = "w_ret"
            [] e.op = "join_ret"  -> DiscJoin(p) /\ WsUnch
            [] e.op = "ret"       -> StepOf(p) /\ pc'[p] = "done" /\ q' = q /\ unf' = unf
            [] OTHER -> FALSE
    /\ l' = l + 1 /\ UNCHANGED tid

\* the only step without a primitive: a CLOSE frame read while another task is between the two
\* steps of close()
Silent ==
    /\ l <= Len(Evs) + 1
    /\ RFrameClose /\ closing /\ ~closed
    /\ UNCHANGED <<tid, l>>

Fin == Tr[tid].final
Finish ==
    /\ l = Len(Evs) + 1
    /\ q = Fin.q /\ unf = Fin.unf /\ closed = Fin.closed /\ closing = Fin.closing
    /\ intable = Fin.intable /\ ev = Fin.ev /\ MsgsOf(deliv) = Fin.deliv /\ sent = Fin.sent
    /\ PrintT(<<"ACC", tid>>)
    /\ l' = l + 1 /\ UNCHANGED <<wvars, tid>>

TraceNext == Consume \/ Silent \/ Finish
TraceSpec == TraceInit /\ [][TraceNext]_tvars
DiagPrint == PrintT(<<"DIAG", l, q, unf, closing, closed, intable, ev, deliv, pc, it, pk, wsopen, gone, inframes>>)
=============================================================================
