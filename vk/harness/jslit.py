"""Evaluation of a JavaScript double-quoted string literal (ECMAScript rules), used to check
JSONP bodies.  Returns the string value, or raises ValueError when the text between the quotes
is not a well-formed literal body (unescaped quote, raw line terminator, bad escape)."""

SIMPLE = {'n': '\n', 'r': '\r', 't': '\t', 'b': '\b', 'f': '\f', 'v': '\v', '0': '\0',
          '"': '"', "'": "'", '\\': '\\', '/': '/'}
LINE_TERMINATORS = '\n\r  '
HEX = '0123456789abcdefABCDEF'


def js_string_eval(body):
    out = []
    i = 0
    n = len(body)
    while i < n:
        c = body[i]
        if c == '"':
            raise ValueError('unescaped quote at %d' % i)
        if c in LINE_TERMINATORS:
            raise ValueError('raw line terminator at %d' % i)
        if c != '\\':
            out.append(c)
            i += 1
            continue
        i += 1
        if i >= n:
            raise ValueError('dangling backslash')
        e = body[i]
        if e == 'x':
            h = body[i + 1:i + 3]
            if len(h) != 2 or any(x not in HEX for x in h):
                raise ValueError('bad \\x escape')
            out.append(chr(int(h, 16)))
            i += 3
        elif e == 'u':
            if body[i + 1:i + 2] == '{':
                j = body.index('}', i)
                cp = int(body[i + 2:j], 16)
                out.append(chr(cp))
                i = j + 1
            else:
                h = body[i + 1:i + 5]
                if len(h) != 4 or any(x not in HEX for x in h):
                    raise ValueError('bad \\u escape')
                out.append(chr(int(h, 16)))
                i += 5
        elif e in LINE_TERMINATORS:
            i += 1                       # line continuation
            if e == '\r' and body[i:i + 1] == '\n':
                i += 1
        elif e in SIMPLE:
            if e == '0' and body[i + 1:i + 2].isdigit():
                raise ValueError('octal escape')
            out.append(SIMPLE[e])
            i += 1
        elif e.isdigit():
            raise ValueError('octal escape')
        else:
            out.append(e)                # non-escape character: itself
            i += 1
    s = ''.join(out)
    # JavaScript strings are UTF-16: join surrogate pairs
    return s.encode('utf-16', 'surrogatepass').decode('utf-16', 'surrogatepass')


def jsonp_parse(text):
    """'___eio[<index>]("<literal>");' -> (index text, literal body) or None."""
    if not text.startswith('___eio['):
        return None
    k = text.find(']("')
    if k < 0 or not text.endswith('");'):
        return None
    return text[7:k], text[k + 3:-3]


def _selftest():
    assert js_string_eval('a\\"b\\\\c\\n\\u001e\\x41\\ud83d\\ude00') == 'a"b\\c\n\x1eA\U0001F600'
    for bad in ('a"b', 'a\nb', 'a\\', '\\u12', 'x y'):
        try:
            js_string_eval(bad)
        except ValueError:
            continue
        raise AssertionError(bad)


_selftest()
