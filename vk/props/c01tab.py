"""Python mirror of EioCodecTrace!Ok, used only to point at the offending record of a trace
that TLC rejected (the verdict is TLC's)."""
JSONREST = {'obj', 'arr', 'str', 'float', 'null'}


def wire_form(k, c):
    return ('B64' if c == 'txt' else 'RAW') if k == 'bytes' else 'T'


def decode(first, rest):
    if first == 'BYTES':
        return (False, 4, 'bytes')
    if first in ('EMPTY', 'other'):
        return (True, 0, 'none')
    if first == 'b':
        return (True, 0, 'none') if rest == 'b64bad' else (False, 4, 'bytes')
    if rest == 'deep':
        return (True, 0, 'none')
    return (False, int(first[1:]), 'json' if rest in JSONREST else 'text')


def ok(e, maxp=16):
    k = e['k']
    if k == 'ctor':
        return e['ok'] == (e['kind'] != 'bytes' or e['type'] == 4)
    if k == 'enc':
        ca = 'none'
        for c in e['calls']:
            fresh = wire_form(e['kind'], c['c'])
            r = ca if (ca != 'none' and e['kind'] != 'bytes') else fresh
            if c['form'] != r or r != fresh or not c['exact']:
                return False
            ca = r
        return True
    if k == 'dec':
        err, t, kd = decode(e['first'], e['rest'])
        if e['err'] != err:
            return False
        return err or (e['type'] == t and e['kind'] == kd and e['eq'])
    if k == 'pl':
        p = e['pieces']
        err = len(p) > maxp or 'bad' in p
        if e['err'] != err:
            return False
        return err or (e['n'] == len(p) and e['order'])
    if k == 'plenc':
        return e['exact']
    if k == 'form':
        return e['same']
    return False
