-------------------------- MODULE EioClientHistory --------------------------
(***************************************************************************)
(* The client's history contract: what C08 says about the observable       *)
(* history of one Client / AsyncClient object, with no reference to how    *)
(* the client gets there.  The state is the observation itself (events so  *)
(* far, connection state, sid, registration); a step replaces it by the    *)
(* next recorded observation.  It judges executions of the threaded client *)
(* under pre-emptive schedules that the block-to-block specification       *)
(* EioClient cannot follow (a task switch inside a block).  EioClient      *)
(* satisfies it: C08_OneDisconnectPerConnect, C08_ConnectedHasOpenCycle,   *)
(* C08_ConnectedConsistent, C08_CleanAfter are its invariants.             *)
(***************************************************************************)
EXTENDS Naturals, Sequences, TLC, Json, IOUtils, TLCExt

Tr == JsonDeserialize(IOEnv.TRACE_FILE)

VARIABLES tid, l, ev, st, sid, reg
hvars == <<tid, l, ev, st, sid, reg>>

IsPrefix(a, b) == Len(a) <= Len(b) /\ SubSeq(b, 1, Len(a)) = a
IsDisc(e) == Len(e) > 5 /\ SubSeq(e, 1, 5) = "disc:"
Count(sq, P(_)) == Len(SelectSeq(sq, P))
Connects(sq) == Count(sq, LAMBDA e : e = "connect")
Discs(sq) == Count(sq, IsDisc)

Init == /\ tid \in 1..Len(Tr) /\ l = 1
        /\ ev = Tr[tid][1].st.ev /\ st = Tr[tid][1].st.st /\ sid = Tr[tid][1].st.sid
        /\ reg = Tr[tid][1].st.reg
Step == /\ l < Len(Tr[tid])
        /\ l' = l + 1 /\ UNCHANGED tid
        /\ ev' = Tr[tid][l + 1].st.ev /\ st' = Tr[tid][l + 1].st.st
        /\ sid' = Tr[tid][l + 1].st.sid /\ reg' = Tr[tid][l + 1].st.reg
Finish == /\ l = Len(Tr[tid])
          /\ PrintT(<<"ACC", tid>>)
          /\ l' = l + 1 /\ UNCHANGED <<tid, ev, st, sid, reg>>
Next == Step \/ Finish
TraceSpec == Init /\ [][Next]_hvars

\* every connect event is followed by at most one disconnect event before the next connect,
\* and nothing precedes the first connect
CycleShape ==
    /\ ev # <<>> => ev[1] = "connect"
    /\ \A i \in 1..Len(ev) : Discs(SubSeq(ev, 1, i)) <= Connects(SubSeq(ev, 1, i))
    /\ \A i \in 1..Len(ev) : ev[i] = "connect" => Connects(SubSeq(ev, 1, i - 1)) = Discs(SubSeq(ev, 1, i - 1))
\* the state agrees with the events: connected = one open cycle, otherwise none
StateAgrees ==
    /\ st = "connected" => (Connects(ev) = Discs(ev) + 1 /\ sid = 1 /\ reg)
    /\ st \in {"disconnected", "disconnecting"} => Connects(ev) = Discs(ev)
    /\ st = "disconnected" => sid = 0
\* history is only ever extended
AppendOnly == [][IsPrefix(ev, ev')]_hvars
=============================================================================
