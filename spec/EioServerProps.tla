--------------------------- MODULE EioServerProps ---------------------------
(***************************************************************************)
(* The listed properties, as far as they concern the server core, stated   *)
(* over EioServer's variables.  History variables used: g.ev (application  *)
(* events per session), g.deliv (messages handed to the client, with the   *)
(* transport), g.sent (messages accepted by send()), g.cause (first end    *)
(* cause), g.dev (deviations that fired).                                  *)
(***************************************************************************)
EXTENDS MC_EioServer

IsDisc(e) == Len(e) > 5 /\ SubSeq(e, 1, 5) = "disc:"
IsMsgEv(e) == Len(e) > 4 /\ SubSeq(e, 1, 4) = "msg:"
InQ(s, m) == \E i \in 1..Len(g.ss[s].q) : g.ss[s].q[i] = m
NoDev == g.dev = {}

TypeOK ==
    /\ now \in Nat
    /\ g.table \subseteq Sid
    /\ \A s \in Sid : g.ss[s].unf >= 0 /\ g.ss[s].unf >= Len(g.ss[s].q)
    /\ \A s \in Sid : g.ss[s].closed => g.ss[s].closing
    /\ \A s \in g.table : g.ss[s].used

---------------------------------------------------------------------------
(* C03: server -> client messages: exactly once, in order, one transport *)
\* delivered messages carry strictly increasing numbers: order kept, nothing twice
MsgNum(s, m) == IF \E n \in 1..g.sent[s] : SrvMsg(n) = m
                THEN CHOOSE n \in 1..g.sent[s] : SrvMsg(n) = m ELSE 0
C03_InOrderOnce ==
    \A s \in Sid :
        /\ \A i \in 1..Len(g.deliv[s]) : MsgNum(s, g.deliv[s][i][1]) > 0
        /\ \A i \in 1..(Len(g.deliv[s]) - 1) :
               MsgNum(s, g.deliv[s][i][1]) < MsgNum(s, g.deliv[s][i + 1][1])
C03_OnlyAccepted == \A s \in Sid : Len(g.deliv[s]) <= g.sent[s]
\* nothing accepted disappears while the session is open
C03_NoLoss ==
    Quiescent =>
        \A s \in Sid : \A n \in 1..g.sent[s] :
            \/ n <= Len(g.deliv[s])
            \/ InQ(s, SrvMsg(n))
            \/ g.ss[s].closed
            \/ wsr[s].st = "dead"
\* what sits in the queue of an open session is retrievable: either polling is enabled
\* (not upgrading), or a writer is serving the queue
C03_Retrievable ==
    (Quiescent /\ NoDev) =>
        \A s \in g.table :
            (~g.ss[s].closed /\ g.ss[s].conn) =>
                \/ (~g.ss[s].upging /\ ~g.ss[s].upged)
                \/ (g.ss[s].upging /\ wsr[s].st \in {"probe", "upg"})
                \/ (g.ss[s].upged /\ (wsw[s] \in {"new", "run"} \/ wsr[s].st = "dead"))
\* NOT a listed property (kept for experiments): once a message travelled on the websocket no
\* later one travels on polling.  A long poll that was already pending when the upgrade began
\* may legitimately outlive the handshake and carry a later message (the statement constrains
\* polling reads that START after the upgrade began; those get NOOP by PollReq).
C03_PollingOnlyBeforeUpgrade ==
    \A s \in Sid : \A i, j \in 1..Len(g.deliv[s]) :
        (i < j /\ g.deliv[s][i][2] = "ws") => g.deliv[s][j][2] = "ws"

---------------------------------------------------------------------------
(* C04: client -> server packets acted on exactly once, in order *)
MsgEvents(s) == SelectSeq(g.ev[s], IsMsgEv)
PendingFor(s) == SelectSeq(g.hq, LAMBDA h : h.s = s)
\* every accepted MESSAGE produced exactly one event (or its background handler is pending),
\* in wire order
C04_MessageOnce ==
    \A s \in Sid :
        /\ Len(MsgEvents(s)) + Len(PendingFor(s)) = Len(g.rcvd[s])
        /\ \A i \in 1..Len(MsgEvents(s)) : MsgEvents(s)[i] = "msg:" \o g.rcvd[s][i]

\* a POST carrying a packet of a type the server does not accept ends the session
\* (negative-control form: violated when the asyncio defect F7 is re-admitted)
C04_UnknownEndsSessionRaw ==
    \A s \in Sid : "AsyncUnknownTypeSwallowed" \in g.dev => g.ss[s].closed \/ ~g.ss[s].used

\* C14: after an oversize POST the session is over (the model's OVERSIZE body)
C14_OversizeEndsSession ==
    \A s \in Sid : \A i \in 1..Len(g.out) :
        (g.out[i].k = "resp" /\ g.out[i].status = 400 /\ g.ss[s].used /\ g.ss[s].conn
         /\ g.cause[s] = "server") => g.ss[s].closed

---------------------------------------------------------------------------
(* C05: connect first, one disconnect, reason = first cause *)
C05_EventShape ==
    \A s \in Sid :
        LET e == g.ev[s]
        IN e = <<>> \/
           /\ e[1] = "connect"
           /\ \A i \in 2..Len(e) : e[i] # "connect"
           /\ \A i, j \in 1..Len(e) : (IsDisc(e[i]) /\ IsDisc(e[j])) => i = j
C05_ReasonIsFirstCause ==
    \A s \in Sid : \A i \in 1..Len(g.ev[s]) :
        IsDisc(g.ev[s][i]) => g.ev[s][i] = "disc:" \o g.cause[s]
C05_ClosedHasDisc ==
    \A s \in Sid : g.ss[s].closing <=> \E i \in 1..Len(g.ev[s]) : IsDisc(g.ev[s][i])
\* after the disconnect event nothing but message events of packets that were part of the
\* same request body (or already handed to a background handler) may follow; no second
\* disconnect, no connect.  (The strict form - nothing at all - is C05_DiscIsLast, which the
\* models use wherever bodies carry nothing after a CLOSE.)
C05_NothingAfterDisc ==
    \A s \in Sid : \A i, j \in 1..Len(g.ev[s]) :
        (i < j /\ IsDisc(g.ev[s][i])) => IsMsgEv(g.ev[s][j])
\* the statement itself: after the disconnect event no event results from a request or frame
\* received afterwards.  A message event after it must stem from an input (POST body, frame)
\* whose processing had begun before the disconnect event (g.evl records, per event,
\* whether its input began after it).
C05_NothingAfterDiscStrict ==
    \A s \in Sid : \A j \in 1..Len(g.ev[s]) : IsMsgEv(g.ev[s][j]) => ~g.evl[s][j]
\* a rejected session never sees another event
C05_RejectedSilent ==
    \A s \in g.rejd : g.ev[s] = <<"connect">> /\ s \notin g.table

---------------------------------------------------------------------------
(* C06: upgrade only via the probe handshake; failure harmless *)
\* the upgrading flag is set only while a handshake is in progress on a live socket
C06_UpgradingOnlyDuringHandshakeRaw ==
    Quiescent => \A s \in Sid : g.ss[s].upging => wsr[s].st \in {"probe", "upg"}
C06_UpgradingOnlyDuringHandshake == NoDev => C06_UpgradingOnlyDuringHandshakeRaw
\* a session is on websocket only through PING probe -> PONG probe -> UPGRADE on that socket,
\* or because it was opened as a websocket
C06_UpgradedOnlyViaHandshake ==
    \A s \in Sid : g.ss[s].upged => g.hs[s] \in {"upgraded", "fresh"}
\* a transport the server does not allow is never used
C06_TransportAllowed ==
    /\ "websocket" \notin Transports => \A s \in Sid : ~g.ss[s].upged /\ ~g.ss[s].upging
    /\ "polling" \notin Transports =>
           \A s \in Sid : \A i \in 1..Len(g.deliv[s]) : g.deliv[s][i][2] = "ws"
C06_NeverBothFlags == \A s \in Sid : ~(g.ss[s].upging /\ g.ss[s].upged)
C06_WsOnlyIfAvailable == ~WsAvailable => \A s \in Sid : ~g.ss[s].upged /\ ~g.ss[s].upging

---------------------------------------------------------------------------
(* C07: heartbeat *)
\* a ping-timeout disconnect implies a PING went unanswered for more than PingTimeout
C07_NoFalseTimeout ==
    [][\A s \in Sid : (g.cause[s] # "pingto" /\ g'.cause[s] = "pingto") =>
            (g.ss[s].lp # None /\ now - g.ss[s].lp > PingTimeout)]_vars
\* a PING enters the queue exactly when a ping task wakes, PingInterval after it was armed
\* (by the OPEN or by a PONG): the number of PING packets only grows in a step in which a
\* sleeping ping task whose wake time is now disappears
NPing(q) == Len(SelectSeq(q, LAMBDA x : x = "PING"))
C07_PingCadence ==
    [][\A s \in Sid : NPing(g'.ss[s].q) > NPing(g.ss[s].q) =>
           \E i \in 1..Len(psleep) : psleep[i].s = s /\ psleep[i].wake = now
                                      /\ Len(psleep') = Len(psleep) - 1]_vars
\* ping tasks sleep exactly PingInterval
C07_PingOnlyWhenArmed ==
    \A i \in 1..Len(psleep) : psleep[i].wake - now <= PingInterval /\ psleep[i].wake >= now - 0
\* with the monitor on, an expired session is closed within the bound
C07_DetectionBound ==
    (Monitor /\ mon.st # "stopped" /\ Quiescent) =>
        \A s \in g.table :
            (g.ss[s].lp # None /\ ~g.ss[s].closing) => now - g.ss[s].lp <= 3 * PingTimeout
\* a long poll never outlives PingInterval + PingTimeout
C07_PollBounded == \A i \in 1..Len(polls) : polls[i].dl - now <= PingInterval + PingTimeout
                                            /\ (Quiescent => polls[i].dl >= now)

---------------------------------------------------------------------------
(* C15: nothing stays blocked: a task blocked in queue.join() can be released *)
C15_NoStuckJoin ==
    Quiescent => \A i \in 1..Len(joiners) :
        \/ \E k \in 1..Len(polls) : polls[k].s = joiners[i].s
        \/ wsw[joiners[i].s] \in {"new", "run"}

\* the observable history of a session (events, deliveries) is only ever extended
\* (with the shape invariants above this is the history contract EioServerHistory)
HPrefix(a, b) == Len(a) <= Len(b) /\ SubSeq(b, 1, Len(a)) = a
H_AppendOnly ==
    [][\A s \in Sid : HPrefix(g.ev[s], g.ev'[s]) /\ HPrefix(g.deliv[s], g.deliv'[s])]_vars

\* disconnect() without a sid: when the clients are closed together (asyncio), or none of
\* the closes has to wait, every client of the table has had its disconnect by the time
\* the call proceeds
C15_DisconnectAllClosesAll ==
    [][AppDisconnectAll => \A s \in g.table : g'.ss[s].closed \/ g'.ss[s].closing]_vars
\* ... and the table is empty when it returns
C15_DisconnectAllEmpties ==
    [][(AppDisconnectAll /\ Len(g'.out) > Len(g.out)
           /\ g'.out[Len(g'.out)] = [k |-> "ret", cid |-> nreq']) => g'.table = {}]_vars

---------------------------------------------------------------------------
(* C16: table hygiene *)
C16_TableOnlyUsed == \A s \in g.table : g.ss[s].used
\* with the monitor on, closed sessions leave the table within one sweep
\* with the monitor on, a closed session leaves the table within two sweeps' time
C16_ReapedInTime ==
    (Monitor /\ mon.st # "stopped" /\ Quiescent) =>
        \A s \in g.table : g.ss[s].closed => now - g.endt[s] <= 2 * PingTimeout
\* a rejected session is never addressable
C16_DeadNotInTable == \A s \in g.rejd : s \notin g.table
C16_DataIsolated == \A s \in Sid : ~g.ss[s].used => g.ss[s].ud = 0
\* in the model-checking alphabet the data stored for session s is s (save_session) or s + 2
\* (session() block): what is stored for, and read through, s never comes from another session
C16_DataIsolatedMC ==
    /\ \A s \in Sid : g.ss[s].ud \in {0, s, s + 2}
    /\ \A i \in 1..Len(g.out) : g.out[i].k = "sess" => g.out[i].ud \in {0, g.out[i].s, g.out[i].s + 2}
=============================================================================
