----------------------------- MODULE MC_EioCodec -----------------------------
(* Model-checking wrapper of EioCodec: table-level facts that enumerate sets *)
(* (kept out of EioCodec so that trace validation does not pre-evaluate them) *)
EXTENDS EioCodec

RECURSIVE SeqsUpTo(_, _)
SeqsUpTo(S, n) == IF n = 0 THEN {<<>>}
                  ELSE SeqsUpTo(S, n - 1) \cup {Append(q, x) : q \in SeqsUpTo(S, n - 1), x \in S}
AllOrNothing ==
    \A p \in SeqsUpTo({"ok", "bad"}, MaxPackets + 2) :
        LET o == PayloadOutcome(p)
        IN /\ o.err => o.n = 0
           /\ ~o.err => (o.n = Len(p) /\ Len(p) <= MaxPackets /\ \A i \in 1..Len(p) : p[i] = "ok")
=============================================================================
