"""Validation of recorded client traces against EioClient (TLC)."""
import json
import os

from .. import tlc, tracecheck


def constants_for(impl, cfg, deviations=()):
    return {'RT': cfg.get('request_timeout', 80), 'Grace': 80,
            'ImplWsProbeTimeout': 'TRUE',   # both clients bound the probe / OPEN read by request_timeout
            'ImplWsSetTimeout': 'TRUE' if impl == 'sync' else 'FALSE',
            'ConnectDisconnects': 'TRUE' if cfg.get('connect_disconnects') else 'FALSE',
            'MsgDisconnects': 'TRUE' if cfg.get('message_disconnects') else 'FALSE',
            'Deviations': '{' + ', '.join('"%s"' % d for d in sorted(deviations)) + '}',
            'Horizon': 100000000}


def validate(traces, impl, cfg, deviations=(), invariants=(), workers=None):
    return tracecheck.validate('EioClientTrace', traces, constants=constants_for(impl, cfg, deviations),
                               invariants=invariants, workers=workers)


def diagnose(trace, impl, cfg, deviations=()):
    wd = tlc.workdir('cdiag-')
    path = os.path.join(wd, 'one.json')
    with open(path, 'w') as f:
        json.dump([trace], f)
    cfgtxt = tlc.cfg_text(spec='TraceSpec', constants=constants_for(impl, cfg, deviations),
                          constraints=['DiagPrint'])
    r = tlc.run('EioClientTrace', cfgtxt, wd=wd, workers=1, env={'TRACE_FILE': path})
    from .servercheck import _extract_diag
    states = _extract_diag(r.out)
    if not states:
        return {'error': r.out[-2500:]}
    maxl = max(s[1] for s in states)
    cands = [s for s in states if s[1] == maxl]
    return {'stuck_after_line': maxl - 1, 'line': trace[maxl - 2] if maxl >= 2 else None,
            'next_line': ({'ev': trace[maxl - 1]['ev'], 'a': trace[maxl - 1]['a']}
                          if maxl - 1 < len(trace) else None),
            'candidates': cands[:10]}
