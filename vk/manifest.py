"""Regenerates /verif/MANIFEST.json from the table below (python -m vk.manifest)."""
import json
import os

from .common import VERIF

BASELINE = ("cd /repo && /venv/bin/python -m pytest -ra -q -p no:cacheprovider --timeout=900 "
            "--continue-on-collection-errors")

ALL = ['C%02d' % i for i in range(1, 21)]

# pid -> dict(category, text, note, technique, design_ref, engine)
CHECKS = {
    'C17': dict(
        category='model_checking',
        text=('TLC checks exhaustively, for scaled moduli M in {2,4,8(,16)} from every start value and '
              'an adversarial random source, that any M consecutive ids of EioSid are distinct; the real '
              'generate_id() of both servers is then run with the OS random source interposed '
              '(constant / repeating / random output) over windows starting at ~110 counter values '
              '(every 2^k boundary, the 2^24 wrap) and each window is validated by TLC against EioSid '
              'with M = 2^24; thorough adds one full period of 2^24 real issues. Model checking is the '
              'right level: the property is a counter-discipline invariant plus an encoding fact.'),
        note=('Trusted: TLC, CPython base64; the OS random source is interposed at os.urandom / '
              'random._urandom; its own unpredictability is assumed.'),
        technique='TLA+ spec EioSid + TLC exhaustive + TLC trace validation of real generate_id() windows',
        design_ref='6 (C17), 3.6', engine='tlc-table'),
}

NOT_YET = 'check not built yet at this commit (construction order in DESIGN.md section 8)'


def build():
    checks = []
    for pid in ALL:
        if pid not in CHECKS:
            continue
        c = CHECKS[pid]
        checks.append({
            'property_id': pid,
            'quick_cmd': 'bin/check %s --tier quick' % pid,
            'thorough_cmd': 'bin/check %s --tier thorough' % pid,
            'evidence_file': '/verif/evidence/%s.json' % pid,
            'replay_cmd_template': 'bin/check %s --replay {path}' % pid,
            'engine': c['engine'],
            'level_claimed': {'category': c['category'], 'text': c['text'],
                              'design_ref': 'DESIGN.md section ' + c['design_ref']},
            'level_note': c['note'],
            'technique': c['technique'],
        })
    man = {
        'version': 1,
        'setup_cmd': 'bin/setup',
        'hooks': {
            'guard': 'ENGINEIO_VERIF',
            'enable': ('no source hooks are needed: the harness substitutes the async-driver '
                       'primitives, module-level time/threading/queue names and the gateway '
                       'callables from outside; ENGINEIO_VERIF is reserved'),
            'baseline_off_cmd': BASELINE,
            'source_commits': [],
            'add_only': True,
        },
        'engines': [
            {'name': 'tlc-table', 'path': 'vk/props',
             'serves_properties': [p for p in ALL if p in CHECKS and CHECKS[p]['engine'] == 'tlc-table'],
             'kind_free_text': ('TLA+ decision-table / small state-machine specs checked exhaustively '
                                'by TLC; every cell replayed against the real code and every real '
                                'observation validated by TLC against the spec')},
            {'name': 'tlc-trace', 'path': 'vk/harness',
             'serves_properties': [p for p in ALL if p in CHECKS and CHECKS[p]['engine'] == 'tlc-trace'],
             'kind_free_text': ('TLA+ state-machine specs of server / client / system; TLC exhaustive + '
                                'simulation; real code driven under a deterministic scheduler and virtual '
                                'clock, recorded traces validated by TLC (batch trace validation)')},
        ],
        'checks': checks,
        'notes': ('All checks run /repo\'s current working tree through /venv/bin/python with '
                  'PYTHONPATH=/repo/src; no build step. Exit 2 = machinery failure.'),
        'not_applicable': [{'property_id': p, 'reason': NOT_YET} for p in ALL if p not in CHECKS],
    }
    with open(os.path.join(VERIF, 'MANIFEST.json'), 'w') as f:
        json.dump(man, f, indent=1)
        f.write('\n')
    return man


if __name__ == '__main__':
    m = build()
    print('MANIFEST.json: %d checks, %d not applicable' % (len(m['checks']), len(m['not_applicable'])))
