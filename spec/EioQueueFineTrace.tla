------------------------- MODULE EioQueueFineTrace -------------------------
(***************************************************************************)
(* Validation, primitive by primitive, of pre-emptive executions of the    *)
(* real threaded server against EioQueueFine.  The harness's queue logs    *)
(* one record per primitive that took effect, in the order they happened:  *)
(*   {t, op, item}   t = task (a Proc), op in start / get_enter / put / get *)
(*                   / task_done / join_ret / ret; item = packet token     *)
(* Every record is explained by exactly one step of that task; at the end  *)
(* the observable state of the session must be the model's.                *)
(***************************************************************************)
EXTENDS EioQueueFine, Json, IOUtils, TLCExt

Tr == JsonDeserialize(IOEnv.TRACE_FILE)
VARIABLES tid, l
tvars == <<q, unf, closing, closed, intable, ev, deliv, sent, kind, pc, pk, it, resp, nx, alloc, putord, tid, l>>

Evs == Tr[tid].log
TraceInit == Init /\ tid \in 1..Len(Tr) /\ l = 1

Consume ==
    /\ l <= Len(Evs)
    /\ LET e == Evs[l]
           p == e.t
       IN /\ CASE e.op = "start"     -> Start(p, e.item)
               [] e.op = "get_enter" -> PollEnter(p) /\ pc'[p] = "wait"
               [] e.op = "put_enter" -> Step(p) /\ pc'[p] = "put" /\ it'[p] = e.item /\ q' = q
               [] e.op = "put"       -> DoPut(p) /\ it[p] = e.item
               [] e.op = "get"       -> Step(p) /\ q # <<>> /\ Head(q) = e.item /\ q' = Tail(q)
               [] e.op = "task_done" -> Step(p) /\ unf' = unf - 1 /\ q' = q
               [] e.op = "join_ret"  -> DiscJoin(p)
               [] e.op = "ret"       -> Step(p) /\ pc'[p] = "done" /\ q' = q /\ unf' = unf
               [] OTHER -> FALSE
    /\ l' = l + 1 /\ UNCHANGED tid

Fin == Tr[tid].final
Finish ==
    /\ l = Len(Evs) + 1
    /\ q = Fin.q /\ unf = Fin.unf /\ closed = Fin.closed /\ closing = Fin.closing
    /\ intable = Fin.intable /\ ev = Fin.ev /\ MsgsOf(deliv) = Fin.deliv /\ sent = Fin.sent
    /\ PrintT(<<"ACC", tid>>)
    /\ l' = l + 1 /\ UNCHANGED <<vars, tid>>

TraceNext == Consume \/ Finish
TraceSpec == TraceInit /\ [][TraceNext]_tvars
DiagPrint == PrintT(<<"DIAG", l, q, unf, closing, closed, intable, ev, deliv, pc, it, pk>>)
=============================================================================
