"""C04 - client-to-server packets are acted on exactly once, in order, by type."""
from . import core
from ..common import Check

INVS = ['TypeOK', 'C04_MessageOnce', 'C05_EventShape', 'C05_ClosedHasDisc', 'C03_InOrderOnce',
        'C06_NeverBothFlags']


def run(tier):
    ck = Check('C04', tier)
    th = tier == 'thorough'
    A = core.alpha
    jobs = []
    for ah in ('FALSE', 'TRUE'):
        jobs.append(dict(
            name='1 session, POST bodies over every packet type, AsyncHandlers=%s' % ah,
            consts=core.consts(Alpha=A('open', 'poll', 'post'), BodyProfile='"types"',
                               AsyncHandlers=ah, MaxReq=5 if th else 4, MaxQ=4, MaxEv=5),
            invariants=INVS, min_states=300))
        jobs.append(dict(
            name='websocket + mid-upgrade session, every frame class, AsyncHandlers=%s' % ah,
            consts=core.consts(Alpha=A('open', 'openws', 'upgrade', 'wsio', 'post'),
                               BodyProfile='"msg"', FrameProfile='"all"', AsyncHandlers=ah,
                               MaxReq=4, MaxQ=4, MaxEv=4 if th else 3),
            invariants=INVS, min_states=300))
    jobs.append(dict(
        name='NEG asyncio swallows packet types 7-9 (F7): session must end',
        consts=core.consts(Alpha=A('open', 'post'), BodyProfile='"types"', MaxReq=3,
                           Deviations='{"AsyncUnknownTypeSwallowed"}'),
        invariants=['C04_UnknownEndsSessionRaw'], expect='C04_UnknownEndsSessionRaw'))
    core.run_tlc_jobs(ck, jobs)

    seed = ck.seed
    n = 400 if th else 120
    w_post = {'post': 16, 'poll': 4, 'send': 2, 'upgrade': 1, 'wsframe': 4, 'openws': 1}
    w_ws = {'openws': 3, 'wsframe': 16, 'post': 4, 'upgrade': 3, 'poll': 2, 'send': 2}
    plans = []
    for impl in ('sync', 'async'):
        for ah in (False, True):
            cfg = {'ping_interval': 8, 'ping_timeout': 4, 'async_handlers': ah}
            plans.append(dict(what='random POST bodies (all packet types, CLOSE / invalid at every '
                                   'position), async_handlers=%s' % ah, impl=impl, cfg=cfg,
                              nslots=2, scripts=core.random_scripts(seed + 1, n, 24, 2, w_post)))
            plans.append(dict(what='random frames on websocket and mid-upgrade sessions, '
                                   'async_handlers=%s' % ah, impl=impl, cfg=cfg, nslots=2,
                              scripts=core.random_scripts(seed + 2, n, 28, 2, w_ws)))
        plans.append(dict(what='bodies of 0..18 packets, every payload kind', impl=impl,
                          cfg={'ping_interval': 8, 'ping_timeout': 4}, nslots=1,
                          scripts=body_scripts(seed + 3, 60 if th else 30)))
    plans.append(core.preempt_plan(seed, 300 if th else 40, 24, 2, w_post,
                                   {'ping_interval': 8, 'ping_timeout': 4},
                                   'POST bodies of all packet types'))
    plans.append(core.preempt_plan(seed + 1, 300 if th else 40, 28, 2, w_ws,
                                   {'ping_interval': 8, 'ping_timeout': 4},
                                   'frames on websocket and mid-upgrade sessions'))
    core.conform(ck, plans)
    ck.cov['rule'] = ('case = one environment script executed on one server implementation and '
                      'handler dispatch mode; distinct by recorded action sequence')
    ck.assume('message payloads are tokens (text / JSON / binary by number); equality incl. type is '
              'checked by the harness when it interns the handler argument')
    return ck.finish()


def body_scripts(seed, n):
    import random
    rng = random.Random(seed)
    out = []
    for i in range(n):
        k = [0, 1, 2, 3, 15, 16, 17, 18][i % 8]
        body = ['m%d' % (j + 1) for j in range(k)]
        sc = [{'op': 'open'}, {'op': 'poll', 's': 1}]
        if k > 16:
            # more packets than the per-payload limit: refused as a whole (200, no event)
            sc.append({'op': 'post', 's': 1, 'body': ['TOOMANY%d' % k]})
        elif k == 0:
            sc.append({'op': 'post', 's': 1, 'body': ['EMPTYBODY']})
        else:
            pos = rng.randrange(k + 1)
            extra = rng.choice([None, 'CLOSE', 'BAD7', 'PONG', 'UPGRADE', 'BAD2'])
            if extra and k < 16:
                body.insert(pos, extra)
            sc.append({'op': 'post', 's': 1, 'body': body})
        sc += [{'op': 'poll', 's': 1}, {'op': 'post', 's': 1, 'body': ['m1']}]
        out.append(sc)
    return out


def replay(path):
    return core.replay_server_trace('C04', path)
