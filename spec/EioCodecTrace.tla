--------------------------- MODULE EioCodecTrace ---------------------------
(***************************************************************************)
(* Validation of observations of the real Packet / Payload against         *)
(* EioCodec.  The trace file is an array of traces; a trace is an array of *)
(* records of one of the kinds                                             *)
(*  ctor: [type, kind, ok]            constructor accepted the combination *)
(*  enc:  [type, kind, calls]         calls = sequence of [c, form, exact] *)
(*        on ONE packet object; form = representation class returned,      *)
(*        exact = byte-equal to the reference encoding of that class       *)
(*  dec:  [first, rest, err, type, kind, eq]   eq = payload equals the     *)
(*        reference decoding                                               *)
(*  pl:   [pieces, err, n, order]     payload decode of a body whose       *)
(*        pieces classify as given; order = packets equal the reference    *)
(*        decodings in order                                               *)
(*  plenc:[exact]                     payload encode equals the reference  *)
(*        join of text-channel encodings                                   *)
(*  form: [same]                      'd=' form variant decodes to the     *)
(*        same packets                                                     *)
(***************************************************************************)
EXTENDS EioCodec, Json, IOUtils, TLC, TLCExt

Tr == JsonDeserialize(IOEnv.TRACE_FILE)
VARIABLES tid, l
tvars == <<ptype, pkind, cache, result, ncalls, tid, l>>

RECURSIVE EncCalls(_, _, _)
\* replay the cache machine over the recorded calls
EncCalls(k, ca, calls) ==
    IF calls = <<>> THEN TRUE
    ELSE LET c == Head(calls)
             fresh == WireForm(k, c.c)
             r == IF ca # "none" /\ (k # "bytes" \/ "CacheIgnoresChannel" \in Deviations)
                  THEN ca ELSE fresh
         IN /\ c.form = r
            /\ r = WireForm(k, c.c)       \* C01: the representation of the channel asked for
            /\ c.exact = TRUE
            /\ EncCalls(k, r, Tail(calls))

Ok(e) ==
    CASE e.k = "ctor" -> e.ok = CtorOK(e.type, e.kind)
      [] e.k = "enc"  -> EncCalls(e.kind, "none", e.calls)
      [] e.k = "dec"  -> LET o == Decode(e.first, e.rest)
                         IN /\ e.err = o.err
                            /\ (~o.err => (e.type = o.type /\ e.kind = o.kind /\ e.eq = TRUE))
      [] e.k = "pl"   -> LET o == PayloadOutcome(e.pieces)
                         IN /\ e.err = o.err
                            /\ (~o.err => (e.n = o.n /\ e.order = TRUE))
      [] e.k = "plenc" -> e.exact = TRUE
      [] e.k = "form" -> e.same = TRUE
      [] OTHER -> FALSE

TraceInit ==
    /\ tid \in 1..Len(Tr) /\ l = 1
    /\ ptype = 0 /\ pkind = "none" /\ cache = "none" /\ result = "none" /\ ncalls = 0

Step ==
    /\ l <= Len(Tr[tid])
    /\ Ok(Tr[tid][l])
    /\ l' = l + 1
    /\ UNCHANGED <<ptype, pkind, cache, result, ncalls, tid>>

Finish ==
    /\ l = Len(Tr[tid]) + 1
    /\ PrintT(<<"ACC", tid>>)
    /\ l' = l + 1
    /\ UNCHANGED <<ptype, pkind, cache, result, ncalls, tid>>

TraceSpec == TraceInit /\ [][Step \/ Finish]_tvars
=============================================================================
