---------------------------- MODULE MC_EioServer ----------------------------
(* Model-checking wrapper of EioServer: environment alphabet, bounds.       *)
EXTENDS EioServer

CONSTANTS
    Alpha,        \* enabled environment action groups
    MaxQ,         \* state constraint: queue length
    MaxReq,       \* state constraint: number of requests / calls
    MaxPings,     \* state constraint: outstanding ping tasks
    MaxEv,        \* state constraint: events per session
    EnvAnytime,   \* BOOLEAN: environment actions may interleave with internal ones
    BodyProfile,  \* which POST bodies the environment may send
    FrameProfile  \* which websocket frames the environment may send

PostBodies ==
    CASE BodyProfile = "pong"  -> {<<"PONG">>}
      [] BodyProfile = "msg"   -> {<<"PONG">>, <<"m1">>, <<"CLOSE">>}
      [] BodyProfile = "close" -> {<<"CLOSE">>, <<"m1", "CLOSE">>, <<"CLOSE", "m1">>, <<"BAD7">>,
                                   <<"OVERSIZE">>}
      [] BodyProfile = "types" -> {<<"PONG">>, <<"m1">>, <<"CLOSE">>, <<"UPGRADE">>, <<"BAD7">>,
                                   <<"GARBAGE">>, <<"OVERSIZE">>, <<"m1", "CLOSE">>,
                                   <<"CLOSE", "m1">>, <<"CLOSE", "UPGRADE">>, <<"mE1">>,
                                   <<"BAD7", "m1">>, <<"m1", "BAD7">>}
      [] OTHER -> {}
Frames ==
    CASE FrameProfile = "handshake" -> {"PINGprobe", "UPGRADE", "m1", "OVERSIZE"}
      [] FrameProfile = "steady"    -> {"PINGprobe", "UPGRADE", "PONG", "m1", "CLOSE"}
      [] FrameProfile = "all"       -> {"PINGprobe", "UPGRADE", "PONG", "m1", "CLOSE", "BAD7",
                                        "OVERSIZE", "EMPTY", "PINGx"}
      [] OTHER -> {}

EnvOK == EnvAnytime \/ Quiescent

\* the environment alphabet as a set of action descriptors
EnvActs ==
    (IF "open" \in Alpha THEN {[op |-> "open", outcome |-> "accept", hsend |-> h] : h \in BOOLEAN}
     ELSE {})
    \cup (IF "reject" \in Alpha
          THEN {[op |-> "open", outcome |-> "reject", hsend |-> h] : h \in BOOLEAN} ELSE {})
    \cup (IF "openws" \in Alpha
          THEN {[op |-> "openws", outcome |-> "accept", hsend |-> h] : h \in BOOLEAN} ELSE {})
    \cup (IF "poll" \in Alpha THEN {[op |-> "poll", s |-> s] : s \in Sid} ELSE {})
    \cup (IF "post" \in Alpha THEN {[op |-> "post", s |-> s, body |-> b] : s \in Sid, b \in PostBodies}
          ELSE {})
    \cup (IF "upgrade" \in Alpha THEN {[op |-> "upgrade", s |-> s] : s \in Sid} ELSE {})
    \cup (IF "wsio" \in Alpha THEN {[op |-> "wsframe", s |-> s, f |-> f] : s \in Sid, f \in Frames}
          ELSE {})
    \cup (IF "wsio" \in Alpha THEN {[op |-> "wsdrop", s |-> s] : s \in Sid} ELSE {})
    \cup (IF "wsburst" \in Alpha
          THEN {[op |-> "wsframes", s |-> s, fs |-> fs] : s \in Sid,
                fs \in {<<"CLOSE", "m1">>, <<"m1", "CLOSE">>, <<"m1", "PONG">>, <<"PINGprobe", "UPGRADE">>,
                        <<"UPGRADE", "m1">>}}
          ELSE {})
    \cup (IF "send" \in Alpha THEN {[op |-> "send", s |-> s] : s \in Sid} ELSE {})
    \cup (IF "api" \in Alpha THEN {[op |-> "disconnect", s |-> s] : s \in Sid} ELSE {})
    \cup (IF "apiall" \in Alpha THEN {[op |-> "disconnectall"]} ELSE {})
    \cup (IF "shutdown" \in Alpha THEN {[op |-> "shutdown"]} ELSE {})
    \cup (IF "sess" \in Alpha THEN {[op |-> "save", s |-> s, tok |-> s] : s \in Sid}
                                  \cup {[op |-> "get", s |-> s] : s \in Sid}
                                  \cup {[op |-> "transport", s |-> s] : s \in Sid}
                                  \cup {[op |-> "sessctx", s |-> s, tok |-> s + 2] : s \in Sid}
                                  \cup {[op |-> "apiunknown", call |-> c] : c \in ApiCalls}
          ELSE {})

Do(a) ==
    CASE a.op = "open"    -> OpenPolling(a.outcome, a.hsend)
      [] a.op = "openws"  -> OpenWs(a.outcome, a.hsend)
      [] a.op = "poll"    -> PollReq(a.s)
      [] a.op = "post"    -> PostReq(a.s, a.body)
      [] a.op = "upgrade" -> UpgradeReq(a.s)
      [] a.op = "wsframe" -> WsFrame(a.s, a.f)
      [] a.op = "wsframes" -> WsFrames(a.s, a.fs)
      [] a.op = "wsdrop"  -> WsDrop(a.s)
      [] a.op = "send"    -> AppSend(a.s)
      [] a.op = "disconnect" -> AppDisconnect(a.s)
      [] a.op = "disconnectall" -> AppDisconnectAll
      [] a.op = "shutdown" -> AppShutdown
      [] a.op = "transport" -> AppTransport(a.s)
      [] a.op = "sessctx" -> AppSessionCtx(a.s, a.tok)
      [] a.op = "apiunknown" -> AppUnknown(a.call)
      [] a.op = "save"    -> AppSaveSession(a.s, a.tok)
      [] a.op = "get"     -> AppGetSession(a.s)
      [] a.op = "anyreq"  -> AnyReq(a.status)
      [] a.op = "tick"    -> TickTo(a.t)
      [] OTHER            -> FALSE

EnvNext == EnvOK /\ \E a \in EnvActs : Do(a)

Next == EnvNext \/ Internal \/ ("tick" \in Alpha /\ TickTo(now + 1))

Spec == Init /\ [][Next]_vars

Bound ==
    /\ \A s \in Sid : Len(g.ss[s].q) <= MaxQ
    /\ nreq <= MaxReq
    /\ Len(psleep) <= MaxPings
    /\ \A s \in Sid : g.pstart[s] <= 2
    /\ Len(g.hq) <= 2
    /\ \A s \in Sid : Len(wsin[s]) <= 2
    /\ \A s \in Sid : Len(g.ev[s]) <= MaxEv

View == <<now, [g EXCEPT !.out = <<>>], polls, psleep, wsr, wsin, wsw, wsgone, joiners, mon>>
=============================================================================
