---------------------------- MODULE EioQueueFine ----------------------------
(***************************************************************************)
(* L2: the queue protocol of one polling session of the threaded server    *)
(* (engineio/socket.py poll / send / close, server.py send / disconnect /  *)
(* the GET and POST paths) at the grain of ONE queue primitive per step,   *)
(* with a further step boundary at the CALL of every put (CPython switches *)
(* threads at calls: what a task wrote to the shared flags just before a   *)
(* put is visible to the others before the item is).                       *)
(*                                                                         *)
(* EioServer (L1) treats the code between two blocking points as one       *)
(* atomic block.  Real threads can be switched at any time; the harness's  *)
(* pre-emptive hub switches at every queue primitive.  Here every task is  *)
(* a small program whose steps end right after the atomic effect of one    *)
(* queue primitive (put, get, get_nowait, task_done, join returning) or    *)
(* with the task's return, so TLC explores every interleaving of the tasks *)
(* at that grain, and a pre-emptive execution of the real server - logged  *)
(* by the harness's queue, one record per primitive - is validated step by *)
(* step (EioQueueFineTrace).                                               *)
(*                                                                         *)
(* Tasks (kinds): "poll" (GET; with Timeouts its queue.get may time out    *)
(* whenever the queue is empty - time is not modelled), "send"             *)
(* (server.send), "disc" (server.disconnect(sid), waits in join),          *)
(* "postclose" (POST carrying CLOSE).  A POST carrying messages touches no *)
(* queue.                                                                  *)
(***************************************************************************)
EXTENDS Naturals, Sequences, FiniteSets, TLC

CONSTANTS Proc,        \* task ids
          Kinds,       \* kinds the environment may start
          MaxMsg,      \* messages the senders may queue
          Cap,         \* packets per poll response (16 in the code)
          SerialPolls, \* BOOLEAN: the client has at most one GET outstanding (as real clients do)
          Timeouts     \* BOOLEAN: a GET waiting on an empty queue may time out

NIL == "NIL"
Msg(n) == "M" \o ToString(n)
IsMsgTok(x) == x \notin {NIL, "CLOSE", "PING", "NOOP", "OPEN"}

VARIABLES
    q, unf,            \* queue.Queue: items, unfinished_tasks
    closing, closed,   \* Socket flags
    intable,           \* sid in server.sockets
    ev,                \* disconnect events fired (reasons)
    deliv,             \* packets handed to the client by poll responses, in response order
    sent,              \* messages put on the queue by send()
    kind, pc, pk, it,  \* per task: kind, program counter, packets collected, last item
    resp,              \* per task: what it returned ("none" while running)
    nx,                \* per task: where it goes on after the put it is about to make
    alloc,             \* message numbers handed out (a send() gets its number at the call)
    putord             \* message tokens in the order they were put
aux == <<nx, alloc, putord>>
vars == <<q, unf, closing, closed, intable, ev, deliv, sent, kind, pc, pk, it, resp, nx, alloc, putord>>

Init ==
    /\ q = <<>> /\ unf = 0 /\ closing = FALSE /\ closed = FALSE /\ intable = TRUE
    /\ ev = <<>> /\ deliv = <<>> /\ sent = 0
    /\ kind = [p \in Proc |-> "none"] /\ pc = [p \in Proc |-> "idle"]
    /\ pk = [p \in Proc |-> <<>>] /\ it = [p \in Proc |-> NIL] /\ resp = [p \in Proc |-> "none"]
    /\ nx = [p \in Proc |-> "done"] /\ alloc = 0 /\ putord = <<>>

\* ---- queue primitives (each one atomic, as under queue.Queue's mutex) ----
Put(x)   == q' = Append(q, x) /\ unf' = unf + 1
TaskDone == unf' = unf - 1 /\ UNCHANGED q

\* the environment starts a task
Start(p, k) ==
    /\ pc[p] = "idle" /\ k \in Kinds
    /\ (SerialPolls /\ k = "poll") =>
           ~\E o \in Proc : kind[o] = "poll" /\ pc[o] \notin {"idle", "done"}
    /\ kind' = [kind EXCEPT ![p] = k]
    /\ pc' = [pc EXCEPT ![p] = "begin"]
    /\ UNCHANGED <<q, unf, closing, closed, intable, ev, deliv, sent, pk, it, resp, aux>>

Ret(p, r) == /\ pc' = [pc EXCEPT ![p] = "done"] /\ resp' = [resp EXCEPT ![p] = r]
Goto(p, l) == pc' = [pc EXCEPT ![p] = l] /\ UNCHANGED resp

\* the call of queue.put(item): the task is about to put; it goes on at lnext afterwards
PrePut(p, item, lnext) ==
    /\ it' = [it EXCEPT ![p] = item] /\ nx' = [nx EXCEPT ![p] = lnext] /\ Goto(p, "put")
\* the put takes effect
DoPut(p) ==
    /\ pc[p] = "put"
    /\ Put(it[p])
    /\ Goto(p, nx[p])
    /\ putord' = IF IsMsgTok(it[p]) THEN Append(putord, it[p]) ELSE putord
    /\ sent' = IF IsMsgTok(it[p]) THEN sent + 1 ELSE sent
    /\ UNCHANGED <<closing, closed, intable, ev, deliv, kind, pk, it, nx, alloc>>

\* _get_socket(): KeyError for an unknown or closed session (a closed one is reaped)
Refused == ~intable \/ closed
ReapOnLookup == intable' = (intable /\ ~closed)

(* ---- GET: Socket.poll() ---- *)
\* begin: _get_socket, then the call of queue.get()
PollEnter(p) ==
    /\ kind[p] = "poll" /\ pc[p] = "begin"
    /\ IF Refused THEN ReapOnLookup /\ Ret(p, "400")
       ELSE Goto(p, "wait") /\ UNCHANGED intable
    /\ UNCHANGED <<q, unf, closing, closed, ev, deliv, sent, kind, pk, it, aux>>
\* queue.get() returns an item [blocks while the queue is empty]; the session may have been
\* closed in the meantime
PollGet(p) ==
    /\ kind[p] = "poll" /\ pc[p] = "wait"
    /\ q # <<>>
    /\ it' = [it EXCEPT ![p] = Head(q)] /\ q' = Tail(q)
    /\ Goto(p, "td1")
    /\ UNCHANGED <<unf, closing, closed, intable, ev, deliv, sent, kind, pk, aux>>
PollTd1(p) ==
    /\ kind[p] = "poll" /\ pc[p] = "td1"
    /\ TaskDone
    /\ pk' = [pk EXCEPT ![p] = IF it[p] = NIL THEN <<>> ELSE <<it[p]>>]
    /\ Goto(p, IF it[p] = NIL THEN "respond" ELSE "more")
    /\ UNCHANGED <<closing, closed, intable, ev, deliv, sent, kind, it, aux>>
\* the response leaves, then server.py drops the session from the table if it is closed
PollRespond(p) ==
    /\ kind[p] = "poll" /\ pc[p] = "respond"
    /\ deliv' = deliv \o pk[p]
    /\ intable' = (intable /\ ~closed)
    /\ Ret(p, "200")
    /\ UNCHANGED <<q, unf, closing, closed, ev, sent, kind, pk, it, aux>>
\* while len(packets) < cap: queue.get(block=False)
PollMore(p) ==
    /\ kind[p] = "poll" /\ pc[p] = "more"
    /\ IF Len(pk[p]) >= Cap \/ q = <<>>
       THEN \* the cap is reached, or Empty is raised: respond (no primitive took effect)
            /\ deliv' = deliv \o pk[p]
            /\ intable' = (intable /\ ~closed)
            /\ Ret(p, "200")
            /\ UNCHANGED <<q, it>>
       ELSE /\ it' = [it EXCEPT ![p] = Head(q)] /\ q' = Tail(q)
            /\ Goto(p, "td2")
            /\ UNCHANGED <<deliv, intable>>
    /\ UNCHANGED <<unf, closing, closed, ev, sent, kind, pk, aux>>
\* task_done(); a sentinel met while draining is put back for whoever comes next
PollTd2(p) ==
    /\ kind[p] = "poll" /\ pc[p] = "td2"
    /\ TaskDone
    /\ IF it[p] = NIL
       THEN Goto(p, "reput") /\ UNCHANGED pk
       ELSE pk' = [pk EXCEPT ![p] = Append(@, it[p])] /\ Goto(p, "more")
    /\ UNCHANGED <<closing, closed, intable, ev, deliv, sent, kind, it, aux>>
\* the call of put(None)
PollReput(p) ==
    /\ kind[p] = "poll" /\ pc[p] = "reput"
    /\ PrePut(p, NIL, "respond")
    /\ UNCHANGED <<q, unf, closing, closed, intable, ev, deliv, sent, kind, pk, alloc, putord>>

(* ---- Socket.close(): test-and-set closing + disconnect event, then the call of put(CLOSE)
   (unless abort); after that put: closed = True, then the call of put(None).  When the
   session is already closing or closed, close() does nothing. ---- *)
CloseEnter(p, reason, lputnil) ==
    /\ closing' = TRUE
    /\ ev' = Append(ev, reason)
    /\ PrePut(p, "CLOSE", lputnil)
ClosePutNil(p, lnext) ==
    /\ closed' = TRUE
    /\ PrePut(p, NIL, lnext)

(* ---- GET whose queue.get() times out: handle_get_request closes with "transport error",
   then the EngineIOError branch of handle_request calls disconnect(sid), which finds close()
   a no-op and drops the session from the table ---- *)
TimeoutBegin(p) ==
    /\ Timeouts /\ kind[p] = "poll" /\ pc[p] = "wait"
    /\ q = <<>>                                      \* nothing came: QueueEmpty
    /\ IF closing \/ closed
       THEN /\ intable' = FALSE /\ Ret(p, "400") /\ UNCHANGED <<closing, ev, it, nx>>
       ELSE /\ CloseEnter(p, "terror", "t_nil") /\ UNCHANGED intable
    /\ UNCHANGED <<q, unf, closed, deliv, sent, kind, pk, alloc, putord>>
TimeoutNil(p) ==
    /\ kind[p] = "poll" /\ pc[p] = "t_nil"
    /\ ClosePutNil(p, "t_end")
    /\ UNCHANGED <<q, unf, closing, intable, ev, deliv, sent, kind, pk, alloc, putord>>
TimeoutEnd(p) ==
    /\ kind[p] = "poll" /\ pc[p] = "t_end"
    /\ intable' = FALSE /\ Ret(p, "400")
    /\ UNCHANGED <<q, unf, closing, closed, ev, deliv, sent, kind, pk, it, aux>>

(* ---- POST carrying CLOSE: receive() -> close(wait=False, abort=True) ---- *)
PostCloseBegin(p) ==
    /\ kind[p] = "postclose" /\ pc[p] = "begin"
    /\ IF Refused
       THEN /\ ReapOnLookup /\ Ret(p, "400") /\ UNCHANGED <<closing, closed, ev, it, nx>>
       ELSE IF closing
       THEN /\ Ret(p, "200") /\ UNCHANGED <<closing, closed, ev, intable, it, nx>>
       ELSE \* abort: no CLOSE packet; flags, event, then the call of put(None)
            /\ closing' = TRUE /\ ev' = Append(ev, "client") /\ closed' = TRUE
            /\ PrePut(p, NIL, "pc_end") /\ UNCHANGED intable
    /\ UNCHANGED <<q, unf, deliv, sent, kind, pk, alloc, putord>>
PostCloseEnd(p) ==
    /\ kind[p] = "postclose" /\ pc[p] = "pc_end"
    /\ Ret(p, "200")
    /\ UNCHANGED <<q, unf, closing, closed, intable, ev, deliv, sent, kind, pk, it, aux>>

(* ---- server.send(sid, data): the message gets its number at the call ---- *)
SendBegin(p) ==
    /\ kind[p] = "send" /\ pc[p] = "begin"
    /\ IF Refused \/ alloc >= MaxMsg
       THEN /\ ReapOnLookup /\ Ret(p, "noop") /\ UNCHANGED <<it, nx, alloc>>
       ELSE /\ alloc' = alloc + 1
            /\ PrePut(p, Msg(alloc + 1), "s_end") /\ UNCHANGED intable
    /\ UNCHANGED <<q, unf, closing, closed, ev, deliv, sent, kind, pk, putord>>
SendEnd(p) ==
    /\ kind[p] = "send" /\ pc[p] = "s_end"
    /\ Ret(p, "ok")
    /\ UNCHANGED <<q, unf, closing, closed, intable, ev, deliv, sent, kind, pk, it, aux>>

(* ---- server.disconnect(sid): close(wait=True), then del ---- *)
DiscBegin(p) ==
    /\ kind[p] = "disc" /\ pc[p] = "begin"
    /\ IF Refused
       THEN /\ ReapOnLookup /\ Ret(p, "ok") /\ UNCHANGED <<closing, ev, it, nx>>
       ELSE IF closing
       THEN \* close() is a no-op; `del self.sockets[sid]`
            /\ intable' = FALSE /\ Ret(p, "ok") /\ UNCHANGED <<closing, ev, it, nx>>
       ELSE /\ CloseEnter(p, "server", "d_nil") /\ UNCHANGED intable
    /\ UNCHANGED <<q, unf, closed, deliv, sent, kind, pk, alloc, putord>>
DiscNil(p) ==
    /\ kind[p] = "disc" /\ pc[p] = "d_nil"
    /\ ClosePutNil(p, "d_join")
    /\ UNCHANGED <<q, unf, closing, intable, ev, deliv, sent, kind, pk, alloc, putord>>
\* queue.join(): returns when the joining thread finds the counter at zero
DiscJoin(p) ==
    /\ kind[p] = "disc" /\ pc[p] = "d_join"
    /\ unf = 0
    /\ Goto(p, "d_del")
    /\ UNCHANGED <<q, unf, closing, closed, intable, ev, deliv, sent, kind, pk, it, aux>>
DiscDel(p) ==
    /\ kind[p] = "disc" /\ pc[p] = "d_del"
    /\ intable' = FALSE
    /\ Ret(p, "ok")
    /\ UNCHANGED <<q, unf, closing, closed, ev, deliv, sent, kind, pk, it, aux>>

Step(p) ==
    \/ DoPut(p)
    \/ PollEnter(p) \/ PollGet(p) \/ PollTd1(p) \/ PollRespond(p) \/ PollMore(p) \/ PollTd2(p) \/ PollReput(p)
    \/ TimeoutBegin(p) \/ TimeoutNil(p) \/ TimeoutEnd(p)
    \/ PostCloseBegin(p) \/ PostCloseEnd(p)
    \/ SendBegin(p) \/ SendEnd(p)
    \/ DiscBegin(p) \/ DiscNil(p) \/ DiscJoin(p) \/ DiscDel(p)

Next == \E p \in Proc : Step(p) \/ \E k \in Kinds : Start(p, k)
Spec == Init /\ [][Next]_vars
FairSpec == Spec /\ \A p \in Proc : WF_vars(Step(p))

-----------------------------------------------------------------------------
TypeOK == /\ unf \in Nat /\ Len(q) <= unf
          /\ \A p \in Proc : pc[p] \in {"idle", "begin", "wait", "td1", "respond", "more", "td2", "reput", "put",
                                         "t_nil", "t_end", "pc_end", "s_end", "d_nil", "d_join",
                                         "d_del", "done"}
\* C05 at this grain: at most one disconnect event, whatever the interleaving; a closed session
\* has had it
OneDisconnect == Len(ev) <= 1
ClosedHasDisconnect == closed => Len(ev) = 1
\* C03 at this grain: every accepted message is, exactly once, either delivered, or held by a
\* poll that has not answered yet, or still queued; nothing else claims to be a message
MsgsOf(sq) == SelectSeq(sq, IsMsgTok)
RECURSIVE Held(_)
Held(S) == IF S = {} THEN <<>>
           ELSE LET p == CHOOSE x \in S : TRUE
                IN (IF pc[p] # "done" /\ pc[p] # "td1" THEN MsgsOf(pk[p]) ELSE <<>>)
                   \o (IF pc[p] \in {"td1", "td2"} /\ IsMsgTok(it[p]) THEN <<it[p]>> ELSE <<>>)
                   \o Held(S \ {p})
Everywhere == MsgsOf(deliv) \o Held(Proc) \o MsgsOf(q)
NoLossNoDup ==
    /\ Len(Everywhere) = Len(putord) /\ Len(putord) = sent
    /\ \A i \in 1..Len(putord) : \E j \in 1..Len(Everywhere) : Everywhere[j] = putord[i]
    /\ \A i, j \in 1..Len(putord) : putord[i] = putord[j] => i = j
\* with one GET outstanding at a time the client gets the messages in the order they were queued
DeliveredInOrder == SerialPolls => Everywhere = putord
\* the counter never goes negative and counts what is queued or being handed over
CounterSound == unf >= Len(q)
\* liveness (expected to FAIL: finding F6): disconnect(sid) returns
DisconnectReturns == \A p \in Proc : (kind[p] = "disc" /\ pc[p] = "begin") ~> (pc[p] = "done")
\* liveness that holds: every poll that got something answers
PollAnswers == \A p \in Proc : (kind[p] = "poll" /\ pc[p] = "td1") ~> (pc[p] = "done")
\* ... and with timeouts no poll waits for ever
PollReturns == \A p \in Proc : (kind[p] = "poll" /\ pc[p] = "begin") ~> (pc[p] = "done")
=============================================================================
