"""Regenerates /verif/MANIFEST.json from the table below (python -m vk.manifest)."""
import json
import os

from .common import VERIF

BASELINE = ("cd /repo && /venv/bin/python -m pytest -ra -q -p no:cacheprovider --timeout=900 "
            "--continue-on-collection-errors")

ALL = ['C%02d' % i for i in range(1, 21)]

# pid -> dict(category, text, note, technique, design_ref, engine)
CHECKS = {
    'C17': dict(
        category='model_checking',
        text=('TLC checks exhaustively, for scaled moduli M in {2,4,8(,16)} from every start value and '
              'an adversarial random source, that any M consecutive ids of EioSid are distinct; the real '
              'generate_id() of both servers is then run with the OS random source interposed '
              '(constant / repeating / random output) over windows starting at ~110 counter values '
              '(every 2^k boundary, the 2^24 wrap) and each window is validated by TLC against EioSid '
              'with M = 2^24; thorough adds one full period of 2^24 real issues. Model checking is the '
              'right level: the property is a counter-discipline invariant plus an encoding fact.'),
        note=('Trusted: TLC, CPython base64; the OS random source is interposed at os.urandom / '
              'random._urandom; its own unpredictability is assumed.'),
        technique='TLA+ spec EioSid + TLC exhaustive + TLC trace validation of real generate_id() windows',
        design_ref='6 (C17), 3.6', engine='tlc-table'),
}

CORE_NOTE = 'Trusted: TLC + CommunityModules Json reader; CPython, greenlet, asyncio internals used by the virtual loop; the deterministic stand-ins for queue.Queue / threading / time / simple_websocket and the WSGI/ASGI caller side (harness/hub.py, vloop.py, world.py). Real code explored under cooperative (block-to-block) schedules; all interleavings of the abstract actions are explored by TLC within the stated bounds.'

CHECKS.update({
    'C03': dict(category='model_checking', text='TLC checks exactly-once / in-order / no-loss / retrievability invariants of EioServerProps on 5 bounded models (timed polling with overlapping polls, upgrade handshake with failures, websocket-only, 2 sessions, environment interleaved with internal steps) plus a negative control; TLC-simulated behaviours and seeded random scripts (polling, upgrade, websocket-only, bursts of 1..40 sends, 3 sessions + monitor) are executed on the real Server and AsyncServer under a deterministic scheduler and virtual clock, and every recorded trace (full projected state, outputs in order) is validated by TLC against EioServer with all invariants evaluated in every state. Delivery order/duplication/loss across poll, sentinel and upgrade interleavings is a state-machine property: model checking bound to the code by trace validation is the fitting level.', note=CORE_NOTE, technique='TLA+ spec EioServer/EioServerProps: TLC exhaustive (per-property alphabets) + TLC simulation replayed on real Server/AsyncServer + TLC batch trace validation of recorded executions', design_ref='6 (C03), 3.1, 4', engine='tlc-trace'),
    'C04': dict(category='model_checking', text='TLC checks C04_MessageOnce (every accepted MESSAGE yields exactly one event, in wire order, or its background handler is pending) and event-shape invariants over POST bodies of every packet type (CLOSE / invalid at every position) and every websocket frame class, for both handler dispatch modes, with the repaired asyncio defect F7 as negative control; random bodies/frames and bodies of 0..18 packets run on both real servers and validated by TLC.', note=CORE_NOTE, technique='TLA+ spec EioServer/EioServerProps: TLC exhaustive (per-property alphabets) + TLC simulation replayed on real Server/AsyncServer + TLC batch trace validation of recorded executions', design_ref='6 (C04)', engine='tlc-trace'),
    'C05': dict(category='model_checking', text='TLC races the end causes (client CLOSE, disconnect(), ping timeout from send and monitor, poll timeout, protocol error, websocket drop/oversize/read timeout) on polling, websocket and mid-upgrade sessions and checks event shape, single disconnect, reason = first cause, rejected sessions silent; every ordered pair of causes at the same virtual instant (before/at/after the ping deadline) plus random histories (monitor on/off, raising disconnect handler) run on both real servers and validated by TLC.', note=CORE_NOTE, technique='TLA+ spec EioServer/EioServerProps: TLC exhaustive (per-property alphabets) + TLC simulation replayed on real Server/AsyncServer + TLC batch trace validation of recorded executions', design_ref='6 (C05)', engine='tlc-trace'),
    'C06': dict(category='model_checking', text="TLC explores every frame sequence on the upgrade socket (11 frame classes) with drops at every point, concurrent polls and sends, under the clock, for WsAvailable / transports settings, checking that 'upgrading' is set only during a live handshake, upgraded only via PING probe / PONG probe / UPGRADE or a fresh websocket, queue retrievable after failure, disallowed transports never used; negative controls re-admit the repaired defects F8/F12; all frame sequences of length <= 2 (quick) / 3 (thorough) and random upgrade histories in 5 configurations run on both real servers and validated by TLC.", note=CORE_NOTE, technique='TLA+ spec EioServer/EioServerProps: TLC exhaustive (per-property alphabets) + TLC simulation replayed on real Server/AsyncServer + TLC batch trace validation of recorded executions', design_ref='6 (C06)', engine='tlc-trace'),
    'C07': dict(category='model_checking', text='TLC checks NoFalseTimeout, PingCadence (action properties), DetectionBound (I+3T with monitor), PollBounded and ReapedInTime on a grid of (interval, timeout) with monitor on/off, websocket with read timeout, and 2-3 sessions for the monitor sweep spacing; timing scripts placing each PONG just before / at / just after its deadline with sends and polls on either side run on both real servers (real service task, virtual clock in 1/16 s units) for several (interval, timeout, grace, monitor) settings and are validated by TLC.', note=CORE_NOTE, technique='TLA+ spec EioServer/EioServerProps: TLC exhaustive (per-property alphabets) + TLC simulation replayed on real Server/AsyncServer + TLC batch trace validation of recorded executions', design_ref='6 (C07)', engine='tlc-trace'),
    'C15': dict(category='model_checking', text='TLC checks that no task blocked in queue.join() is stuck (C15_NoStuckJoin) over request alphabets on polling / websocket / mid-upgrade sessions; the application-disconnect models reproduce the known findings F6/F6b, identified by counterexample shape; random histories interleaved with refused requests (18 kinds), malformed bodies (11 kinds) and API calls run on both real servers through the real WSGIApp / ASGIApp; at the end the clock runs past the heartbeat bound and no request or call may remain blocked (except the listed finding), every response is checked against the WSGI / ASGI call protocol and the allowed status set, and all traces are validated by TLC.', note=CORE_NOTE, technique='TLA+ spec EioServer/EioServerProps: TLC exhaustive (per-property alphabets) + TLC simulation replayed on real Server/AsyncServer + TLC batch trace validation of recorded executions', design_ref='6 (C15)', engine='tlc-trace'),
    'C16': dict(category='model_checking', text='TLC checks table invariants (only used ids, rejected ids never addressable, closed sessions reaped within two sweep times when monitoring, user data isolated) with 2 sessions, every close cause, API calls with live/dead ids and the monitor; long random histories (up to 6 sessions, clients vanishing mid-poll/mid-upgrade/mid-handshake, get/save_session with live/dead ids, real monitor task) run on both real servers, validated by TLC, and at the end of each monitored history the table must equal the live sessions.', note=CORE_NOTE, technique='TLA+ spec EioServer/EioServerProps: TLC exhaustive (per-property alphabets) + TLC simulation replayed on real Server/AsyncServer + TLC batch trace validation of recorded executions', design_ref='6 (C16)', engine='tlc-trace'),
    'C18': dict(category='model_checking', text='The same environment scripts (union of the C03-C07 families incl. handshake sequences, simultaneous end causes, timing scripts, bursts) are executed on Server and AsyncServer; both traces are validated against the one specification EioServer, and the step-wise pairing of their observations (events, delivered messages with transport, liveness, transport, admission status) is validated by TLC against EioEquiv, which tolerates only silence-caused ends being detected at different moments (both must have ended the session by the end).', note=CORE_NOTE, technique='TLA+ spec EioServer/EioServerProps: TLC exhaustive (per-property alphabets) + TLC simulation replayed on real Server/AsyncServer + TLC batch trace validation of recorded executions', design_ref='4.6, 6 (C18)', engine='tlc-trace'),
})

CHECKS.update({
    'C01': dict(category='model_checking', text='TLC checks the Packet-object state machine of EioCodec exhaustively (every (type, payload kind), every sequence of up to 4 encode() calls over both channel kinds: each call must return the representation of the channel asked for) together with the decode / round-trip / binary-only-MESSAGE tables, with the repaired cache defect F1 as negative control; the real Packet is then observed - constructor acceptance, all encode-call sequences up to length 3-4 on one object for ~150-500 payloads x 7 types, decode of every emitted wire form, of all strings up to length 3 (quick) / 4 (thorough) over a 14-symbol adversarial alphabet and of digit/b-prefixed adversarial texts - each observation is classified by an independent stdlib reference (json, base64) that also decides byte-exactness, and TLC validates every record against the EioCodec tables and cache machine.', note='Trusted: TLC, CPython json/base64 (reference encoder/decoder in vk/props/codec.py). The specification decides which wire form / decode outcome is due; byte equality is computed by the reference.', technique='TLA+ spec EioCodec: TLC exhaustive (cache state machine + rule tables) + TLC trace validation of observations of the real Packet', design_ref='6 (C01), 3.6', engine='tlc-table'),
    'C02': dict(category='model_checking', text='TLC checks the payload outcome table (all-or-nothing, count gate at exactly the limit, order) over all piece sequences up to limit+2 for scaled limits; the real Payload is observed on packet lists of length 0..18, 25, 40 mixing text / JSON / binary / empty packets (encode must equal the reference join, decode must return the reference packets in order), on the form-encoded d= variant of each, on every string up to length 4 (quick) / 5 (thorough) over a 15-symbol adversarial alphabet incl. the separator, on random longer strings, and with the limit patched to 1..3; each observation is abstracted by the stdlib reference and validated by TLC against EioCodec; decode CPU time is watched (2 s).', note='Trusted: TLC, CPython json/base64/urllib (reference). Hang detection uses process CPU time (the one place wall-ish time is used).', technique='TLA+ spec EioCodec (payload table): TLC exhaustive + TLC trace validation of observations of the real Payload', design_ref='6 (C02), 3.6', engine='tlc-table'),
})

TABLE_NOTE = ('Trusted: TLC + Json module; the deterministic gateway callers in harness/world.py; for C19 the stdlib gzip/zlib and '
              'the JavaScript string-literal evaluator harness/jslit.py. The abstraction of a concrete request into its table cell is '
              'done by the harness (by construction of the request).')
CHECKS.update({
    'C11': dict(category='model_checking', text='TLC checks the OPEN-handshake facts of EioHttp over every cell (upgrades offered only if an upgrade would be accepted); open requests are then issued to fresh real servers for single-factor sweeps of ping_interval (fractional, with grace), ping_timeout, max_http_buffer_size, allow_upgrades, transports, websocket availability, 5 cookie forms (name, dict with string / boolean / callable attributes), 9 connect-handler outcomes (None, True, False, 0, empty, text, dict, list, exception), polling and websocket opens, JSONP, handler sending during connect, the complete product of the upgrade-relevant factors and a random sample of the full product; each reply is reduced to a record (OPEN first, sid = handler sid, exact milliseconds, maxPayload, upgrades list, exact cookie header, exactly one session, 401 body, id addressable afterwards or not) and TLC validates every record against EioHttp.', note=TABLE_NOTE, technique='TLA+ spec EioHttp (OpenReply / UpgradesOffered): TLC over all cells + TLC validation of real open replies', design_ref='6 (C11), 3.4', engine='tlc-table'),
    'C12': dict(category='model_checking', text='TLC checks the admission facts (refused => no effect and 400/405, method gate, opens need version 4, dead ids refused) over all 10 080 cells of EioHttp!Admit (method x EIO x transport x sid kind x upgrade headers x JSONP index x configured transports); each cell (thorough: all reachable ones; quick: all (method, sid kind, headers, configuration) combinations with single-factor sweeps of the rest plus a 600-cell sample) is issued to a fresh real server driven to the named session kind (live polling, live upgraded, mid-upgrade, closed-not-reaped, unknown, rejected), the effect is classified from the difference of the complete projected state before/after, and TLC validates status and effect of every record against the table.', note=TABLE_NOTE, technique='TLA+ spec EioHttp (Admit): TLC over all cells + TLC validation of the real servers\' decision per cell', design_ref='6 (C12), 3.4', engine='tlc-table'),
    'C13': dict(category='model_checking', text='TLC checks the origin-gate facts (never over-grant, empty list disables everything, requests without Origin unaffected, default = own host incl. forwarded) over every cell of EioHttp!OriginGate; ~4 200 real requests (7 cors_allowed_origins forms x credentials x ~27 Origin values incl. 12 near-misses of the allowed origin, forwarded-header combinations x open / poll / post / OPTIONS / upgrade / websocket-open x 2 servers) are reduced to (blocked, any state change, ACAO present and equal to the Origin, ACAC) and validated by TLC against the table; blocked requests must leave the complete projected state unchanged.', note=TABLE_NOTE, technique='TLA+ spec EioHttp (OriginGate): TLC over all cells + TLC validation of real responses', design_ref='6 (C13), 3.4', engine='tlc-table'),
    'C19': dict(category='model_checking', text='TLC checks that Compress declares an encoding only if offered, enabled and at threshold; real servers then answer sequences of requests on one instance (polls carrying 19 payload classes incl. quotes, backslashes, line terminators, U+2028/9, control, non-BMP, binary; POST acks; 400s; JSONP polls) under 17 Accept-Encoding shapes, compression on/off and thresholds just below / at / above the body size; the harness undoes the declared encoding with stdlib gzip/zlib, evaluates the JSONP literal by JavaScript rules, and TLC validates declared encoding, losslessness and one-statement JSONP per record.', note=TABLE_NOTE, technique='TLA+ spec EioHttp (Compress, JSONP): TLC over cells + TLC validation of real responses', design_ref='6 (C19), 3.4', engine='tlc-table'),
})

CHECKS.update({
    'C20': dict(category='model_checking', text='TLC checks the route-table facts of EioRoute (a path escaping the mapped directory is never served; the engine is reached iff the path lies under the endpoint) over all cells; the real WSGIApp and ASGIApp are then exercised against a temporary directory tree with unique file contents and a secret outside every root: all request paths of <= 3 (quick) / 4 (thorough) segments over a 14-segment alphabet (endpoint, prefix-sharing name, mapped keys, files, ".", "..", empty, %2e%2e, sub-directory, missing) plus absolute-path and deep-traversal spellings of the secret, x 8 static mappings (directory with/without slash, file, root, default-file override, explicit content types, none) x endpoint spellings x wrapped app present/absent; each response is abstracted by a reference resolver (under endpoint / matches / exists / dot segments / escapes) and TLC validates outcome, file-beneath-root, content and content type against the table; ASGI lifespan: all event sequences of length <= 3 x 4 x 4 callback kinds x wrapped app, validated against LifeSends.', note=TABLE_NOTE, technique='TLA+ spec EioRoute: TLC over all cells + TLC validation of real WSGIApp / ASGIApp responses on a real directory tree', design_ref='6 (C20), 3.5', engine='tlc-table'),
})

CHECKS.update({
    'C14': dict(category='model_checking', text='TLC checks on EioServerProps that refused bodies (oversize, undecodable, too many packets) produce no event and that an oversize POST ends the session, on polling, websocket and mid-upgrade models; the real servers are driven with size probes whose wire form is exactly limit-2 .. limit+2 (and 10x) bytes / characters, text and binary, as POST bodies, steady-state frames, first frames and probe-stage frames, for limits 30 .. 10^6 and the tiny limits 1..3, with declared length smaller / larger than the body and declared above the limit, packet counts 0..18 per body plain and form-encoded; every trace is validated by TLC against EioServer (an oversize input must take the OVERSIZE branch, an input of exactly the limit the ordinary one), and the recorded sizes asked of the WSGI body stream must never exceed the limit.', note=CORE_NOTE, technique='TLA+ spec EioServer (OVERSIZE / refused-body branches): TLC exhaustive + TLC trace validation of real executions with exact size probes', design_ref='6 (C14)', engine='tlc-trace'),
})

CLIENT_NOTE = ('Trusted: TLC + Json module; the fake requests / websocket-client modules and the fake aiohttp session + websocket '
               '(harness/cworld.py: the real requests and websocket-client packages are not installed in this sandbox, so the threaded '
               'Client can only run against fakes), greenlet hub / virtual asyncio loop. Environment assumption: one connect() at a time, '
               'a new connect() only after the previous connection\'s tasks ended.')
CHECKS.update({
    'C08': dict(category='model_checking', text='TLC checks on EioClient (MC_EioClient) that every connect event is matched by exactly one disconnect event, state / sid / registry are clean after the end, a connected client is consistent, no task can stay blocked without a deadline or a waker (wait() returns), for polling (every server behaviour at every step, timed), upgrade, websocket-only and two-cycle models, with the repaired defect F17 as negative control; the real Client and AsyncClient are driven by scripted servers: every first answer to connect() (22 HTTP answers x 12 websocket continuations x 3 transport modes) followed by a second cycle, random lifecycles with refusals, bad statuses, garbage, dropped connections, failed POSTs, failed upgrades, repeated cycles, disconnect() from inside the connect and message handlers, silence from every point; each execution is recorded (state, sid, transport, registry, queue, events, every request with its timeout) and validated by TLC against EioClient with the invariants evaluated in every state; every application call must have returned by the end.', note=CLIENT_NOTE, technique='TLA+ spec EioClient: TLC exhaustive + TLC batch trace validation of real Client / AsyncClient executions against a scripted server', design_ref='6 (C08), 3.2', engine='tlc-trace'),
    'C09': dict(category='model_checking', text='TLC checks on EioClient that received messages are handled exactly once in arrival order, application messages are transmitted at most once and in order, and the transport becomes websocket only through the probe handshake, on polling, upgrade and websocket models; scripted-server conversations (PINGs with arbitrary data, bursts of 1..40 messages, NOOPs, unknown packet types, probe answered correctly / wrongly / never / socket closed, sends of every payload kind in bursts of 1..40, five URL forms with scheme / port / path / query variations, silence from every point) run on both real clients; the trace records every transmitted packet by token (binary as binary frame on websocket, base64 in POST bodies - checked when the harness interns it), URL facts per request, request timeouts and the virtual time of every timeout, and TLC validates each trace against EioClient (PONG echo, batching, probe sequence, silence deadlines pi+pt / max(pi,pt)+5 s).', note=CLIENT_NOTE, technique='TLA+ spec EioClient: TLC exhaustive + TLC batch trace validation of real client conversations', design_ref='6 (C09), 3.2', engine='tlc-trace'),
})

CHECKS.update({
    'C10': dict(category='model_checking', text='The end-to-end contract EioE2E (two FIFO channels of numbered messages, a connection bit per side, one disconnect per side) is model-checked by TLC for its own invariants; real conversations are then run between a real client and a real server of this package in one deterministic world - all four implementation pairs (threaded pieces on the greenlet hub, asyncio pieces on the virtual loop, one virtual clock), transports [polling], [websocket], [polling, websocket], several heartbeat settings, monitor on/off, background handlers - with bursts of 1..40 sends in either direction (queued back to back and spaced), idle periods of up to 25 heartbeat cycles, disconnect by either side, sends after the end; the ordered application-level events of both sides plus connection bits and transports at every quiescent point are validated by TLC against EioE2E: every delivery is the next message in order and was sent, at quiescence with both sides up everything sent has arrived and both name the same transport, nobody ends an idle connection, and a disconnect by either side is observed exactly once by both.', note='Trusted: TLC + Json module; the in-memory network (harness/e2e.py) hands requests and frames over immediately and in order; the fake client transports (requests / websocket-client / aiohttp look-alikes) and the deterministic schedulers. The two sides are additionally bound to EioClient / EioServer by C03-C09.', technique='TLA+ contract spec EioE2E: TLC exhaustive + TLC trace validation of real client<->server conversations (4 implementation pairs)', design_ref='6 (C10), 3.3', engine='tlc-trace'),
})

NOT_YET = 'check not built yet at this commit (construction order in DESIGN.md section 8)'


def build():
    checks = []
    for pid in ALL:
        if pid not in CHECKS:
            continue
        c = CHECKS[pid]
        checks.append({
            'property_id': pid,
            'quick_cmd': 'bin/check %s --tier quick' % pid,
            'thorough_cmd': 'bin/check %s --tier thorough' % pid,
            'evidence_file': '/verif/evidence/%s.json' % pid,
            'replay_cmd_template': 'bin/check %s --replay {path}' % pid,
            'engine': c['engine'],
            'level_claimed': {'category': c['category'], 'text': c['text'],
                              'design_ref': 'DESIGN.md section ' + c['design_ref']},
            'level_note': c['note'],
            'technique': c['technique'],
        })
    man = {
        'version': 1,
        'setup_cmd': 'bin/setup',
        'hooks': {
            'guard': 'ENGINEIO_VERIF',
            'enable': ('no source hooks are needed: the harness substitutes the async-driver '
                       'primitives, module-level time/threading/queue names and the gateway '
                       'callables from outside; ENGINEIO_VERIF is reserved'),
            'baseline_off_cmd': BASELINE,
            'source_commits': [],
            'add_only': True,
        },
        'engines': [
            {'name': 'tlc-table', 'path': 'vk/props',
             'serves_properties': [p for p in ALL if p in CHECKS and CHECKS[p]['engine'] == 'tlc-table'],
             'kind_free_text': ('TLA+ decision-table / small state-machine specs checked exhaustively '
                                'by TLC; every cell replayed against the real code and every real '
                                'observation validated by TLC against the spec')},
            {'name': 'tlc-trace', 'path': 'vk/harness',
             'serves_properties': [p for p in ALL if p in CHECKS and CHECKS[p]['engine'] == 'tlc-trace'],
             'kind_free_text': ('TLA+ state-machine specs of server / client / system; TLC exhaustive + '
                                'simulation; real code driven under a deterministic scheduler and virtual '
                                'clock, recorded traces validated by TLC (batch trace validation)')},
        ],
        'checks': checks,
        'notes': ('All checks run /repo\'s current working tree through /venv/bin/python with '
                  'PYTHONPATH=/repo/src; no build step. Exit 2 = machinery failure.'),
        'not_applicable': [{'property_id': p, 'reason': NOT_YET} for p in ALL if p not in CHECKS],
    }
    with open(os.path.join(VERIF, 'MANIFEST.json'), 'w') as f:
        json.dump(man, f, indent=1)
        f.write('\n')
    return man


if __name__ == '__main__':
    m = build()
    print('MANIFEST.json: %d checks, %d not applicable' % (len(m['checks']), len(m['not_applicable'])))
