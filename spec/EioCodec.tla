------------------------------ MODULE EioCodec ------------------------------
(***************************************************************************)
(* Engine.IO v4 packet and payload codec (packet.py, payload.py, json.py)  *)
(* as rule tables plus the encode-cache state machine of a Packet object.  *)
(*                                                                         *)
(* Abstraction: a packet is (type, payload kind); payload kinds:           *)
(*   "none" | "text" | "json" (dict or list) | "bytes" (bytes, bytearray)  *)
(* a channel is "bin" (binary capable: WebSocket) or "txt" (polling body). *)
(* Wire forms: "T" = type digit followed by text / compact JSON,           *)
(*             "RAW" = the bytes themselves, "B64" = 'b' + base64.         *)
(* Byte-level equality with these forms is decided by the harness's        *)
(* reference encoder / decoder (stdlib json, base64); WHICH form is due,   *)
(* what decoding yields for each input class, and the cache discipline are *)
(* decided here.                                                           *)
(***************************************************************************)
EXTENDS Naturals, Sequences, FiniteSets

CONSTANTS Deviations, MaxPackets

Types == 0..6
MESSAGE == 4
Kinds == {"none", "text", "json", "bytes"}
Channels == {"bin", "txt"}

(* ---- construction and encoding --------------------------------------- *)
CtorOK(t, k) == k = "bytes" => t = MESSAGE
WireForm(k, c) == IF k = "bytes" THEN (IF c = "txt" THEN "B64" ELSE "RAW") ELSE "T"

(* ---- the Packet object: encode() any number of times ------------------ *)
VARIABLES ptype, pkind, cache, result, ncalls
pvars == <<ptype, pkind, cache, result, ncalls>>

PInit ==
    /\ ptype \in Types /\ pkind \in Kinds /\ CtorOK(ptype, pkind)
    /\ cache = "none" /\ result = "none" /\ ncalls = 0

Encode(c) ==
    /\ LET fresh == WireForm(pkind, c)
           r == IF cache # "none" /\ (pkind # "bytes" \/ "CacheIgnoresChannel" \in Deviations)
                THEN cache ELSE fresh
       IN /\ result' = r
          /\ cache' = r
    /\ ncalls' = ncalls + 1
    /\ UNCHANGED <<ptype, pkind>>

PNext == \E c \in Channels : Encode(c)
PSpec == PInit /\ [][PNext]_pvars

\* C01: every encode call returns the representation of the channel asked for
EncodeRight == [][\A c \in Channels : Encode(c) => result' = WireForm(pkind, c)]_pvars
BinaryOnlyMessage == pkind = "bytes" => ptype = MESSAGE
CallBound == ncalls <= 4

(* ---- decoding: input classes -> outcome ------------------------------- *)
\* first: class of the first character (or of the whole input)
\*   "BYTES"  the input is bytes / bytearray        "EMPTY"  empty text
\*   "b"      the letter b                          "d0".."d9" decimal digit of that value
\*                                                  (ASCII or any other Unicode decimal digit)
\*   "other"  anything else
\* rest: class of the text after the first character
\*   "empty" | "obj" | "arr" | "str" | "float" | "null"   JSON literal of that kind
\*   "int" | "bool" | "bigint" (more than 100 digits) | "plain" (not JSON)
\*   for first = "b":  "b64ok" (valid base64) | "b64lenient" (decodes after discarding
\*   invalid characters) | "b64bad" (incorrect padding: error)
FirstClasses == {"BYTES", "EMPTY", "b", "other"} \cup {"d0", "d1", "d2", "d3", "d4", "d5", "d6",
                                                     "d7", "d8", "d9"}
JsonRest == {"obj", "arr", "str", "float", "null"}
TextRest == {"empty", "int", "bool", "bigint", "plain"}
\* "deep": JSON nested beyond the interpreter's recursion limit: decoding fails with an error
B64Rest == {"b64ok", "b64lenient", "b64bad"}
Digit(f) == CASE f = "d0" -> 0 [] f = "d1" -> 1 [] f = "d2" -> 2 [] f = "d3" -> 3 [] f = "d4" -> 4
              [] f = "d5" -> 5 [] f = "d6" -> 6 [] f = "d7" -> 7 [] f = "d8" -> 8 [] f = "d9" -> 9

\* outcome: [err, type, kind] with kind in {"text", "json", "bytes"}; "json" = the JSON value
Decode(first, rest) ==
    CASE first = "BYTES" -> [err |-> FALSE, type |-> MESSAGE, kind |-> "bytes"]
      [] first = "EMPTY" -> [err |-> TRUE, type |-> 0, kind |-> "none"]
      [] first = "other" -> [err |-> TRUE, type |-> 0, kind |-> "none"]
      [] first = "b"     -> IF rest = "b64bad" THEN [err |-> TRUE, type |-> 0, kind |-> "none"]
                            ELSE [err |-> FALSE, type |-> MESSAGE, kind |-> "bytes"]
      [] OTHER           -> IF rest = "deep" THEN [err |-> TRUE, type |-> 0, kind |-> "none"]
                            ELSE [err |-> FALSE, type |-> Digit(first),
                                  kind |-> IF rest \in JsonRest THEN "json" ELSE "text"]

DecodeCells == {<<"BYTES", "na">>, <<"EMPTY", "na">>, <<"other", "na">>}
               \cup {<<"b", r>> : r \in B64Rest}
               \cup {<<f, r>> : f \in FirstClasses \ {"BYTES", "EMPTY", "b", "other"},
                                r \in JsonRest \cup TextRest}

\* table-level facts of C01
BinaryDecodesToMessage ==
    \A c \in DecodeCells : LET o == Decode(c[1], c[2])
                           IN (~o.err /\ o.kind = "bytes") => o.type = MESSAGE
IntAndPlainStayText ==
    \A c \in DecodeCells : c[2] \in TextRest => (Decode(c[1], c[2]).err \/ Decode(c[1], c[2]).kind = "text")
\* round trip at class level: what encode emits for (t, k, channel) decodes back to (t, k')
\* with k' = k except none -> text ("absent payload comes back as empty text")
EncClass(t, k, c) ==
    IF k = "bytes" THEN (IF c = "txt" THEN <<"b", "b64ok">> ELSE <<"BYTES", "na">>)
    ELSE <<CASE t = 0 -> "d0" [] t = 1 -> "d1" [] t = 2 -> "d2" [] t = 3 -> "d3" [] t = 4 -> "d4"
             [] t = 5 -> "d5" [] t = 6 -> "d6",
           CASE k = "none" -> "empty" [] k = "json" -> "obj" [] k = "text" -> "plain">>
RoundTrip ==
    \A t \in Types, k \in Kinds, c \in Channels :
        CtorOK(t, k) =>
            LET e == EncClass(t, k, c)
                o == Decode(e[1], e[2])
            IN /\ ~o.err /\ o.type = t
               /\ o.kind = (IF k = "none" THEN "text" ELSE k)

(* ---- payloads ---------------------------------------------------------- *)
\* a body is split on the separator into pieces; each piece is "ok" or "bad" (its decoding
\* raises).  An empty body has no pieces.
PayloadOutcome(pieces) ==
    IF Len(pieces) > MaxPackets THEN [err |-> TRUE, n |-> 0]
    ELSE IF \E i \in 1..Len(pieces) : pieces[i] = "bad" THEN [err |-> TRUE, n |-> 0]
    ELSE [err |-> FALSE, n |-> Len(pieces)]

=============================================================================
