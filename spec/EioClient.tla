------------------------------ MODULE EioClient ------------------------------
(***************************************************************************)
(* The Engine.IO client (client.py / async_client.py / base_client.py) at  *)
(* the block-to-block grain: the task calling connect(), the read loop,    *)
(* the write loop, one task per message handler.  The peer is scripted:    *)
(* every HTTP request and websocket operation of the client is an output,  *)
(* every reply, frame or failure is an environment action.                 *)
(*                                                                         *)
(* Times are in ticks.  RT = request_timeout; pi / pt = the heartbeat      *)
(* timing announced by the server; Grace = the fixed 5 s of the polling    *)
(* timeouts.                                                               *)
(***************************************************************************)
EXTENDS Naturals, Integers, Sequences, FiniteSets, TLC

CONSTANTS RT, Grace,
          ImplWsProbeTimeout,   \* BOOLEAN: the probe / OPEN reads of connect() time out after RT
                                \* (both clients; FALSE = AsyncClient before its repair)
          ImplWsSetTimeout,     \* BOOLEAN: the client sets a socket timeout on the websocket
                                \* (websocket-client) instead of timing each read (aiohttp)
          ConnectDisconnects,   \* BOOLEAN: the connect handler calls disconnect()
          MsgDisconnects,       \* BOOLEAN: the message handler calls disconnect() on message M2
          Deviations, Horizon

NIL == "NIL"
None == -1
IsMsg(p) == Len(p) >= 2 /\ SubSeq(p, 1, 1) = "M"
IsPing(p) == Len(p) >= 4 /\ SubSeq(p, 1, 4) = "PING"
PongFor(p) == "PONG" \o SubSeq(p, 5, Len(p))           \* PING:<d>  ->  PONG:<d>
IsBin(p) == FALSE

Max(a, b) == IF a > b THEN a ELSE b

VARIABLES now,
    c,      \* client object + history: st, sid, tr, ups, pi, pt, q, reg, wlt, rlt, ev, out, hq
    call,   \* connect() in progress
    rd,     \* read loop task
    wr,     \* write loop task
    ws,     \* websocket connection as the client sees it
    dj,     \* application disconnect() calls blocked joining the read loop
    wj,     \* application wait() calls blocked on the read loop
    hj,     \* message-handler tasks blocked in disconnect() joining the read loop
    nid     \* request / connection id counter

vars == <<now, c, call, rd, wr, ws, dj, wj, hj, nid>>

NoCall == [stage |-> "none", id |-> 0, dl |-> None, trs |-> "none", upg |-> FALSE]
NoTask == [st |-> "none", id |-> 0, dl |-> None]
NoWs == [st |-> "none", inq |-> <<>>, to |-> None, id |-> 0]

InitC == [st |-> "disconnected", sid |-> 0, tr |-> "none", ups |-> FALSE, pi |-> 0, pt |-> 0,
          q |-> <<>>, reg |-> FALSE, wlt |-> "none", rlt |-> FALSE, ev |-> <<>>, out |-> <<>>,
          hq |-> <<>>, tx |-> <<>>, rx |-> <<>>, nconn |-> 0, dev |-> {}]

Init == /\ now = 0 /\ c = InitC /\ call = NoCall /\ rd = NoTask /\ wr = NoTask /\ ws = NoWs
        /\ dj = 0 /\ wj = 0 /\ hj = 0 /\ nid = 0

Out(cc, o) == [cc EXCEPT !.out = Append(@, o)]
Event(cc, e) == Out([cc EXCEPT !.ev = Append(@, e)], [k |-> "ev", e |-> e])
Ret(cc, name, exc) == Out(cc, [k |-> "ret", c |-> name, exc |-> exc])
EnvStart(cc) == [cc EXCEPT !.out = <<>>]

Reset(cc) == [cc EXCEPT !.st = "disconnected", !.sid = 0]

SendPacket(cc, p) == IF cc.st = "connected" THEN [cc EXCEPT !.q = Append(@, p)] ELSE cc

\* closing the websocket from the client side (only when it is open)
WsCloseOut(cc, w) == IF w.st = "open" THEN Out(cc, [k |-> "wsclosed"]) ELSE cc
WsClosed(w) == IF w.st = "open" THEN [w EXCEPT !.st = "cclosed"] ELSE w

\* client.disconnect(abort=True, reason): returns the new c (websocket closing handled by caller)
DisconnectAbort(cc, reason) ==
    IF cc.st = "connected"
    THEN LET c1 == [SendPacket(cc, "CLOSE") EXCEPT !.q = Append(@, NIL), !.st = "disconnecting"]
             c2 == Event(c1, "disc:" \o reason)
             c3 == IF c2.tr = "websocket" THEN WsCloseOut(c2, ws) ELSE c2
         IN Reset([c3 EXCEPT !.st = "disconnected", !.reg = FALSE])
    ELSE Reset(cc)

\* disconnect() up to the point where it would wait for the read loop
DiscStart(cc, w) ==
    LET c1 == [SendPacket(cc, "CLOSE") EXCEPT !.q = Append(@, NIL), !.st = "disconnecting"]
        c2 == Event(c1, "disc:client")
    IN IF c2.tr = "websocket" THEN WsCloseOut(c2, w) ELSE c2
DiscFinish(cc) == Reset([cc EXCEPT !.st = "disconnected", !.reg = FALSE])
\* disconnect() called from the connect handler (no read loop yet: nothing to wait for)
HandlerDisconnect(cc, w) ==
    IF cc.st = "connected" THEN DiscFinish(DiscStart(cc, w)) ELSE Reset(cc)

ClosesWs(cc, reason) == cc.st = "connected" /\ cc.tr = "websocket"

\* _receive_packet
Receive(cc, p) ==
    CASE IsMsg(p)    -> [cc EXCEPT !.hq = Append(@, p), !.rx = Append(@, p),
                                   !.dev = IF cc.st # "connected" THEN @ \cup {"LateReceive"} ELSE @]
      [] IsPing(p)   -> SendPacket(cc, PongFor(p))
      [] p = "CLOSE" -> DisconnectAbort(cc, "server")
      [] OTHER       -> cc           \* NOOP and unknown types are ignored

RECURSIVE ReceiveAll(_, _)
ReceiveAll(cc, pk) == IF pk = <<>> THEN cc ELSE ReceiveAll(Receive(cc, Head(pk)), Tail(pk))
\* the polling read loop hands a packet over only while the client is still connected (a
\* disconnect() while the GET was in flight, or a CLOSE earlier in the payload, ends it);
\* deviation "ReadLoopIgnoresState" is the behaviour before the repair of F24
RECURSIVE ReceivePolled(_, _)
ReceivePolled(cc, pk) ==
    IF pk = <<>> THEN cc
    ELSE IF cc.st # "connected" /\ "ReadLoopIgnoresState" \notin Deviations THEN cc
    ELSE ReceivePolled(Receive(cc, Head(pk)), Tail(pk))

\* does processing pk close the websocket from the client side?
RECURSIVE AnyClose(_, _)
AnyClose(cc, pk) ==
    IF pk = <<>> THEN FALSE
    ELSE (Head(pk) = "CLOSE" /\ ClosesWs(cc, "server")) \/ AnyClose(Receive(cc, Head(pk)), Tail(pk))

-----------------------------------------------------------------------------
(* connect() *)

Req(cc, id, m, body, to) == Out(cc, [k |-> "req", id |-> id, m |-> m, body |-> body, urlok |-> TRUE,
                                      to |-> to])
WsConn(cc, id, to) == Out(cc, [k |-> "wsconn", id |-> id, urlok |-> TRUE, to |-> to])

Connect(trs) ==
    /\ call.stage = "none"
    /\ LET c0 == EnvStart(c)
       IN IF c0.st # "disconnected" THEN
              /\ c' = Ret(c0, "connect", "ValueError")
              /\ UNCHANGED <<call, ws, nid>>
          ELSE IF trs \in {"poll", "both"} THEN
              /\ c' = Req([c0 EXCEPT !.q = <<>>], nid + 1, "GET", <<>>, RT)
              /\ call' = [stage |-> "get", id |-> nid + 1, dl |-> now + RT, trs |-> trs,
                          upg |-> FALSE]
              /\ nid' = nid + 1
              /\ UNCHANGED ws
          ELSE
              /\ c' = WsConn([c0 EXCEPT !.q = <<>>, !.nconn = @ + 1], c0.nconn + 1, RT)
              /\ call' = [stage |-> "wsconn", id |-> 0, dl |-> now + RT, trs |-> trs, upg |-> FALSE]
              /\ ws' = [st |-> "connecting", inq |-> <<>>, to |-> None, id |-> c0.nconn + 1]
              /\ UNCHANGED nid
    /\ UNCHANGED <<now, rd, wr, dj, wj, hj>>

\* OPEN tokens: "OPEN1" (websocket upgrade offered) / "OPEN0"; the announced timing travels
\* beside the token
IsOpen(p) == p \in {"OPEN0", "OPEN1"}
OpenUps(p) == p = "OPEN1"
Fr(f) == [f |-> f, pi |-> 0, pt |-> 0]
DROP == Fr("DROP")

StartLoops(cc, reader) == [cc EXCEPT !.wlt = "set", !.rlt = TRUE]

\* adoption of the OPEN fields; pi / pt arrive as arguments (parsed by the trace binding)
ConnectReply(id, status, pk, raw, pi, pt) ==
    /\ call.stage = "get" /\ call.id = id
    /\ LET c0 == EnvStart(c)
       IN IF status < 200 \/ status >= 300 \/ raw \in {"garbage", "notutf8", "toomany", "json"}
             \/ Len(pk) > 16      \* more packets than a payload may carry: refused as a whole
             \/ (raw = "none" /\ pk # <<>> /\ ~IsOpen(pk[1]) /\ pk[1] # "OPENbad") THEN
              \* refused / not an Engine.IO answer: ConnectionError, client stays disconnected
              /\ c' = Ret(Reset(c0), "connect", "ConnectionError")
              /\ call' = NoCall
              /\ UNCHANGED <<rd, wr, ws>>
          ELSE IF raw = "empty" \/ pk = <<>> \/ pk[1] = "OPENbad" THEN
              \* empty payload or malformed OPEN data: a ConnectionError is due
              IF "ConnectRaisesOtherError" \in Deviations
              THEN /\ c' = Ret([c0 EXCEPT !.dev = @ \cup {"ConnectRaisesOtherError"}], "connect",
                               "OtherError")
                   /\ call' = NoCall
                   /\ UNCHANGED <<rd, wr, ws>>
              ELSE /\ c' = Ret(Reset(c0), "connect", "ConnectionError")
                   /\ call' = NoCall
                   /\ UNCHANGED <<rd, wr, ws>>
          ELSE
              LET ups == OpenUps(pk[1])
                  c1 == [c0 EXCEPT !.sid = 1, !.ups = ups, !.pi = pi, !.pt = pt, !.tr = "polling",
                                   !.st = "connected", !.reg = TRUE]
                  c2a == Event(c1, "connect")
                  c2 == IF ConnectDisconnects THEN HandlerDisconnect(c2a, ws) ELSE c2a
                  c3 == ReceivePolled(c2, Tail(pk))
              IN IF ups /\ call.trs = "both" /\ ("ReconnectAfterClose" \in Deviations \/ c3.st = "connected")
                 THEN /\ c' = WsConn([c3 EXCEPT !.nconn = @ + 1], c3.nconn + 1, RT)
                      /\ call' = [call EXCEPT !.stage = "wsconn", !.dl = now + RT, !.upg = TRUE]
                      /\ ws' = [st |-> "connecting", inq |-> <<>>, to |-> None, id |-> c3.nconn + 1]
                      /\ UNCHANGED <<rd, wr>>
                 ELSE /\ c' = Ret(StartLoops(c3, "poll"), "connect", "none")
                      /\ call' = NoCall
                      /\ rd' = [st |-> "new", id |-> 0, dl |-> None]
                      /\ wr' = [st |-> "new", id |-> 0, dl |-> None]
                      /\ UNCHANGED ws
    /\ UNCHANGED <<now, dj, wj, hj, nid>>

\* the initial GET fails at connection level or times out
ConnectFail(id) ==
    /\ call.stage = "get" /\ call.id = id
    /\ c' = Ret(Reset(EnvStart(c)), "connect", "ConnectionError")
    /\ call' = NoCall
    /\ UNCHANGED <<now, rd, wr, ws, dj, wj, hj, nid>>

\* websocket connection attempt answered
WsAccept(ok) ==
    /\ call.stage = "wsconn" /\ ws.st = "connecting"
    /\ LET c0 == EnvStart(c)
       IN IF ~ok THEN
              IF call.upg THEN      \* upgrade failed: stay on polling
                  /\ c' = Ret(StartLoops(c0, "poll"), "connect", "none")
                  /\ call' = NoCall
                  /\ ws' = [ws EXCEPT !.st = "refused"]
                  /\ rd' = [st |-> "new", id |-> 0, dl |-> None]
                  /\ wr' = [st |-> "new", id |-> 0, dl |-> None]
              ELSE
                  /\ c' = Ret(c0, "connect", "ConnectionError")
                  /\ call' = NoCall
                  /\ ws' = [ws EXCEPT !.st = "refused"]
                  /\ UNCHANGED <<rd, wr>>
          ELSE IF call.upg THEN
              /\ c' = Out(c0, [k |-> "wstx", f |-> "PINGprobe"])
              /\ call' = [call EXCEPT !.stage = "wsprobe",
                                      !.dl = IF ImplWsProbeTimeout THEN now + RT ELSE None]
              /\ ws' = [ws EXCEPT !.st = "open"]
              /\ UNCHANGED <<rd, wr>>
          ELSE
              /\ c' = c0
              /\ call' = [call EXCEPT !.stage = "wsopen",
                                      !.dl = IF ImplWsProbeTimeout THEN now + RT ELSE None]
              /\ ws' = [ws EXCEPT !.st = "open"]
              /\ UNCHANGED <<rd, wr>>
    /\ UNCHANGED <<now, dj, wj, hj, nid>>

WsSetTimeout(cc) == IF ImplWsSetTimeout
                    THEN Out(cc, [k |-> "wssettimeout", to |-> cc.pi + cc.pt]) ELSE cc

\* a frame (or the closing of the socket: f = "DROP") during connect()'s own reads
StartPollLoops(cc) == Ret(StartLoops(cc, "poll"), "connect", "none")
ConnectFrame ==
    /\ call.stage \in {"wsprobe", "wsopen"}
    /\ ws.inq # <<>>
    /\ LET fr == Head(ws.inq)
           f == fr.f
       IN /\ ws' = LET w1 == [ws EXCEPT !.inq = IF f = "DROP" THEN @ ELSE Tail(@)]
                   \* a connect handler that disconnects closes the fresh websocket
                   IN IF call.stage # "wsprobe" /\ IsOpen(f) /\ ConnectDisconnects
                      THEN WsClosed(w1) ELSE w1
          /\ call' = NoCall
          /\ IF call.stage = "wsprobe" THEN
                 IF f = "PONGprobe" THEN
                     /\ c' = Ret(StartLoops(WsSetTimeout(Out([c EXCEPT !.tr = "websocket"],
                                                             [k |-> "wstx", f |-> "UPGRADE"])), "ws"),
                                 "connect", "none")
                     /\ rd' = [st |-> "new", id |-> 1, dl |-> None]
                     /\ wr' = [st |-> "new", id |-> 0, dl |-> None]
                 ELSE IF f \in {"GARBAGE", "EMPTY"} /\ "ConnectRaisesOtherError" \in Deviations THEN
                     /\ c' = Ret([c EXCEPT !.dev = @ \cup {"ConnectRaisesOtherError"}],
                                 "connect", "OtherError")
                     /\ UNCHANGED <<rd, wr>>
                 ELSE
                     \* anything else (incl. the socket closing, an undecodable answer): the
                     \* upgrade fails, the client stays on polling with its queue intact
                     /\ c' = StartPollLoops(c)
                     /\ rd' = [st |-> "new", id |-> 0, dl |-> None]
                     /\ wr' = [st |-> "new", id |-> 0, dl |-> None]
             ELSE \* fresh websocket: expecting OPEN
                 IF IsOpen(f) THEN
                     LET c1 == [c EXCEPT !.sid = 1, !.ups = OpenUps(f), !.pi = fr.pi, !.pt = fr.pt,
                                         !.tr = "websocket", !.st = "connected", !.reg = TRUE]
                         c2a == Event(c1, "connect")
                         c2 == IF ConnectDisconnects THEN HandlerDisconnect(c2a, ws) ELSE c2a
                     IN /\ c' = Ret(StartLoops(WsSetTimeout(c2), "ws"),
                                    "connect", "none")
                        /\ rd' = [st |-> "new", id |-> 1, dl |-> None]
                        /\ wr' = [st |-> "new", id |-> 0, dl |-> None]
                 ELSE
                     /\ c' = Ret(c, "connect",
                                 IF f \in {"OPENbad", "GARBAGE", "EMPTY", "DROP"}
                                    /\ "ConnectRaisesOtherError" \in Deviations
                                 THEN "OtherError" ELSE "ConnectionError")
                     /\ UNCHANGED <<rd, wr>>
    /\ UNCHANGED <<now, dj, wj, hj, nid>>

\* connect()'s probe / open read times out (websocket-client only)
ConnectProbeTimeout ==
    /\ call.stage \in {"wsprobe", "wsopen"}
    /\ call.dl # None /\ call.dl <= now /\ ws.inq = <<>>
    /\ IF call.stage = "wsprobe"
       THEN /\ c' = Ret(StartLoops(c, "poll"), "connect", "none")
            /\ rd' = [st |-> "new", id |-> 0, dl |-> None]
            /\ wr' = [st |-> "new", id |-> 0, dl |-> None]
       ELSE /\ c' = Ret(c, "connect", "ConnectionError")
            /\ UNCHANGED <<rd, wr>>
    /\ call' = NoCall
    /\ UNCHANGED <<now, ws, dj, wj, hj, nid>>

\* the websocket connection attempt itself times out
WsConnTimeout ==
    /\ call.stage = "wsconn" /\ call.dl <= now /\ ws.st = "connecting"
    /\ LET c0 == Out(c, [k |-> "wsconnto", id |-> ws.id])
       IN IF call.upg
          THEN /\ c' = Ret(StartLoops(c0, "poll"), "connect", "none")
               /\ rd' = [st |-> "new", id |-> 0, dl |-> None]
               /\ wr' = [st |-> "new", id |-> 0, dl |-> None]
          ELSE /\ c' = Ret(c0, "connect", "ConnectionError")
               /\ UNCHANGED <<rd, wr>>
    /\ call' = NoCall
    /\ ws' = [ws EXCEPT !.st = "refused"]
    /\ UNCHANGED <<now, dj, wj, hj, nid>>

ConnectGetTimeout ==
    /\ call.stage = "get" /\ call.dl <= now
    /\ c' = Ret(Reset(Out(c, [k |-> "reqto", id |-> call.id])), "connect", "ConnectionError")
    /\ call' = NoCall
    /\ UNCHANGED <<now, rd, wr, ws, dj, wj, hj, nid>>

-----------------------------------------------------------------------------
(* read loops *)

PollTimeoutTicks == Max(c.pi, c.pt) + Grace

\* epilogue of either read loop: wait for the write loop, then declare the connection lost
\* if nobody else did
ReaderEpilogue(cc) ==
    IF cc.st = "connected"
    THEN Reset([Event(cc, "disc:terror") EXCEPT !.reg = FALSE])
    ELSE cc

ReaderLeaves(cc, putNil) == IF putNil THEN [cc EXCEPT !.q = Append(@, NIL)] ELSE cc

\* after leaving the loop: join the writer if there is one
AfterLoop(cc) ==
    IF cc.wlt = "set" /\ wr.st \notin {"done", "none"}
    THEN [cn |-> cc, st |-> "joinw"]
    ELSE [cn |-> ReaderEpilogue(cc), st |-> "done"]

ReaderStart ==
    /\ rd.st = "new"
    /\ IF rd.id = 0 THEN     \* polling read loop
           IF c.st = "connected" /\ c.wlt = "set"
           THEN /\ c' = Req(c, nid + 1, "GET", <<>>, PollTimeoutTicks)
                /\ rd' = [st |-> "get", id |-> nid + 1, dl |-> now + PollTimeoutTicks]
                /\ nid' = nid + 1
           ELSE LET a == AfterLoop(c)
                IN /\ c' = a.cn /\ rd' = [rd EXCEPT !.st = a.st] /\ UNCHANGED nid
       ELSE                  \* websocket read loop
           IF c.st = "connected"
           THEN /\ c' = c
                /\ rd' = [st |-> "recv", id |-> 1, dl |-> now + c.pi + c.pt]
                /\ UNCHANGED nid
           ELSE LET a == AfterLoop(c)
                IN /\ c' = a.cn /\ rd' = [rd EXCEPT !.st = a.st] /\ UNCHANGED nid
    /\ UNCHANGED <<now, call, wr, ws, dj, wj, hj>>

\* the polling GET is answered
ReadReply(id, status, pk, raw) ==
    /\ rd.st = "get" /\ rd.id = id
    /\ LET c0 == EnvStart(c)
           bad == status < 200 \/ status >= 300 \/ raw \in {"garbage", "notutf8", "toomany", "json"}
                  \/ Len(pk) > 16
       IN IF bad THEN
              LET a == AfterLoop(ReaderLeaves(c0, TRUE))
              IN /\ c' = a.cn /\ rd' = [rd EXCEPT !.st = a.st, !.dl = None] /\ UNCHANGED <<nid, ws>>
          ELSE
              LET c1 == ReceivePolled(c0, pk)
              IN IF c1.st = "connected" /\ c1.wlt = "set"
                 THEN /\ c' = Req(c1, nid + 1, "GET", <<>>, Max(c1.pi, c1.pt) + Grace)
                      /\ rd' = [st |-> "get", id |-> nid + 1,
                                dl |-> now + Max(c1.pi, c1.pt) + Grace]
                      /\ nid' = nid + 1
                      /\ UNCHANGED ws
                 ELSE LET a == AfterLoop(c1)
                      IN /\ c' = a.cn /\ rd' = [rd EXCEPT !.st = a.st, !.dl = None]
                         /\ UNCHANGED <<nid, ws>>
    /\ UNCHANGED <<now, call, wr, dj, wj, hj>>

ReadFail(id, timeout) ==
    /\ rd.st = "get" /\ rd.id = id
    /\ timeout => rd.dl <= now
    /\ LET c0 == IF timeout THEN Out(c, [k |-> "reqto", id |-> id]) ELSE EnvStart(c)
           a == AfterLoop(ReaderLeaves(c0, TRUE))
       IN /\ c' = a.cn /\ rd' = [rd EXCEPT !.st = a.st, !.dl = None]
    /\ UNCHANGED <<now, call, wr, ws, dj, wj, hj, nid>>

\* websocket read loop: a frame, or the socket closed ("DROP"), or silence
ReadFrame ==
    /\ rd.st = "recv"
    /\ ws.inq # <<>>
    /\ LET f == Head(ws.inq).f
       IN /\ IF f \in {"DROP", "GARBAGE", "EMPTY"} THEN
                 LET a == AfterLoop(ReaderLeaves(c, TRUE))
                 IN /\ c' = a.cn /\ rd' = [rd EXCEPT !.st = a.st, !.dl = None]
                    /\ ws' = [ws EXCEPT !.inq = IF f = "DROP" THEN @ ELSE Tail(@)]
             ELSE
                 LET c1 == Receive(c, f)
                     w1 == IF f = "CLOSE" /\ ClosesWs(c, "server")
                           THEN [WsClosed(ws) EXCEPT !.inq = Tail(@) \o <<DROP>>]
                           ELSE [ws EXCEPT !.inq = Tail(@)]
                 IN IF c1.st = "connected"
                    THEN /\ c' = c1
                         /\ rd' = [rd EXCEPT !.dl = now + c1.pi + c1.pt]
                         /\ ws' = w1
                    ELSE LET a == AfterLoop(c1)
                         IN /\ c' = a.cn /\ rd' = [rd EXCEPT !.st = a.st, !.dl = None]
                            /\ ws' = w1
    /\ UNCHANGED <<now, call, wr, dj, wj, hj, nid>>

ReadSilence ==
    /\ rd.st = "recv" /\ rd.dl <= now /\ ws.inq = <<>>
    /\ LET a == AfterLoop(ReaderLeaves(c, TRUE))
       IN /\ c' = a.cn /\ rd' = [rd EXCEPT !.st = a.st, !.dl = None]
    /\ UNCHANGED <<now, call, wr, ws, dj, wj, hj, nid>>

\* the loop condition is re-evaluated after a state change made by another task while the
\* reader was blocked in recv (a disconnect() closes the socket, which delivers DROP)

ReaderJoined ==
    /\ rd.st = "joinw" /\ wr.st \in {"done", "none"}
    /\ c' = ReaderEpilogue(c)
    /\ rd' = [rd EXCEPT !.st = "done"]
    /\ UNCHANGED <<now, call, wr, ws, dj, wj, hj, nid>>

-----------------------------------------------------------------------------
(* write loop *)

NilIdx(q) == IF \E i \in 1..Len(q) : q[i] = NIL
             THEN CHOOSE i \in 1..Len(q) : q[i] = NIL /\ \A j \in 1..(i - 1) : q[j] # NIL ELSE 0

RECURSIVE EmitFrames(_, _)
EmitFrames(cc, pk) == IF pk = <<>> THEN cc
                      ELSE EmitFrames(Out([cc EXCEPT !.tx = Append(@, Head(pk))],
                                          [k |-> "wstx", f |-> Head(pk)]), Tail(pk))

\* one turn of the loop from the point where queue.get() has something (or the loop starts)
\* top == TRUE: at the top of the loop (the state is checked); FALSE: woken inside queue.get()
RECURSIVE WriterTurn(_, _)
WriterTurn(cc, top) ==
    \* returns [cn, st, id, dl]
    \* the loop goes on while connected or while something is still queued (what was queued
    \* before a disconnect - the CLOSE packet - is still sent when the disconnect found the loop
    \* busy with a POST); deviation "WriteLoopDropsQueued": the behaviour before the repair of F25
    IF top /\ cc.st # "connected" /\ (cc.q = <<>> \/ "WriteLoopDropsQueued" \in Deviations)
    THEN [cn |-> IF cc.q = <<>> THEN cc ELSE [cc EXCEPT !.dev = @ \cup {"WriteLoopDropsQueued"}],
          st |-> "done", id |-> 0, dl |-> None, nid |-> 0]
    ELSE IF cc.q = <<>> THEN [cn |-> cc, st |-> "qwait", id |-> 0,
                              dl |-> now + Max(cc.pi, cc.pt) + Grace, nid |-> 0]
    ELSE IF Head(cc.q) = NIL THEN [cn |-> [cc EXCEPT !.q = Tail(@)], st |-> "done", id |-> 0,
                                   dl |-> None, nid |-> 0]
    ELSE LET i == NilIdx(cc.q)
             \* at most 16 packets per payload; a sentinel met within that limit is dropped
             withNil == i # 0 /\ i - 1 < 16
             m == IF Len(cc.q) < 16 THEN Len(cc.q) ELSE 16
             batch == IF withNil THEN SubSeq(cc.q, 1, i - 1) ELSE SubSeq(cc.q, 1, m)
             rest == IF withNil THEN SubSeq(cc.q, i + 1, Len(cc.q))
                     ELSE SubSeq(cc.q, m + 1, Len(cc.q))
             c1 == [cc EXCEPT !.q = rest]
         IN IF c1.tr = "polling"
            THEN [cn |-> Req([c1 EXCEPT !.tx = @ \o batch], nid + 1, "POST", batch, RT),
                  st |-> "post", id |-> nid + 1, dl |-> now + RT, nid |-> 1]
            ELSE IF ws.st # "open" THEN [cn |-> c1, st |-> "done", id |-> 0, dl |-> None, nid |-> 0]
            ELSE WriterTurn(EmitFrames(c1, batch), TRUE)

WriterRun ==
    /\ wr.st = "new" \/ (wr.st = "qwait" /\ c.q # <<>>)
    /\ LET r == WriterTurn(c, wr.st = "new")
       IN /\ c' = r.cn
          /\ wr' = [st |-> r.st, id |-> r.id, dl |-> r.dl]
          /\ nid' = nid + r.nid
    /\ UNCHANGED <<now, call, rd, ws, dj, wj, hj>>

WriterIdleTimeout ==
    /\ wr.st = "qwait" /\ wr.dl <= now
    /\ c' = c
    /\ wr' = [wr EXCEPT !.st = "done", !.dl = None]
    /\ UNCHANGED <<now, call, rd, ws, dj, wj, hj, nid>>

PostReply(id, status) ==
    /\ wr.st = "post" /\ wr.id = id
    /\ LET c0 == EnvStart(c)
       IN IF status < 200 \/ status >= 300 THEN
              /\ c' = [c0 EXCEPT !.wlt = "cleared"]
              /\ wr' = [st |-> "done", id |-> 0, dl |-> None]
              /\ UNCHANGED nid
          ELSE LET r == WriterTurn(c0, TRUE)
               IN /\ c' = r.cn
                  /\ wr' = [st |-> r.st, id |-> r.id, dl |-> r.dl]
                  /\ nid' = nid + r.nid
    /\ UNCHANGED <<now, call, rd, ws, dj, wj, hj>>

\* the POST fails at connection level or times out: the connection is lost
PostFail(id, timeout) ==
    /\ wr.st = "post" /\ wr.id = id
    /\ timeout => wr.dl <= now
    /\ LET c0 == IF timeout THEN Out(c, [k |-> "reqto", id |-> id]) ELSE EnvStart(c)
       IN IF "PostFailureSilent" \in Deviations
          THEN c' = [c0 EXCEPT !.dev = @ \cup {"PostFailureSilent"}]
          ELSE c' = [c0 EXCEPT !.wlt = "cleared"]
    /\ wr' = [st |-> "done", id |-> 0, dl |-> None]
    /\ UNCHANGED <<now, call, rd, ws, dj, wj, hj, nid>>

-----------------------------------------------------------------------------
(* message handlers, application calls *)

RunHandler ==
    /\ c.hq # <<>>
    /\ LET c1 == Event([c EXCEPT !.hq = Tail(@)], "msg:" \o Head(c.hq))
       IN IF MsgDisconnects /\ Head(c.hq) = "M2" THEN
              IF c1.st = "connected" THEN
                  LET c2 == DiscStart(c1, ws)
                      w2 == IF c1.tr = "websocket" /\ ws.st = "open"
                            THEN [WsClosed(ws) EXCEPT !.inq = @ \o <<DROP>>] ELSE ws
                  IN IF rd.st \in {"done", "none"}
                     THEN /\ c' = DiscFinish(c2) /\ ws' = w2 /\ UNCHANGED hj
                     ELSE /\ c' = c2 /\ ws' = w2 /\ hj' = hj + 1
              ELSE /\ c' = Reset(c1) /\ UNCHANGED <<ws, hj>>
          ELSE /\ c' = c1 /\ UNCHANGED <<ws, hj>>
    /\ UNCHANGED <<now, call, rd, wr, dj, wj, nid>>

HandlerJoined ==
    /\ hj > 0 /\ rd.st = "done"
    /\ c' = DiscFinish(c)
    /\ hj' = hj - 1
    /\ UNCHANGED <<now, call, rd, wr, ws, dj, wj, nid>>

Send(tok) ==
    /\ c' = Ret(SendPacket(EnvStart(c), tok), "send", "none")
    /\ UNCHANGED <<now, call, rd, wr, ws, dj, wj, hj, nid>>

Disconnect ==
    /\ LET c0 == EnvStart(c)
       IN IF c0.st = "connected" THEN
              LET c1 == [SendPacket(c0, "CLOSE") EXCEPT !.q = Append(@, NIL), !.st = "disconnecting"]
                  c2 == Event(c1, "disc:client")
                  c3 == IF c2.tr = "websocket" THEN WsCloseOut(c2, ws) ELSE c2
                  w3 == IF c2.tr = "websocket" /\ ws.st = "open"
                        THEN [WsClosed(ws) EXCEPT !.inq = @ \o <<DROP>>] ELSE ws
              IN IF rd.st = "done" \/ rd.st = "none"
                 THEN /\ c' = Ret(Reset([c3 EXCEPT !.st = "disconnected", !.reg = FALSE]),
                                  "disconnect", "none")
                      /\ ws' = w3
                      /\ UNCHANGED dj
                 ELSE /\ c' = c3
                      /\ ws' = w3
                      /\ dj' = dj + 1
          ELSE /\ c' = Ret(Reset(c0), "disconnect", "none")
               /\ UNCHANGED <<ws, dj>>
    /\ UNCHANGED <<now, call, rd, wr, wj, hj, nid>>

DisconnectJoined ==
    /\ dj > 0 /\ rd.st = "done"
    /\ c' = Ret(Reset([c EXCEPT !.st = "disconnected", !.reg = FALSE]), "disconnect", "none")
    /\ dj' = dj - 1
    /\ UNCHANGED <<now, call, rd, wr, ws, wj, hj, nid>>

\* wait(): returns when the read loop is over
WaitCall ==
    /\ IF rd.st \in {"done", "none"}
       THEN /\ c' = Ret(EnvStart(c), "wait", "none") /\ UNCHANGED wj
       ELSE /\ c' = EnvStart(c) /\ wj' = wj + 1
    /\ UNCHANGED <<now, call, rd, wr, ws, dj, hj, nid>>

WaitJoined ==
    /\ wj > 0 /\ rd.st = "done"
    /\ c' = Ret(c, "wait", "none")
    /\ wj' = wj - 1
    /\ UNCHANGED <<now, call, rd, wr, ws, dj, hj, nid>>

\* frames delivered by the peer / the peer closes the socket
WsDeliver(f) ==
    /\ ws.st = "open"
    /\ ws' = [ws EXCEPT !.inq = Append(@, f)]
    /\ c' = EnvStart(c)
    /\ UNCHANGED <<now, call, rd, wr, dj, wj, hj, nid>>

WsPeerClose ==
    /\ ws.st = "open"
    /\ ws' = [ws EXCEPT !.st = "closed", !.inq = Append(@, DROP)]
    /\ c' = EnvStart(c)
    /\ UNCHANGED <<now, call, rd, wr, dj, wj, hj, nid>>

-----------------------------------------------------------------------------
Internal ==
    \/ ConnectFrame \/ ConnectProbeTimeout \/ WsConnTimeout \/ ConnectGetTimeout
    \/ ReaderStart \/ ReadFrame \/ ReadSilence \/ ReaderJoined
    \/ (rd.st = "get" /\ ReadFail(rd.id, TRUE))
    \/ WriterRun \/ WriterIdleTimeout
    \/ (wr.st = "post" /\ PostFail(wr.id, TRUE))
    \/ RunHandler \/ DisconnectJoined \/ WaitJoined \/ HandlerJoined

Deadlines ==
    (IF call.stage # "none" /\ call.dl # None THEN {call.dl} ELSE {})
    \cup (IF rd.st \in {"get", "recv"} /\ rd.dl # None THEN {rd.dl} ELSE {})
    \cup (IF wr.st \in {"qwait", "post"} /\ wr.dl # None THEN {wr.dl} ELSE {})

Quiescent == ~ENABLED Internal

TickTo(t) ==
    /\ Quiescent
    /\ t > now /\ t <= Horizon
    /\ \A d \in Deadlines : d > now => t <= d
    /\ now' = t
    /\ c' = EnvStart(c)
    /\ UNCHANGED <<call, rd, wr, ws, dj, wj, hj, nid>>
=============================================================================
