"""C19 - response transformations (compression, JSONP) are lossless and well labelled."""
import gzip
import random
import zlib

from ..common import Check
from ..harness import world as W
from ..harness import jslit
from . import httpcommon as H
from . import codec as R

AE = [None, 'gzip', 'deflate', 'gzip, deflate', 'deflate, gzip', 'gzip;q=0.5', 'br', 'br, gzip',
      ' gzip ', 'GZIP', '*', 'identity', 'x-gzip', 'br;q=1.0, deflate;q=0.8', '', 'deflate,gzip',
      'compress, br']

PAYLOADS = ['plain', 'quote " inside', 'back\\slash', 'both \\" mixed', 'line\nfeed', 'cr\rhere',
            'ls ps ', 'nul\x00ctl\x1f\x7f', 'astral \U0001F600', 'sep\x1einside',
            '</script><!--', "single ' quote", 'tab\there', 'é ü 中',
            {'k': 'v"\\\n '}, [1, 'a\\"'], b'\x00\x01binary\xff', b'', 'x' * 300,
            # terminators at the very end / alone (a pattern anchored with $ lets one slip by)
            'line one\n', '\n', 'safe-chars.only\r', 'word\u2028', '\u2029', 'a\r\n', 'trailing\\',
            'trailing"', 'YWJj\n']


def offered_of(ae):
    if ae is None:
        return []
    out = []
    for tok in ae.split(','):
        t = tok.split(';')[0].strip()
        out.append(t if t in ('gzip', 'deflate') else 'other')
    return out


def undo(body, declared):
    if declared == 'gzip':
        return gzip.decompress(body)
    if declared == 'deflate':
        return zlib.decompress(body)
    return body


def run(tier):
    ck = Check('C19', tier)
    th = tier == 'thorough'
    H.tlc_tables(ck, 'EioHttp decision tables: facts over every cell (Compress)')
    rng = random.Random(ck.seed)
    recs, metas = [], []
    for impl in ('sync', 'async'):
        for enabled in (True, False):
            for thr_mode in ('below', 'at', 'above', 'zero', 'two', 'default'):
                # one server instance serves a whole sequence of requests (labels must not leak
                # from one response to the next)
                n_req = 60 if th else 24
                w = None
                for i in range(n_req):
                    pay = rng.choice(PAYLOADS) if i % 3 else PAYLOADS[i % len(PAYLOADS)]
                    kind = rng.choice(['poll', 'poll', 'poll', 'post', 'bad', 'jsonp', 'jsonp'])
                    ae = rng.choice(AE)
                    exp_poll = R.ref_encode(4, pay, True).encode('utf-8')
                    size = {'poll': len(exp_poll), 'post': 2, 'bad': None, 'jsonp': None}[kind]
                    if kind in ('poll',):
                        thr = {'below': size + 1, 'at': size, 'above': max(size - 1, 0), 'zero': 0,
                               'two': 2, 'default': 1024}[thr_mode]
                    else:
                        thr = {'below': 3, 'at': 2, 'above': 1, 'zero': 0, 'two': 2,
                               'default': 1024}[thr_mode]
                    if w is None or w.cfg['compression_threshold'] != thr:
                        if w is not None:
                            w.close()
                        w = W.make_world(impl, {'compression': enabled, 'compression_threshold': thr,
                                                'ping_interval': 400, 'ping_timeout': 200})
                        H.run_request(w, 'GET', 'transport=polling&EIO=4')
                    sid = w.sids[1]
                    hdrs = {} if ae is None else {'Accept-Encoding': ae}
                    if kind in ('poll', 'jsonp'):
                        w.api_send_payload(1, pay)
                        w.quiesce()
                        q = 'transport=polling&EIO=4&sid=' + sid + ('&j=%d' % i if kind == 'jsonp' else '')
                        r = H.run_request(w, 'GET', q, hdrs, slot=1)
                    elif kind == 'post':
                        r = H.run_request(w, 'POST', 'transport=polling&EIO=4&sid=' + sid, hdrs,
                                          body=b'3', slot=1)
                    else:
                        r = H.run_request(w, 'GET', 'transport=polling&EIO=4&sid=nosuchsid', hdrs)
                    ces = H.header(r.headers, 'Content-Encoding')
                    declared = ces[0] if len(ces) == 1 else ('none' if not ces else 'multi')
                    body = r.body or b''
                    try:
                        plain = undo(body, declared)
                        decodable = True
                    except Exception:
                        plain, decodable = b'', False
                    if kind == 'poll':
                        expect = exp_poll
                    elif kind == 'post':
                        expect = b'OK'
                    elif kind == 'bad':
                        expect = plain           # any text; size is what the server measured
                    else:
                        expect = None
                    lossless = decodable
                    if kind == 'jsonp':
                        text = plain.decode('utf-8', 'replace') if decodable else ''
                        pr = jslit.jsonp_parse(text)
                        one = pr is not None and pr[0] == str(i)
                        lit = False
                        if one:
                            try:
                                lit = jslit.js_string_eval(pr[1]) == exp_poll.decode('utf-8')
                            except ValueError:
                                one = False
                        recs.append({'k': 'jsonp', 'onestatement': bool(one), 'literalok': bool(lit)})
                        metas.append({'impl': impl, 'kind': kind, 'payload': repr(pay)[:40],
                                      'body': text[:80]})
                        size = len(plain)
                    else:
                        lossless = decodable and plain == expect
                        size = len(plain) if decodable else len(body)
                    recs.append({'k': 'compress', 'enabled': enabled, 'size': size, 'threshold': thr,
                                 'offered': offered_of(ae), 'declared': declared,
                                 'lossless': bool(lossless)})
                    metas.append({'impl': impl, 'kind': kind, 'ae': ae, 'payload': repr(pay)[:40],
                                  'status': H.status_of(r), 'ce': ces})
                    ck.distinct([impl, enabled, thr_mode, kind, ae, repr(pay)[:30]])
                if w is not None:
                    w.close()
    traces, v = H.validate(ck, recs, 'responses (polls with %d payload classes, POST acks, 400s, JSONP '
                                     'polls) x %d Accept-Encoding shapes x compression on/off x '
                                     'thresholds around the body size, sequences on one server '
                                     'instance, 2 servers' % (len(PAYLOADS), len(AE)))
    bad = 0
    for ti in v.rejected:
        for jx, rec in enumerate(traces[ti]):
            if not ok(rec):
                bad += 1
                if bad <= 5:
                    ck.violation('response transformation contradicts EioHttp: %r (%r)' % (
                        rec, metas[ti * 400 + jx]), {'record': rec, 'meta': metas[ti * 400 + jx]})
    if v.rejected and not bad:
        ck.violation('trace rejected', {'n': len(v.rejected)})
    ck.sample({'record': recs[3], 'meta': metas[3]})
    ck.cov['rule'] = ('case = one response of a server instance that serves a sequence of requests; '
                      'distinct by (server, compression, threshold mode, request kind, '
                      'Accept-Encoding, payload)')
    ck.assume('Accept-Encoding tokens are compared case-sensitively and q-values are ignored by the '
              'server; "gzip;q=0" is not exercised (either outcome is defensible)')
    ck.assume('JavaScript string-literal evaluation by vk/harness/jslit.py (ES5 rules: raw line '
              'terminators incl. U+2028/2029 are errors)')
    return ck.finish()


def ok(e):
    if e['k'] == 'jsonp':
        return e['onestatement'] and e['literalok']
    exp = 'none'
    if e['enabled'] and e['size'] >= e['threshold']:
        for t in e['offered']:
            if t in ('gzip', 'deflate'):
                exp = t
                break
    return e['declared'] == exp and e['lossless']


def replay(path):
    print(open(path).read()[:3000])
    return 1
