---------------------------- MODULE EioSidTrace ----------------------------
(***************************************************************************)
(* Trace validation for EioSid.  The trace file is one JSON document: an   *)
(* array of traces, each an array of issue events recorded from the real   *)
(* generate_id():                                                          *)
(*   r    interned token of the 12 bytes the OS random source returned     *)
(*   ctr  the counter decoded from the id                                  *)
(*   wf   id is 20 chars over [A-Za-z0-9_-] and decodes to r ++ ctr        *)
(*   req  number of bytes requested from the random source                 *)
(***************************************************************************)
EXTENDS EioSid, Json, IOUtils, TLC, TLCExt

Tr == JsonDeserialize(IOEnv.TRACE_FILE)

VARIABLES tid, l
tvars == <<seq, win, tid, l>>

TraceInit ==
    /\ tid \in 1..Len(Tr)
    /\ l = 1
    /\ seq = Tr[tid][1].ctr        \* the window may start at any counter value
    /\ win = <<>>

Ev == Tr[tid][l]

Step ==
    /\ l <= Len(Tr[tid])
    /\ Ev.wf = TRUE
    /\ Ev.req >= 12                \* at least 96 bits from the OS source
    /\ Ev.ctr = seq
    /\ Issue(Ev.r)
    /\ l' = l + 1
    /\ UNCHANGED tid

Finish ==
    /\ l = Len(Tr[tid]) + 1
    /\ PrintT(<<"ACC", tid>>)
    /\ l' = l + 1
    /\ UNCHANGED <<seq, win, tid>>

TraceNext == Step \/ Finish
TraceSpec == TraceInit /\ [][TraceNext]_tvars
=============================================================================
