"""Batch trace validation: many recorded executions of the real code, one TLC run.

The batch file is ONE JSON document, an array of traces (each an array of event records).
The trace specification has one initial state per trace id and prints <<"ACC", tid>> from
its Finish action; a trace whose id is not printed was rejected (the specification allows
no behaviour that explains the recorded events).  Invariants listed in the configuration
are evaluated on every state of every trace.
"""
import json
import os
import re

from . import tlc
from .common import NCPU, MachineryError


class TraceVerdict:
    def __init__(self):
        self.accepted = set()       # 0-based indices into the list given
        self.rejected = []          # 0-based indices
        self.inv_violations = []    # (index, invariant name, counterexample text)
        self.results = []           # TLCResult per batch
        self.states = 0
        self.generated = 0


def validate(module, traces, constants=None, invariants=(), spec='TraceSpec', batch=2000,
             workers=None, timeout=1800, wd=None, extra_env=None, properties=(),
             constraints=()):
    v = TraceVerdict()
    if not traces:
        return v
    wd = wd or tlc.workdir('trace-')
    cfg = tlc.cfg_text(spec=spec, constants=constants or {}, invariants=invariants,
                       properties=properties, constraints=constraints)
    for b0 in range(0, len(traces), batch):
        chunk = traces[b0:b0 + batch]
        path = os.path.join(wd, 'batch_%d.json' % b0)
        with open(path, 'w') as f:
            json.dump(chunk, f)
        todo = list(range(len(chunk)))
        # an invariant violation stops TLC; drop the offending trace and re-run the rest
        guard = 0
        while todo:
            guard += 1
            if guard > 25:
                raise MachineryError('too many invariant violations in one batch')
            if len(todo) != len(chunk):
                sub = [chunk[i] for i in todo]
                with open(path, 'w') as f:
                    json.dump(sub, f)
            env = {'TRACE_FILE': path}
            if extra_env:
                env.update(extra_env)
            r = tlc.run(module, cfg, wd=wd, workers=workers or NCPU, timeout=timeout, env=env,
                        constants=constants)
            v.results.append(r)
            v.states += r.distinct
            v.generated += r.generated
            if r.error:
                raise MachineryError('trace validation (%s) failed: %s\n%s' % (
                    module, r.error, r.out[-3000:]))
            if r.violated:
                txt = '\n'.join(r.trace)[-6000:] or r.out[-4000:]
                m = re.findall(r'/\\ tid = (\d+)', r.out)
                if not m:
                    raise MachineryError('invariant %s violated but no tid found\n%s' % (
                        r.violated, r.out[-3000:]))
                k = int(m[-1]) - 1
                v.inv_violations.append((b0 + todo[k], r.violated, txt))
                del todo[k]
                continue
            acc = set()
            for ln in r.printed:
                ln = ln.strip()
                if ln.startswith('<<"ACC"'):
                    m = re.match(r'<<"ACC",\s*(\d+)>>', ln)
                    if m:
                        acc.add(int(m.group(1)) - 1)
            for k, i in enumerate(todo):
                if k in acc:
                    v.accepted.add(b0 + i)
                else:
                    v.rejected.append(b0 + i)
            break
    return v
