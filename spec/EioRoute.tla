------------------------------- MODULE EioRoute -------------------------------
(***************************************************************************)
(* Gateway middleware (middleware.py WSGIApp, async_drivers/asgi.py        *)
(* ASGIApp, static_files.py): routing by path, static file resolution,     *)
(* ASGI lifespan.  Decision tables over abstract request facts:            *)
(*   under    the path lies under the configured endpoint ("/ep/...")      *)
(*   bare     the path is the endpoint without trailing slash              *)
(*   matches  the path equals a static mapping key or lies below a mapped  *)
(*            directory key                                                *)
(*   exists   the file the mapping designates (after resolving "." and     *)
(*            ".." and the default file of a directory) exists             *)
(*   dots     the part below the mapping key contains "." / ".." / empty   *)
(*            segments                                                     *)
(*   escapes  that part, normalised, leaves the mapped directory           *)
(*   hasApp   a wrapped application is configured                          *)
(***************************************************************************)
EXTENDS Naturals, Sequences, FiniteSets

Fallback(hasApp) == IF hasApp THEN "app" ELSE "notfound"

RouteAllowed(under, bare, matches, exists, dots, escapes, hasApp) ==
    IF under THEN {"engine"}
    ELSE IF bare THEN {"engine", Fallback(hasApp), "file"}      \* WSGI and ASGI differ: either
    ELSE IF ~matches \/ escapes THEN {Fallback(hasApp)}
    ELSE IF dots THEN {"file", Fallback(hasApp)}                \* staying inside: either
    ELSE IF exists THEN {"file"}
    ELSE {Fallback(hasApp)}

RouteCells == {<<u, b, m, e, d, x, a>> : u \in BOOLEAN, b \in BOOLEAN, m \in BOOLEAN, e \in BOOLEAN,
                                         d \in BOOLEAN, x \in BOOLEAN, a \in BOOLEAN}
C20_EscapeNeverServed ==
    \A c \in RouteCells : (~c[1] /\ ~c[2] /\ c[6]) =>
        "file" \notin RouteAllowed(c[1], c[2], c[3], c[4], c[5], c[6], c[7])
C20_EngineIffUnder ==
    \A c \in RouteCells :
        /\ c[1] => RouteAllowed(c[1], c[2], c[3], c[4], c[5], c[6], c[7]) = {"engine"}
        /\ (~c[1] /\ ~c[2]) => "engine" \notin RouteAllowed(c[1], c[2], c[3], c[4], c[5], c[6], c[7])

(* ---- ASGI lifespan ------------------------------------------------------ *)
\* callback kinds: "none" "ok" (sync or async, returns) "raise"
\* events: sequence over {"startup", "shutdown", "other"}
RECURSIVE LifeSends(_, _, _)
LifeSends(cbStart, cbStop, events) ==
    IF events = <<>> THEN <<>>
    ELSE LET e == Head(events)
         IN IF e = "startup" THEN
                IF cbStart = "raise" THEN <<"startup.failed">>
                ELSE <<"startup.complete">> \o LifeSends(cbStart, cbStop, Tail(events))
            ELSE IF e = "shutdown" THEN
                IF cbStop = "raise" THEN <<"shutdown.failed">> ELSE <<"shutdown.complete">>
            ELSE LifeSends(cbStart, cbStop, Tail(events))

\* with a wrapped application and no callbacks the events are passed to that application
LifePassThrough(cbStart, cbStop, hasApp) == hasApp /\ cbStart = "none" /\ cbStop = "none"
=============================================================================
