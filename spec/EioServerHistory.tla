-------------------------- MODULE EioServerHistory --------------------------
(***************************************************************************)
(* The server's history contract: what C03 and C05 say about the           *)
(* observable history of each session, with no reference to how the server *)
(* gets there.  The state is the observation itself (per session: the      *)
(* application events so far, the messages delivered to the client so far, *)
(* the closed flag); a step replaces it by the next recorded observation.  *)
(*                                                                         *)
(* It is used for executions that the block-to-block specification         *)
(* EioServer cannot follow because the scheduler switched tasks inside a   *)
(* block (pre-emptive schedules of the threaded server): such an execution *)
(* is judged by this contract alone.  EioServer itself satisfies it: the   *)
(* same facts are invariants / action properties of EioServerProps         *)
(* (C03_InOrderOnce, C05_EventShape, C05_NothingAfterDisc, H_AppendOnly).  *)
(***************************************************************************)
EXTENDS Naturals, Sequences, TLC, Json, IOUtils, TLCExt

Tr == JsonDeserialize(IOEnv.TRACE_FILE)

VARIABLES tid, l, ev, deliv, closed
hvars == <<tid, l, ev, deliv, closed>>

IsPrefix(a, b) == Len(a) <= Len(b) /\ SubSeq(b, 1, Len(a)) = a
IsDisc(e) == Len(e) >= 5 /\ SubSeq(e, 1, 5) = "disc:"

Obs(st) ==
    /\ ev = st.ev
    /\ deliv = st.deliv
    /\ closed = [i \in 1..Len(st.ss) |-> st.ss[i].closed]

Init == /\ tid \in 1..Len(Tr) /\ l = 1 /\ Obs(Tr[tid][1].st)
Step == /\ l < Len(Tr[tid])
        /\ l' = l + 1 /\ UNCHANGED tid
        /\ ev' = Tr[tid][l + 1].st.ev
        /\ deliv' = Tr[tid][l + 1].st.deliv
        /\ closed' = [i \in 1..Len(Tr[tid][l + 1].st.ss) |-> Tr[tid][l + 1].st.ss[i].closed]
Finish == /\ l = Len(Tr[tid])
          /\ PrintT(<<"ACC", tid>>)
          /\ l' = l + 1 /\ UNCHANGED <<tid, ev, deliv, closed>>
Next == Step \/ Finish
TraceSpec == Init /\ [][Next]_hvars

\* connect comes first and once; at most one disconnect; no connect after it
EventShape ==
    \A s \in 1..Len(ev) :
        LET e == ev[s]
        IN /\ e # <<>> => e[1] = "connect"
           /\ \A i \in 2..Len(e) : e[i] # "connect"
           /\ \A i, j \in 1..Len(e) : (IsDisc(e[i]) /\ IsDisc(e[j])) => i = j
\* a closed session that was connected has had its disconnect event
ClosedHasDisconnect ==
    \A s \in 1..Len(ev) :
        (closed[s] /\ ev[s] # <<>>) => \E i \in 1..Len(ev[s]) : IsDisc(ev[s][i])
\* the client got M1, M2, ... : in order, each once, none skipped
DeliveredInOrderOnce ==
    \A s \in 1..Len(deliv) : \A i \in 1..Len(deliv[s]) : deliv[s][i][1] = "M" \o ToString(i)
\* history is only ever extended
AppendOnly ==
    [][\A s \in 1..Len(ev) : IsPrefix(ev[s], ev'[s]) /\ IsPrefix(deliv[s], deliv'[s])]_hvars
=============================================================================
