"""Deterministic worlds around the real engineio servers.

SyncWorld drives engineio.Server (async_mode='threading', primitives substituted by hub.py)
through engineio.WSGIApp; AsyncWorld drives engineio.AsyncServer through the real ASGI
driver (engineio.ASGIApp) on the virtual-time loop.  Both expose the same environment API
and record the same normalised outputs, so one script can be replayed on both.

Nothing of engineio is mocked: only the OS-facing primitives (threads, queues, sleep, time,
the websocket object of the threaded server, the gateway callables) are ours.
"""
import asyncio
import base64
import io
import json
import logging

from . import hub as hubmod
from . import vloop

TICK = 0.0625
REASON = {'server disconnect': 'server', 'client disconnect': 'client', 'ping timeout': 'pingto',
          'transport close': 'tclose', 'transport error': 'terror'}

_quiet = logging.getLogger('verif.quiet')
_quiet.addHandler(logging.NullHandler())
_quiet.propagate = False
_quiet.setLevel(logging.CRITICAL + 1)


# ---- payload <-> token ---------------------------------------------------------------------

def srv_payload(slot, n):
    k = n % 3
    if k == 1:
        return 'S%d:%d' % (slot, n)
    if k == 2:
        return {'s': slot, 'n': n}
    return b'S%d:%d' % (slot, n)


def srv_token(slot, data):
    """Token of a payload received by the client of `slot` ('M<n>'), or a '?..' token when it
    is not exactly a payload generated for that slot."""
    try:
        if isinstance(data, str) and data.startswith('S'):
            s, n = data[1:].split(':')
            if int(s) == slot and int(n) % 3 == 1 and data == 'S%d:%d' % (slot, int(n)):
                return 'M%d' % int(n)
        elif isinstance(data, dict) and set(data) == {'s', 'n'}:
            if data['s'] == slot and data['n'] % 3 == 2:
                return 'M%d' % data['n']
        elif isinstance(data, (bytes, bytearray)):
            s, n = bytes(data).decode()[1:].split(':')
            if int(s) == slot and int(n) % 3 == 0 and bytes(data) == b'S%d:%d' % (slot, int(n)):
                return 'M%d' % int(n)
    except Exception:
        pass
    return '?' + repr(data)[:40]


def cli_payload(tok):
    """Payload a client sends for message token m<n> / mE<n> / mX<n>; mZ<k> / mY<k> / mU<k> are
    size probes: a text / binary / multi-byte text payload padded with k filler characters."""
    if tok.startswith('mZ'):
        return 'c:' + tok + ':' + 'x' * int(tok[2:])
    if tok.startswith('mY'):
        return ('c:' + tok + ':' + 'x' * int(tok[2:])).encode()
    if tok.startswith('mU'):
        # multi-byte size probe: k two-byte characters (byte length and character count differ)
        return 'c:' + tok + ':' + '\u00e9' * int(tok[2:])
    digits = ''.join(c for c in tok if c.isdigit())
    n = int(digits) if digits else 1
    if tok.startswith(('mE', 'mX')):
        return 'c:' + tok
    k = n % 3
    if k == 1:
        return 'c:' + tok
    if k == 2:
        return {'c': tok}
    return ('c:' + tok).encode()


def cli_token(data):
    try:
        if isinstance(data, str) and data.startswith(('c:mZ', 'c:mU')):
            tok = data[2:].split(':')[0]
            if cli_payload(tok) == data:
                return tok
        if isinstance(data, (bytes, bytearray)) and bytes(data).startswith(b'c:mY'):
            tok = bytes(data)[2:].split(b':')[0].decode()
            if cli_payload(tok) == bytes(data):
                return tok
        if isinstance(data, str) and data.startswith('c:'):
            tok = data[2:]
            if cli_payload(tok) == data:
                return tok
        elif isinstance(data, dict) and set(data) == {'c'}:
            if cli_payload(data['c']) == data:
                return data['c']
        elif isinstance(data, (bytes, bytearray)):
            tok = bytes(data).decode()[2:]
            if cli_payload(tok) == bytes(data):
                return tok
    except Exception:
        pass
    return '?' + repr(data)[:40]


def encode_cli_packet(tok, channel):
    """Wire form of a client packet token for `channel` in {'polling', 'ws'}."""
    if tok == 'PONG':
        return '3'
    if tok == 'PONGprobe':
        return '3probe'
    if tok == 'CLOSE':
        return '1'
    if tok == 'UPGRADE':
        return '5'
    if tok == 'PINGprobe':
        return '2probe'
    if tok == 'PINGx':
        return '2x'
    if tok == 'NOOPc':
        return '6'
    if tok.startswith('BAD'):
        t = tok[3:] or '7'
        return t + 'x'
    if tok == 'EMPTY':
        return ''
    if tok == 'GARBAGE':
        return 'zz'
    if tok.startswith('m'):
        p = cli_payload(tok)
        if isinstance(p, str):
            return '4' + p
        if isinstance(p, dict):
            return '4' + json.dumps(p, separators=(',', ':'))
        if channel == 'polling':
            return 'b' + base64.b64encode(p).decode()
        return p
    raise ValueError(tok)


def decode_srv_packet(slot, raw, channel):
    """Token of something the server sent to the client of `slot` on `channel`."""
    if isinstance(raw, (bytes, bytearray)):
        if channel != 'ws':
            return '?bytes-on-polling'
        return srv_token(slot, bytes(raw))
    if raw == '':
        return '?empty'
    t, rest = raw[0], raw[1:]
    if t == 'b':
        if channel != 'polling':
            return '?b64-on-ws'
        try:
            return srv_token(slot, base64.b64decode(rest, validate=True))
        except Exception:
            return '?badb64'
    if t == '0':
        try:
            d = json.loads(rest)
            if isinstance(d, dict) and 'sid' in d:
                return 'OPEN'
        except Exception:
            pass
        return '?open'
    if t == '1' and rest == '':
        return 'CLOSE'
    if t == '2' and rest == '':
        return 'PING'
    if t == '3' and rest == 'probe':
        return 'PONGprobe'
    if t == '6' and rest == '':
        return 'NOOP'
    if t == '4':
        try:
            v = json.loads(rest)
            if isinstance(v, dict):
                return srv_token(slot, v)
        except Exception:
            pass
        return srv_token(slot, rest)
    return '?' + raw[:30]


class RecStream:
    """wsgi.input that records the sizes asked of it."""
    def __init__(self, data):
        self.data = data
        self.reads = []

    def read(self, n=None):
        self.reads.append(n)
        if n is None or n < 0:
            r, self.data = self.data, b''
        else:
            r, self.data = self.data[:n], self.data[n:]
        return r


class Req:
    def __init__(self, rid, kind, slot=None):
        self.rid = rid
        self.kind = kind          # 'http' | 'ws'
        self.slot = slot
        self.done = False
        self.status = None
        self.headers = None
        self.body = None
        self.exc = None
        self.gw = []              # gateway protocol events (C15)
        self.stream = None
        self.t_start = None
        self.t_end = None


class WsConn:
    def __init__(self, wid, rid):
        self.wid = wid
        self.rid = rid
        self.slot = None
        self.accepted = False
        self.out = []             # frames the server wrote (raw)
        self.peer_gone = False
        self.server_closed = False
        self.ended = False        # handler returned


class World:
    impl = '?'

    def _exc(self, msg):
        """The exception a scripted handler failure raises: any class the application might
        let escape (cfg 'exc_type'), TypeError included - the servers use TypeError themselves
        to detect legacy one-argument disconnect handlers."""
        return {'runtime': RuntimeError, 'type': TypeError, 'key': KeyError,
                'os': OSError, 'value': ValueError}[self.cfg.get('exc_type') or 'runtime'](msg)

    def __init__(self, cfg):
        self.cfg = dict(ping_interval=2, ping_timeout=1, grace=0, async_handlers=False,
                        monitor=False, transports=None, allow_upgrades=True, ws_available=True,
                        max_buf=1000000, cookie=None, cors=None, cors_credentials=True, compression=False,
                        compression_threshold=1024,
                        disc_raises=False)
        self.cfg.update(cfg or {})
        self.out = []             # normalised outputs since the last env action
        self.alloc = {}           # slot -> highest message number handed to a send() call
        self.accepted = {}        # slot -> numbers of the messages that reached the queue
        self.events = {}          # slot -> [event tokens]
        self.deliv = {}           # slot -> [[tok, via]]
        self.slots = {}           # sid -> slot
        self.sids = {}            # slot -> sid
        self.socks = {}           # slot -> socket object
        self.reqs = {}
        self.wss = {}             # slot -> WsConn (current)
        self.nreq = 0
        self.connect_plan = []    # queued (outcome, hsend)
        self.sent = {}            # slot -> messages accepted so far (harness counter)
        self.orphans = set()
        self.server = None

    # ---- handlers ------------------------------------------------------------------------
    def _slot_of(self, sid):
        if sid not in self.slots:
            n = len(self.slots) + 1
            self.slots[sid] = n
            self.sids[n] = sid
            self.events[n] = []
            self.deliv[n] = []
            self.sent[n] = 0
            self.socks[n] = self.server.sockets.get(sid)
        return self.slots[sid]

    def _ev(self, slot, e):
        self.events[slot].append(e)
        self.out.append({'k': 'ev', 's': slot, 'e': e})

    def _server_kwargs(self):
        c = self.cfg
        pi = c['ping_interval'] * TICK
        if c['grace']:
            pi = (pi, c['grace'] * TICK)
        kw = dict(ping_interval=pi, ping_timeout=c['ping_timeout'] * TICK,
                  async_handlers=c['async_handlers'], monitor_clients=c['monitor'],
                  allow_upgrades=c['allow_upgrades'], max_http_buffer_size=c['max_buf'],
                  cookie=c['cookie'], cors_allowed_origins=c['cors'],
                  cors_credentials=c['cors_credentials'],
                  http_compression=c['compression'],
                  compression_threshold=c['compression_threshold'], logger=_quiet)
        if c['transports']:
            kw['transports'] = c['transports']
        return kw

    def ticks(self):
        t = (self.now() - hubmod.EPOCH) / TICK
        return int(round(t)) if abs(t - round(t)) < 1e-6 else t

    def lp_ticks(self, lp):
        if lp is None:
            return -1
        t = (lp - hubmod.EPOCH) / TICK
        return int(round(t))

    # ---- observation ---------------------------------------------------------------------
    def _deliver(self, slot, toks, via):
        for t in toks:
            if t.startswith('M') or t.startswith('?'):
                self.deliv[slot].append([t, via])

    def snapshot(self, nslots):
        ss = []
        table = sorted(self.slots[sid] for sid in self.server.sockets if sid in self.slots)
        for n in range(1, nslots + 1):
            so = self.socks.get(n)
            if so is None:
                ss.append({'used': False, 'conn': False, 'upging': False, 'upged': False,
                           'closing': False, 'closed': False, 'lp': -1, 'q': [], 'unf': 0,
                           'ud': 0})
                continue
            ss.append({'used': True, 'conn': bool(so.connected), 'upging': bool(so.upgrading),
                       'upged': bool(so.upgraded), 'closing': bool(so.closing),
                       'closed': bool(so.closed), 'lp': self.lp_ticks(so.last_ping),
                       'q': self._queue_tokens(n, so), 'unf': self._unfinished(so),
                       'ud': so.session.get('tok', 0) if isinstance(so.session, dict) else -9})
        return {
            'now': self.ticks(), 'table': table, 'ss': ss,
            'ev': [list(self.events.get(n, [])) for n in range(1, nslots + 1)],
            'deliv': [[list(x) for x in self.deliv.get(n, [])] for n in range(1, nslots + 1)],
            'out': json.loads(json.dumps(self.out)),
        }

    def _queue_tokens(self, slot, so):
        items = self._queue_items(so)
        toks = []
        for p in items:
            if p is None:
                toks.append('NIL')
                continue
            try:
                enc = p.encode(b64=False) if not p.binary else p.data
                toks.append(self._pkt_token(slot, p))
            except Exception:
                toks.append('?pkt')
        return toks

    def _pkt_token(self, slot, p):
        from engineio import packet as P
        t = p.packet_type
        if t == P.OPEN:
            return 'OPEN'
        if t == P.CLOSE:
            return 'CLOSE'
        if t == P.PING:
            return 'PING'
        if t == P.NOOP:
            return 'NOOP'
        if t == P.MESSAGE:
            return srv_token(slot, p.data)
        if t == P.PONG:
            return 'PONG' + (p.data or '')
        return '?type%d' % t


# ================================ threaded server =========================================

class _SyncWs:
    """Stands in for SimpleWebSocketWSGI: same contract (wait / send / close, callable)."""
    world = None

    def __init__(self, handler, server, **kwargs):
        self.app = handler
        self.conn = None
        self.inq = None

    def __call__(self, environ, start_response):
        w = _SyncWs.world
        self.conn = environ['verif.ws']
        self.inq = environ['verif.wsq']
        self.conn.accepted = True
        self.conn.impl = self
        w._ws_accepted(self.conn)
        return self.app(self)

    def wait(self):
        self._wlog('ws_wait_enter', '')
        item = self._wait()
        self._wlog('ws_wait', 'NONE' if item is None else
                   {'2probe': 'PINGprobe', '5': 'UPGRADE'}.get(item, 'BAD'))
        return item

    def _wlog(self, op, item):
        # L2 (upgrade): the call and the return of wait() are primitives of their own
        hub = _SyncWs.world.hub
        if hub.primlog is not None and getattr(hub, 'log_wswait', False):
            rec = {'t': getattr(hub.current, 'proc', None), 'op': op, 'item': item, 'q': 'wswait'}
            hub.primlog.append(rec)
            hub.after_log(rec)
            hub.yield_point()

    def _wait(self):
        if self.conn.server_closed or (self.conn.peer_gone and not self.inq.items):
            if not self.inq.items:
                return None
        item = self.inq.get()
        if item is _CLOSED:
            self.inq.items.insert(0, _CLOSED)   # stays closed
            self.inq.unfinished_tasks += 0
            return None
        return item

    def send(self, message):
        if self.conn.peer_gone or self.conn.server_closed:
            raise OSError('websocket closed')
        _SyncWs.world._ws_out(self.conn, message)

    def close(self):
        if not self.conn.server_closed and not self.conn.peer_gone:
            self.conn.server_closed = True
            _SyncWs.world._ws_closed_by_server(self.conn)
            # L2: the writer closing the socket is a primitive of its own (it wakes the reader)
            hub = _SyncWs.world.hub
            if hub.primlog is not None:
                rec = {'t': getattr(hub.current, 'proc', None), 'op': 'ws_close', 'item': '',
                       'q': 'ws'}
                self.inq.put_quiet(_CLOSED)
                hub.primlog.append(rec)
                hub.after_log(rec)
            else:
                self.inq.put(_CLOSED)
        elif not self.conn.server_closed:
            self.conn.server_closed = True
            _SyncWs.world._ws_closed_by_server(self.conn)


_CLOSED = object()


class SyncWorld(World):
    impl = 'sync'

    def __init__(self, cfg=None, seed=0, preempt=False, hub=None):
        super().__init__(cfg)
        import engineio
        from engineio.async_drivers import threading as drv
        import engineio.socket as esocket
        self.hub = hub or hubmod.Hub(seed=seed, preempt=preempt)
        hubmod.set_hub(self.hub)
        self._saved = dict(drv._async)
        drv._async.update(thread=hubmod.Thread, queue=hubmod.Queue, queue_empty=hubmod.Empty,
                          event=hubmod.Event, sleep=hubmod.sleep,
                          websocket=_SyncWs if self.cfg['ws_available'] else None)
        self._drv = drv
        self._esocket = esocket
        self._saved_time = esocket.time
        esocket.time = hubmod.TimeShim
        _SyncWs.world = self
        self.server = engineio.Server(async_mode='threading', **self._server_kwargs())
        self.app = engineio.WSGIApp(self.server)
        self._install_handlers()

    def close(self):
        # the service task swallows every exception (incl. GreenletExit) and loops: stop it
        # through its own event before unwinding the other tasks
        ev = getattr(self.server, 'service_task_event', None)
        if ev is not None:
            ev.set()
            self.hub.run()
        self.hub.kill_all()
        self._drv._async.clear()
        self._drv._async.update(self._saved)
        self._esocket.time = self._saved_time

    def now(self):
        return self.hub.now

    def _install_handlers(self):
        w = self
        srv = self.server

        def connect(sid, environ):
            w.last_connect_sid = sid
            slot = w._slot_of(sid)
            w.socks[slot] = srv.sockets.get(sid)
            w._ev(slot, 'connect')
            outcome, hsend = w.connect_plan.pop(0) if w.connect_plan else ('accept', False)
            if hsend:
                w._app_send(slot)
            if isinstance(outcome, tuple):      # ('ret', value): return exactly that value
                return outcome[1]
            if outcome == 'reject':
                w.orphans.add(slot)
                return False
            if outcome == 'raise':
                w.orphans.add(slot)
                raise w._exc('connect handler failure (scripted)')
            if outcome not in ('accept',):
                w.orphans.add(slot)
                return json.loads(outcome)
            return None

        def message(sid, data):
            slot = w._slot_of(sid)
            tok = cli_token(data)
            w._ev(slot, 'msg:' + tok)
            if tok.startswith('mE'):
                w._app_send(slot)
            if tok.startswith('mX'):
                raise w._exc('message handler failure (scripted)')

        def disconnect(sid, reason):
            slot = w._slot_of(sid)
            w._ev(slot, 'disc:' + REASON.get(reason, '?' + str(reason)))
            if w.cfg['disc_raises'] == 'cancel':
                raise GeneratorExit('disconnect handler failure (scripted, not an Exception)')
            if w.cfg['disc_raises']:
                raise w._exc('disconnect handler failure (scripted)')

        srv.on('connect', connect)
        srv.on('message', message)
        srv.on('disconnect', disconnect)

    def _app_send(self, slot):
        """server.send(sid, next payload) - called from a task."""
        # the message gets its number at the call (concurrent sends number apart); a send that is
        # refused without reaching the queue gives the number back (no schedule point in between)
        n = max(self.sent[slot], self.alloc.get(slot, 0)) + 1
        self.alloc[slot] = n
        so = self.socks.get(slot)
        if so is None:
            self.server.send(self.sids[slot], srv_payload(slot, n))
            self.alloc[slot] = n - 1
            return
        # accepted = the packet carrying this payload was put on the session's queue during
        # the call (watching the put itself: under pre-emptive schedules a poll may already
        # have taken it again when send() returns)
        seen = []
        q = so.queue
        orig = q.put

        def put(item, *a, **k):
            mine = item is not None and self._pkt_token(slot, item) == 'M%d' % n
            if mine:
                seen.append(1)
            r = orig(item, *a, **k)
            if mine:
                self.sent[slot] = max(self.sent[slot], n)      # once the put has taken effect
                self.accepted.setdefault(slot, []).append(n)
            return r
        q.put = put
        try:
            self.server.send(self.sids[slot], srv_payload(slot, n))
        finally:
            try:
                del q.put
            except AttributeError:
                pass
            if not seen and self.alloc.get(slot) == n:
                self.alloc[slot] = n - 1

    def _queue_items(self, so):
        return so.queue.items

    def _unfinished(self, so):
        return so.queue.unfinished_tasks

    # ---- gateway -------------------------------------------------------------------------
    def _environ(self, method, query, headers=None, body=b'', declared=None):
        stream = RecStream(body or b'')
        env = {
            'REQUEST_METHOD': method, 'PATH_INFO': '/engine.io/', 'QUERY_STRING': query,
            'SERVER_NAME': 'test', 'SERVER_PORT': '80', 'wsgi.url_scheme': 'http',
            'HTTP_HOST': 'test', 'wsgi.input': stream, 'SERVER_PROTOCOL': 'HTTP/1.1',
        }
        if (method == 'POST' or body) and declared != 'absent':
            env['CONTENT_LENGTH'] = str(len(body) if declared is None else declared)
        for k, v in (headers or {}).items():
            env['HTTP_' + k.upper().replace('-', '_')] = v
        return env, stream

    def http(self, method, query, headers=None, body=b'', declared=None, slot=None):
        self.nreq += 1
        rid = self.nreq
        r = Req(rid, 'http', slot)
        self.reqs[rid] = r
        env, r.stream = self._environ(method, query, headers, body, declared)
        r.t_start = self.ticks()

        def task():
            def start_response(status, hdrs, exc_info=None):
                r.gw.append(('start_response', status, list(hdrs)))
                r.status = status
                r.headers = list(hdrs)
                return lambda data: r.gw.append(('write', data))
            try:
                ret = self.app(env, start_response)
                r.gw.append(('return', type(ret).__name__))
                body_ = b''
                for chunk in ret:
                    r.gw.append(('chunk', type(chunk).__name__))
                    body_ += chunk
                r.body = body_
            except BaseException as e:  # noqa
                if isinstance(e, hubmod.greenlet.GreenletExit):
                    raise
                r.exc = e
            r.done = True
            r.t_end = self.ticks()
            self._http_done(r)
        r.task = self.hub.spawn(task, name='req%d' % rid)
        return rid

    def _http_done(self, r):
        if r.exc is not None or r.status is None:
            st, pk = 500, []
        else:
            st = int(r.status.split(' ')[0])
            pk = self._resp_packets(r) if st == 200 else []
        self.out.append({'k': 'resp', 'rid': r.rid, 'status': st, 'pk': pk})
        if r.slot is not None and st == 200:
            self._deliver(r.slot, pk, 'polling')
        if getattr(r, 'on_done', None):
            r.on_done(r)

    def _resp_packets(self, r):
        ctype = dict((k.lower(), v) for k, v in (r.headers or [])).get('content-type', '')
        if r.body == b'OK' and not ctype.startswith('text/plain; charset'):
            return []
        try:
            text = r.body.decode('utf-8')
        except Exception:
            return ['?undecodable']
        if text == '':
            return []
        if text.startswith('___eio['):
            # JSONP wrapper (its exact form is C19's business): evaluate the string literal
            from . import jslit
            pr = jslit.jsonp_parse(text)
            try:
                text = jslit.js_string_eval(pr[1]) if pr else '?jsonp'
            except ValueError:
                return ['?jsonp-literal']
        slot = r.slot
        if slot is None:
            # open request: the slot is the one created during this request
            slot = self._open_slot_of(r)
        return [decode_srv_packet(slot, p, 'polling') for p in text.split('\x1e')]

    def _open_slot_of(self, r):
        try:
            first = r.body.decode().split('\x1e')[0]
            sid = json.loads(first[1:])['sid']
            r.slot = self.slots.get(sid)
            return r.slot
        except Exception:
            return 0

    def ws_request(self, query, headers=None, slot=None):
        """A websocket-type request (open with transport=websocket, or upgrade)."""
        self.nreq += 1
        rid = self.nreq
        r = Req(rid, 'ws', slot)
        self.reqs[rid] = r
        h = {'Upgrade': 'websocket', 'Connection': 'Upgrade'}
        h.update(headers or {})
        env, r.stream = self._environ('GET', query, h)
        conn = WsConn(rid, rid)
        conn.slot = slot
        env['verif.ws'] = conn
        env['verif.wsq'] = hubmod.Queue()
        r.conn = conn
        conn.inq = env['verif.wsq']

        def task():
            def start_response(status, hdrs, exc_info=None):
                r.gw.append(('start_response', status, list(hdrs)))
                r.status = status
                r.headers = list(hdrs)
            try:
                ret = self.app(env, start_response)
                for chunk in ret or []:
                    pass
            except BaseException as e:  # noqa
                if isinstance(e, hubmod.greenlet.GreenletExit):
                    raise
                r.exc = e
            r.done = True
            self._ws_req_done(r)
        r.task = self.hub.spawn(task, name='wsreq%d' % rid)
        return rid

    def _ws_req_done(self, r):
        conn = r.conn
        if not conn.accepted:
            self.out.append({'k': 'resp', 'rid': r.rid, 'status': 499, 'pk': []})
        else:
            conn.ended = True
            self.out.append({'k': 'wsend', 's': conn.slot})
        if getattr(conn, 'on_end', None):
            conn.on_end(conn)

    def _ws_accepted(self, conn):
        if conn.slot is None:
            # fresh websocket open: the newest slot
            conn.slot = len(self.slots)
        self.wss[conn.slot] = conn
        self.out.append({'k': 'wsacc', 's': conn.slot})
        if getattr(conn, 'on_accept', None):
            conn.on_accept(conn)

    def _ws_out(self, conn, message):
        conn.out.append(message)
        tok = decode_srv_packet(conn.slot, message, 'ws')
        self.out.append({'k': 'ws', 's': conn.slot, 'f': tok})
        self._deliver(conn.slot, [tok], 'ws')
        if getattr(conn, 'on_out', None):
            conn.on_out(message)

    def _ws_closed_by_server(self, conn):
        self.out.append({'k': 'wsclose', 's': conn.slot})
        if getattr(conn, 'on_close', None):
            conn.on_close(conn)

    def ws_frame(self, slot, raw):
        self.ws_frame_conn(self.wss[slot], raw)

    def ws_frame_conn(self, conn, raw):
        conn.inq.put(raw)

    def ws_drop(self, slot):
        self.ws_drop_conn(self.wss[slot])

    def ws_drop_conn(self, conn):
        conn.peer_gone = True
        conn.inq.put(_CLOSED)

    # ---- application API -----------------------------------------------------------------
    def api(self, fn, *args):
        self.napi = getattr(self, 'napi', 0) + 1
        cid = 'a%d' % self.napi
        rec = {'cid': cid, 'done': False, 'exc': None, 'ret': None}
        self.reqs[cid] = rec

        def task():
            try:
                rec['ret'] = fn(*args)
            except BaseException as e:  # noqa
                if isinstance(e, hubmod.greenlet.GreenletExit):
                    raise
                rec['exc'] = e
            rec['done'] = True
        rec['task'] = self.hub.spawn(task, name='api%s' % cid)
        return cid

    def app_send(self, slot):
        return self.api(self._app_send, slot)

    def api_send_payload(self, slot, data):
        return self.api(lambda: self.server.send(self.sids[slot], data))

    def app_burst(self, slot, k, then_disconnect=False):
        """One application thread: k send() calls in a row, then optionally disconnect(sid)."""
        def call():
            for _ in range(k):
                self._app_send(slot)
            if then_disconnect:
                self.server.disconnect(self.sids[slot])
        return self.api(call)

    def app_disconnect_with_id(self, slot, cid):
        def call():
            self.server.disconnect(None if slot is None else self.sids.get(slot, 'unknown-sid'))
            self.out.append({'k': 'ret', 'cid': cid})
        return self.api(call)

    def app_transport(self, slot):
        def call():
            try:
                self.out.append({'k': 'transport', 's': slot,
                                 'v': self.server.transport(self.sids[slot])})
            except KeyError:
                self.out.append({'k': 'keyerr', 's': slot})
        return self.api(call)

    def app_session_ctx(self, slot, tok):
        def call():
            try:
                with self.server.session(self.sids[slot]) as d:
                    self.out.append({'k': 'sess', 's': slot, 'ud': d.get('tok', 0)})
                    d['tok'] = tok
            except KeyError:
                self.out.append({'k': 'keyerr', 's': slot})
        return self.api(call)

    def unknown_sid(self, variant):
        """An id no session has: never issued, or a near miss of an issued one."""
        issued = [self.sids[k] for k in sorted(self.sids)]
        if not issued or variant == 0:
            return 'never-issued'
        base = issued[variant % len(issued)]
        return ['', base[:-1], base.swapcase() if base.swapcase() != base else base + 'y',
                base + 'x', ' ' + base][variant % 5]

    def app_unknown(self, call, variant, cid):
        sid = self.unknown_sid(variant)

        def run():
            try:
                if call == 'send':
                    self.server.send(sid, 'nobody')
                elif call == 'disconnect':
                    self.server.disconnect(sid)
                    self.out.append({'k': 'ret', 'cid': cid})
                elif call == 'get':
                    self.server.get_session(sid)
                elif call == 'save':
                    self.server.save_session(sid, {'tok': 99})
                elif call == 'transport':
                    self.server.transport(sid)
                elif call == 'sessctx':
                    with self.server.session(sid) as d:
                        d['tok'] = 98
            except KeyError:
                self.out.append({'k': 'keyerr', 's': 0})
        return self.api(run)

    def app_shutdown(self, cid):
        self.shut = True

        def call():
            self.server.shutdown()
            self.out.append({'k': 'ret', 'cid': cid})
        return self.api(call)

    def app_save_session(self, slot, tok):
        def call():
            try:
                self.server.save_session(self.sids[slot], {'tok': tok})
            except KeyError:
                self.out.append({'k': 'keyerr', 's': slot})
        return self.api(call)

    def app_get_session(self, slot):
        def call():
            try:
                d = self.server.get_session(self.sids[slot])
                self.out.append({'k': 'sess', 's': slot, 'ud': d.get('tok', 0)})
            except KeyError:
                self.out.append({'k': 'keyerr', 's': slot})
        return self.api(call)

    # ---- time / scheduling ---------------------------------------------------------------
    def quiesce(self):
        self.hub.run()

    def next_deadline(self):
        return self.hub.next_deadline()

    def set_time(self, t):
        self.hub.now = t
        self.hub.fire_due()
        self.hub.run()


# ================================= asyncio server =========================================

class AsyncWorld(World):
    impl = 'async'

    def __init__(self, cfg=None, seed=0, loop=None):
        super().__init__(cfg)
        import engineio
        import engineio.async_socket as asock
        from engineio.async_drivers import asgi as drv
        self.loop = loop or vloop.VLoop()
        self._own_loop = loop is None
        self._asock = asock
        self._saved_time = asock.time
        asock.time = vloop.TimeShim(self.loop)
        self._drv = drv
        self._saved_ws = drv._async['websocket']
        if not self.cfg['ws_available']:
            drv._async['websocket'] = None
        prev = asyncio.events._get_running_loop()
        asyncio.events._set_running_loop(self.loop)
        try:
            self.server = engineio.AsyncServer(async_mode='asgi', **self._server_kwargs())
        finally:
            asyncio.events._set_running_loop(prev)
        self.app = engineio.ASGIApp(self.server)
        self._install_handlers()

    def close(self):
        if getattr(self, '_own_loop', True):
            self.loop.shutdown()
        self._asock.time = self._saved_time
        self._drv._async['websocket'] = self._saved_ws

    def now(self):
        return self.loop.vnow

    def _install_handlers(self):
        w = self
        srv = self.server

        async def connect(sid, environ):
            w.last_connect_sid = sid
            slot = w._slot_of(sid)
            w.socks[slot] = srv.sockets.get(sid)
            w._ev(slot, 'connect')
            outcome, hsend = w.connect_plan.pop(0) if w.connect_plan else ('accept', False)
            if hsend:
                await w._app_send(slot)
            if isinstance(outcome, tuple):      # ('ret', value): return exactly that value
                return outcome[1]
            if outcome == 'reject':
                w.orphans.add(slot)
                return False
            if outcome == 'raise':
                w.orphans.add(slot)
                raise w._exc('connect handler failure (scripted)')
            if outcome not in ('accept',):
                w.orphans.add(slot)
                return json.loads(outcome)
            return None

        async def message(sid, data):
            slot = w._slot_of(sid)
            tok = cli_token(data)
            w._ev(slot, 'msg:' + tok)
            if w.cfg.get('handlers_yield'):
                await asyncio.sleep(0)
            if tok.startswith('mE'):
                await w._app_send(slot)
            if tok.startswith('mX'):
                raise w._exc('message handler failure (scripted)')

        async def disconnect(sid, reason):
            slot = w._slot_of(sid)
            w._ev(slot, 'disc:' + REASON.get(reason, '?' + str(reason)))
            if w.cfg.get('handlers_yield'):
                # a coroutine handler that really suspends (awaits something of its own):
                # everything else that is ready runs before it resumes
                await asyncio.sleep(0)
                await asyncio.sleep(0)
            if w.cfg['disc_raises'] == 'cancel':
                # e.g. the handler awaited a task it had cancelled
                raise asyncio.CancelledError()
            if w.cfg['disc_raises']:
                raise w._exc('disconnect handler failure (scripted)')

        srv.on('connect', connect)
        srv.on('message', message)
        srv.on('disconnect', disconnect)

    async def _app_send(self, slot):
        n = self.sent[slot] + 1
        so = self.socks.get(slot)
        before = list(self._queue_items(so)) if so is not None else []
        await self.server.send(self.sids[slot], srv_payload(slot, n))
        after = list(self._queue_items(so)) if so is not None else []
        if len(after) > len(before) and after[-1] is not None and \
                self._pkt_token(slot, after[-1]) == 'M%d' % n and not so.closed:
            self.sent[slot] = n

    def _queue_items(self, so):
        return list(so.queue._queue)

    def _unfinished(self, so):
        return so.queue._unfinished_tasks

    # ---- gateway -------------------------------------------------------------------------
    def _scope(self, typ, method, query, headers, body, declared):
        hdrs = [(b'host', b'test')]
        for k, v in (headers or {}).items():
            hdrs.append((k.lower().encode(), v.encode()))
        if (method == 'POST' or body) and declared != 'absent':
            hdrs.append((b'content-length',
                         str(len(body) if declared is None else declared).encode()))
        sc = {'type': typ, 'path': '/engine.io/', 'query_string': query.encode(),
              'headers': hdrs}
        if typ == 'http':
            sc['method'] = method
        return sc

    def http(self, method, query, headers=None, body=b'', declared=None, slot=None):
        self.nreq += 1
        rid = self.nreq
        r = Req(rid, 'http', slot)
        self.reqs[rid] = r
        scope = self._scope('http', method, query, headers, body or b'', declared)
        r.t_start = self.ticks()
        sent_req = []

        async def receive():
            r.gw.append(('receive',))
            if not sent_req:
                sent_req.append(1)
                return {'type': 'http.request', 'body': body or b'', 'more_body': False}
            await self.loop.create_future()      # never: the client stays connected

        async def send(ev):
            r.gw.append(('send', ev['type']))
            if ev['type'] == 'http.response.start':
                r.status = ev['status']
                r.headers = [(k.decode(), v.decode()) for k, v in ev.get('headers', [])]
            elif ev['type'] == 'http.response.body':
                r.body = (r.body or b'') + ev.get('body', b'')

        async def task():
            try:
                await self.app(scope, receive, send)
            except asyncio.CancelledError:
                raise
            except BaseException as e:  # noqa
                r.exc = e
            r.done = True
            r.t_end = self.ticks()
            self._http_done(r)
        r.task = self.loop.spawn(task(), name='req%d' % rid)
        return rid

    def _http_done(self, r):
        if r.exc is not None or r.status is None:
            st, pk = 500, []
        else:
            st = int(r.status)
            pk = SyncWorld._resp_packets(self, r) if st == 200 else []
        self.out.append({'k': 'resp', 'rid': r.rid, 'status': st, 'pk': pk})
        if r.slot is not None and st == 200:
            self._deliver(r.slot, pk, 'polling')
        if getattr(r, 'on_done', None):
            r.on_done(r)

    _open_slot_of = SyncWorld._open_slot_of

    def ws_request(self, query, headers=None, slot=None):
        self.nreq += 1
        rid = self.nreq
        r = Req(rid, 'ws', slot)
        self.reqs[rid] = r
        h = {'Upgrade': 'websocket', 'Connection': 'Upgrade'}
        h.update(headers or {})
        scope = self._scope('websocket', 'GET', query, h, b'', None)
        conn = WsConn(rid, rid)
        conn.slot = slot
        conn.inq = asyncio.Queue()
        conn.inq.put_nowait({'type': 'websocket.connect'})
        r.conn = conn

        async def receive():
            r.gw.append(('receive',))
            ev = await conn.inq.get()
            if ev['type'] == 'websocket.disconnect':
                conn.inq.put_nowait(ev)      # stays disconnected
            return ev

        async def send(ev):
            r.gw.append(('send', ev['type']))
            t = ev['type']
            if t == 'websocket.accept':
                conn.accepted = True
                if conn.slot is None:
                    conn.slot = len(self.slots)
                self.wss[conn.slot] = conn
                self.out.append({'k': 'wsacc', 's': conn.slot})
                if getattr(conn, 'on_accept', None):
                    conn.on_accept(conn)
            elif t == 'websocket.send':
                if conn.peer_gone or conn.server_closed:
                    raise OSError('websocket closed')
                msg = ev.get('bytes') if ev.get('bytes') is not None else ev.get('text')
                conn.out.append(msg)
                tok = decode_srv_packet(conn.slot, msg, 'ws')
                self.out.append({'k': 'ws', 's': conn.slot, 'f': tok})
                self._deliver(conn.slot, [tok], 'ws')
                if getattr(conn, 'on_out', None):
                    conn.on_out(msg)
            elif t == 'websocket.close':
                if not conn.accepted:
                    return
                if conn.server_closed:
                    raise OSError('already closed')
                conn.server_closed = True
                self.out.append({'k': 'wsclose', 's': conn.slot})
                if not conn.peer_gone:
                    conn.inq.put_nowait({'type': 'websocket.disconnect', 'code': 1000})
                if getattr(conn, 'on_close', None):
                    conn.on_close(conn)

        async def task():
            try:
                await self.app(scope, receive, send)
            except asyncio.CancelledError:
                raise
            except BaseException as e:  # noqa
                r.exc = e
            r.done = True
            if not conn.accepted:
                self.out.append({'k': 'resp', 'rid': r.rid, 'status': 499, 'pk': []})
            else:
                conn.ended = True
                self.out.append({'k': 'wsend', 's': conn.slot})
            if getattr(conn, 'on_end', None):
                conn.on_end(conn)
        r.task = self.loop.spawn(task(), name='wsreq%d' % rid)
        return rid

    def ws_frame(self, slot, raw):
        self.ws_frame_conn(self.wss[slot], raw)

    def ws_frame_conn(self, conn, raw):
        ev = {'type': 'websocket.receive'}
        if isinstance(raw, (bytes, bytearray)):
            ev['bytes'] = bytes(raw)
        else:
            ev['text'] = raw
        conn.inq.put_nowait(ev)

    def ws_drop(self, slot):
        self.ws_drop_conn(self.wss[slot])

    def ws_drop_conn(self, conn):
        conn.peer_gone = True
        conn.inq.put_nowait({'type': 'websocket.disconnect', 'code': 1006})

    # ---- application API -----------------------------------------------------------------
    def api(self, corofn, *args):
        self.napi = getattr(self, 'napi', 0) + 1
        cid = 'a%d' % self.napi
        rec = {'cid': cid, 'done': False, 'exc': None, 'ret': None}
        self.reqs[cid] = rec

        async def task():
            try:
                rec['ret'] = await corofn(*args)
            except asyncio.CancelledError:
                raise
            except BaseException as e:  # noqa
                rec['exc'] = e
            rec['done'] = True
        rec['task'] = self.loop.spawn(task(), name='api%s' % cid)
        return cid

    def app_send(self, slot):
        return self.api(self._app_send, slot)

    def api_send_payload(self, slot, data):
        async def call():
            await self.server.send(self.sids[slot], data)
        return self.api(call)

    def app_disconnect_with_id(self, slot, cid):
        async def call():
            await self.server.disconnect(None if slot is None
                                         else self.sids.get(slot, 'unknown-sid'))
            self.out.append({'k': 'ret', 'cid': cid})
        return self.api(call)

    def app_transport(self, slot):
        async def call():
            try:
                self.out.append({'k': 'transport', 's': slot,
                                 'v': self.server.transport(self.sids[slot])})
            except KeyError:
                self.out.append({'k': 'keyerr', 's': slot})
        return self.api(call)

    def app_session_ctx(self, slot, tok):
        async def call():
            try:
                async with self.server.session(self.sids[slot]) as d:
                    self.out.append({'k': 'sess', 's': slot, 'ud': d.get('tok', 0)})
                    d['tok'] = tok
            except KeyError:
                self.out.append({'k': 'keyerr', 's': slot})
        return self.api(call)

    def unknown_sid(self, variant):
        """An id no session has: never issued, or a near miss of an issued one."""
        issued = [self.sids[k] for k in sorted(self.sids)]
        if not issued or variant == 0:
            return 'never-issued'
        base = issued[variant % len(issued)]
        return ['', base[:-1], base.swapcase() if base.swapcase() != base else base + 'y',
                base + 'x', ' ' + base][variant % 5]

    def app_unknown(self, call, variant, cid):
        sid = self.unknown_sid(variant)

        async def run():
            try:
                if call == 'send':
                    await self.server.send(sid, 'nobody')
                elif call == 'disconnect':
                    await self.server.disconnect(sid)
                    self.out.append({'k': 'ret', 'cid': cid})
                elif call == 'get':
                    await self.server.get_session(sid)
                elif call == 'save':
                    await self.server.save_session(sid, {'tok': 99})
                elif call == 'transport':
                    self.server.transport(sid)
                elif call == 'sessctx':
                    async with self.server.session(sid) as d:
                        d['tok'] = 98
            except KeyError:
                self.out.append({'k': 'keyerr', 's': 0})
        return self.api(run)

    def app_shutdown(self, cid):
        self.shut = True

        async def call():
            await self.server.shutdown()
            self.out.append({'k': 'ret', 'cid': cid})
        return self.api(call)

    def app_save_session(self, slot, tok):
        async def call():
            try:
                await self.server.save_session(self.sids[slot], {'tok': tok})
            except KeyError:
                self.out.append({'k': 'keyerr', 's': slot})
        return self.api(call)

    def app_get_session(self, slot):
        async def call():
            try:
                d = await self.server.get_session(self.sids[slot])
                self.out.append({'k': 'sess', 's': slot, 'ud': d.get('tok', 0)})
            except KeyError:
                self.out.append({'k': 'keyerr', 's': slot})
        return self.api(call)

    # ---- time / scheduling ---------------------------------------------------------------
    def quiesce(self):
        self.loop.quiesce()

    def next_deadline(self):
        return self.loop.next_deadline()

    def set_time(self, t):
        self.loop.vnow = t
        self.loop.quiesce()


def blocked_signature(w, rec):
    """Where a never-completed request / call is blocked, and on which kind of session."""
    task = rec['task'] if isinstance(rec, dict) else getattr(rec, 'task', None)
    where = '?'
    q = None
    if w.impl == 'sync':
        b = getattr(task, 'blocked_on', None)
        if b:
            where = {'qjoin': 'queue.join', 'queue': 'queue.get', 'join': 'thread.join',
                     'event': 'event.wait', 'sleep': 'sleep'}.get(b[0], b[0])
            q = b[1] if len(b) > 1 else None
    else:
        def chain(t):
            names, qq, kids = [], None, []
            coro = t.get_coro()
            while coro is not None:
                names.append(getattr(coro, '__qualname__', type(coro).__name__))
                fr = getattr(coro, 'cr_frame', None)
                if fr is not None and 'self' in fr.f_locals and \
                        type(fr.f_locals['self']).__name__ == 'Queue' and \
                        names[-1].endswith('join'):
                    qq = fr.f_locals['self']
                if fr is not None and names[-1] == '_wait' and 'fs' in fr.f_locals:
                    kids = [k for k in fr.f_locals['fs'] if not k.done()]
                coro = getattr(coro, 'cr_await', None)
            return names, qq, kids
        try:
            names, q, kids = chain(task)
            if kids:
                # disconnect() without a sid waits for one close() task per client: report
                # where a pending one is blocked, preferring one that is not a join() on a
                # polling session
                def upg(qq):
                    return any(so is not None and so.queue is qq and so.upgraded
                               for so in w.socks.values())
                cs = [chain(k) for k in kids]
                odd = [c for c in cs if not any(n.endswith('Queue.join') for n in c[0])
                       or upg(c[1])]
                names, q, _ = (odd or cs)[0]
            if any(n.endswith('Queue.join') for n in names):
                where = 'queue.join'
            elif any(n.endswith('Queue.get') for n in names):
                where = 'queue.get'
            else:
                where = names[-1] if names else '?'
        except Exception as e:  # noqa
            where = '?%r' % e
    transport = '?'
    for slot, so in w.socks.items():
        if so is not None and so.queue is q:
            transport = 'websocket' if so.upgraded else 'polling'
    return {'in': where, 'transport': transport}


def make_world(impl, cfg=None, seed=0, preempt=False, hub=None, loop=None):
    if impl == 'sync':
        return SyncWorld(cfg, seed=seed, preempt=preempt, hub=hub)
    return AsyncWorld(cfg, seed=seed, loop=loop)
