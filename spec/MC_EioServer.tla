---------------------------- MODULE MC_EioServer ----------------------------
(* Model-checking wrapper of EioServer: environment alphabet, bounds.       *)
EXTENDS EioServer

CONSTANTS
    Alpha,        \* enabled environment action groups
    MaxQ,         \* state constraint: queue length
    MaxReq,       \* state constraint: number of requests / calls
    MaxPings,     \* state constraint: outstanding ping tasks
    EnvAnytime    \* BOOLEAN: environment actions may interleave with internal ones

PostBodies ==
    {<<"PONG">>, <<"m1">>, <<"CLOSE">>, <<"UPGRADE">>, <<"BAD">>, <<"GARBAGE">>, <<"OVERSIZE">>,
     <<"m1", "CLOSE">>, <<"CLOSE", "m1">>, <<"CLOSE", "UPGRADE">>, <<"mE1">>, <<"BAD", "m1">>,
     <<"m1", "BAD">>}
SmallBodies == {<<"PONG">>, <<"m1">>, <<"CLOSE">>}
Frames == {"PINGprobe", "UPGRADE", "PONG", "m1", "CLOSE", "BAD", "OVERSIZE", "EMPTY", "PINGx"}

EnvOK == EnvAnytime \/ Quiescent

EnvNext ==
    /\ EnvOK
    /\ \/ "open" \in Alpha /\ \E h \in BOOLEAN : OpenPolling("accept", h)
       \/ "reject" \in Alpha /\ \E h \in BOOLEAN : OpenPolling("reject", h)
       \/ "openws" \in Alpha /\ OpenWs("accept", FALSE)
       \/ "poll" \in Alpha /\ \E s \in Sid : PollReq(s)
       \/ "post" \in Alpha /\ \E s \in Sid, b \in PostBodies : PostReq(s, b)
       \/ "pong" \in Alpha /\ \E s \in Sid, b \in SmallBodies : PostReq(s, b)
       \/ "upgrade" \in Alpha /\ \E s \in Sid : UpgradeReq(s)
       \/ "wsio" \in Alpha /\ \E s \in Sid, f \in Frames : WsFrame(s, f)
       \/ "wsio" \in Alpha /\ \E s \in Sid : WsDrop(s)
       \/ "send" \in Alpha /\ \E s \in Sid : AppSend(s)
       \/ "api" \in Alpha /\ \E s \in Sid : AppDisconnect(s)
       \/ "sess" \in Alpha /\ \E s \in Sid : AppSaveSession(s, s) \/ AppGetSession(s)

Next == EnvNext \/ Internal \/ ("tick" \in Alpha /\ TickTo(now + 1))

Spec == Init /\ [][Next]_vars

Bound ==
    /\ \A s \in Sid : Len(g.ss[s].q) <= MaxQ
    /\ nreq <= MaxReq
    /\ Len(psleep) <= MaxPings
    /\ \A s \in Sid : g.pstart[s] <= 2
    /\ Len(g.hq) <= 2
    /\ \A s \in Sid : Len(wsin[s]) <= 2

View == <<now, [g EXCEPT !.out = <<>>], polls, psleep, wsr, wsin, wsw, wsgone, joiners, mon>>
=============================================================================
