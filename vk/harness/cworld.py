"""Deterministic worlds around the real engineio clients, with a scripted server as peer.

SyncClientWorld runs engineio.Client on the greenlet hub with fake `requests` / `websocket`
modules; AsyncClientWorld runs engineio.AsyncClient on the virtual-time loop with a fake aiohttp
session.  Every HTTP request and websocket operation of the client is an output; every reply,
frame or failure is an environment action decided by the script.
"""
import asyncio
import base64
import json
import types
import urllib.parse

from . import hub as hubmod
from . import vloop
from . import world as W

TICK = W.TICK
_quiet = W._quiet


def pkt_wire(tok, slot=1):
    """Wire text of a server->client packet token (polling form)."""
    if tok == 'CLOSE':
        return '1'
    if tok == 'NOOP':
        return '6'
    if tok == 'PING':
        return '2'
    if tok.startswith('PING:'):
        return '2' + tok[5:]
    if tok == 'PONGprobe':
        return '3probe'
    if tok == 'PONGx':
        return '3x'
    if tok == 'UNK8':
        return '8z'
    if tok == 'UPGRADEs':
        return '5'
    if tok.startswith('M'):
        p = W.srv_payload(slot, int(tok[1:]))
        if isinstance(p, str):
            return '4' + p
        if isinstance(p, dict):
            return '4' + json.dumps(p, separators=(',', ':'))
        return 'b' + base64.b64encode(p).decode()
    raise ValueError(tok)


def pkt_frame(tok, slot=1):
    """Websocket frame of a server->client packet token (binary raw)."""
    if tok.startswith('M'):
        p = W.srv_payload(slot, int(tok[1:]))
        if isinstance(p, bytes):
            return p
    return pkt_wire(tok, slot)


def open_wire(sid, ups, pi, pt, variant='ok'):
    d = {'sid': sid, 'upgrades': ['websocket'] if ups else [],
         'pingInterval': int(pi * TICK * 1000), 'pingTimeout': int(pt * TICK * 1000),
         'maxPayload': 1000000}
    if variant == 'missingkey':
        del d['pingTimeout']
    if variant == 'nodata':
        return '0'
    if variant == 'notdict':
        return '0[1,2]'
    return '0' + json.dumps(d, separators=(',', ':'))


def cli_sent_token(raw, channel):
    """Token of something the client transmitted."""
    if isinstance(raw, (bytes, bytearray)):
        if channel != 'wsbin':
            return '?bytes-as-text'
        return W.cli_token(bytes(raw))
    if channel == 'wsbin':
        return '?text-as-binary'
    if raw == '':
        return '?empty'
    t, rest = raw[0], raw[1:]
    if t == 'b':
        if channel != 'polling':
            return '?b64-on-ws'
        try:
            return W.cli_token(base64.b64decode(rest, validate=True))
        except Exception:
            return '?badb64'
    if t == '1' and rest == '':
        return 'CLOSE'
    if t == '2' and rest == 'probe':
        return 'PINGprobe'
    if t == '5' and rest == '':
        return 'UPGRADE'
    if t == '3':
        return 'PONG' if rest == '' else 'PONG:' + rest
    if t == '4':
        try:
            v = json.loads(rest)
            if isinstance(v, dict):
                return W.cli_token(v)
        except Exception:
            pass
        return W.cli_token(rest)
    return '?' + raw[:30]


class ClientWorld:
    impl = '?'

    def __init__(self, cfg=None):
        self.cfg = dict(request_timeout=80, url='http://host:5000', path='engine.io',
                        connect_disconnects=False, message_disconnects=False)
        self.cfg.update(cfg or {})
        self.out = []
        self.events = []
        self.reqs = {}        # id -> request record
        self.nreq = 0
        self.conns = []       # websocket connections (records)
        self.calls = {}
        self.ncall = 0
        self.client = None
        self.urlfacts = []

    def ticks(self):
        t = (self.now() - hubmod.EPOCH) / TICK
        return int(round(t)) if abs(t - round(t)) < 1e-6 else t

    def _ev(self, e):
        self.events.append(e)
        self.out.append({'k': 'ev', 'e': e})

    # ---- requests issued by the client -------------------------------------------------------
    def _new_request(self, method, url, headers, data, timeout):
        self.nreq += 1
        rid = self.nreq
        body = []
        if method == 'POST':
            text = data if isinstance(data, str) else (data or b'').decode('utf-8', 'replace')
            body = [cli_sent_token(p, 'polling') for p in text.split('\x1e')] if text else []
        rec = {'id': rid, 'm': method, 'url': url, 'body': body, 'timeout': timeout, 'done': False,
               'reply': None, 'headers': dict(headers or {})}
        self.reqs[rid] = rec
        self.out.append({'k': 'req', 'id': rid, 'm': method, 'body': body,
                         'urlok': self._url_ok(url, 'polling'),
                         'to': int(round(timeout / TICK)) if timeout else -1})
        return rec

    def _url_ok(self, url, transport):
        """EIO=4, configured endpoint, caller's query kept, scheme mapped, sid appended."""
        u = urllib.parse.urlparse(url)
        base = urllib.parse.urlparse(self.cfg['url'])
        want_scheme = {'polling': 'http', 'websocket': 'ws'}[transport] + \
            ('s' if base.scheme in ('https', 'wss') else '')
        q = urllib.parse.parse_qs(u.query, keep_blank_values=True)
        bq = urllib.parse.parse_qs(base.query, keep_blank_values=True)
        sid = getattr(self.client, 'sid', None)
        ok = (u.scheme == want_scheme and u.netloc == base.netloc and
              u.path == '/' + self.cfg['path'].strip('/') + '/' and
              q.get('EIO') == ['4'] and q.get('transport') == [transport] and
              all(q.get(k) == v for k, v in bq.items()))
        if 'sid' in q and sid is not None:
            ok = ok and q['sid'] == [sid]
        self.urlfacts.append({'url': url, 'ok': ok})
        return bool(ok)

    def snapshot(self):
        c = self.client
        return {
            'now': self.ticks(), 'st': c.state, 'sid': 1 if c.sid else 0,
            'tr': c.current_transport or 'none' if c.state != 'disconnected' or c.sid else
            (c.current_transport or 'none'),
            'ev': list(self.events), 'out': json.loads(json.dumps(self.out)),
            'q': self._queue_tokens(), 'reg': self._registered(),
        }

    def _registered(self):
        from engineio import base_client
        return self.client in base_client.connected_clients

    def _tok_of_pkt(self, p):
        if p is None:
            return 'NIL'
        from engineio import packet as P
        t = p.packet_type
        if t == P.CLOSE:
            return 'CLOSE'
        if t == P.PONG:
            return 'PONG' if not p.data else 'PONG:' + str(p.data)
        if t == P.MESSAGE:
            return W.cli_token(p.data)
        return '?type%d' % t

    def install_handlers(self):
        w = self
        c = self.client

        def on_connect():
            w._ev('connect')
            if w.cfg['connect_disconnects']:
                return w._handler_disconnect()

        def on_message(data):
            tok = W.srv_token(1, data)
            w._ev('msg:' + tok)
            if w.cfg['message_disconnects'] and tok == 'M2':
                return w._handler_disconnect()

        def on_disconnect(reason):
            w._ev('disc:' + {'client disconnect': 'client', 'server disconnect': 'server',
                             'transport error': 'terror'}.get(reason, '?' + str(reason)))
        return on_connect, on_message, on_disconnect


# ================================ threaded client ===========================================

class _RequestException(Exception):
    pass


class _WsTimeout(Exception):
    pass


class _WsClosed(Exception):
    pass


class _WsException(Exception):
    pass


class _Resp:
    def __init__(self, status, content):
        self.status_code = status
        self.content = content

    def json(self):
        return json.loads(self.content.decode('utf-8'))


class SyncClientWorld(ClientWorld):
    impl = 'sync'

    def __init__(self, cfg=None, seed=0, preempt=False, hub=None):
        super().__init__(cfg)
        import engineio
        import engineio.client as ec
        import engineio.base_client as bc
        self.hub = hub or hubmod.Hub(seed=seed, preempt=preempt)
        self._own_hub = hub is None
        hubmod.set_hub(self.hub)
        self._ec, self._bc = ec, bc
        self._saved = (ec.requests, ec.websocket, ec.threading, ec.queue, ec.time, bc.time)
        w = self
        fake_requests = types.SimpleNamespace(
            Session=lambda: _Session(w),
            exceptions=types.SimpleNamespace(RequestException=_RequestException))
        fake_ws = types.SimpleNamespace(
            create_connection=lambda url, **opts: w._create_connection(url, opts),
            WebSocketTimeoutException=_WsTimeout,
            WebSocketConnectionClosedException=_WsClosed,
            WebSocketException=_WsException)
        ec.requests = fake_requests
        ec.websocket = fake_ws
        ec.threading = types.SimpleNamespace(Thread=hubmod.Thread, Event=hubmod.Event)
        ec.queue = types.SimpleNamespace(Queue=hubmod.Queue, Empty=hubmod.Empty)
        ec.time = hubmod.TimeShim
        bc.time = hubmod.TimeShim
        bc.connected_clients[:] = []
        self.client = engineio.Client(http_session=_Session(self), handle_sigint=False,
                                      timestamp_requests=False, logger=_quiet,
                                      request_timeout=self.cfg['request_timeout'] * TICK)
        oc, om, od = self.install_handlers()
        self.client.on('connect', oc)
        self.client.on('message', om)
        self.client.on('disconnect', od)

    def _handler_disconnect(self):
        self.client.disconnect()

    def close(self):
        if self._own_hub:
            self.hub.kill_all()
        ec, bc = self._ec, self._bc
        ec.requests, ec.websocket, ec.threading, ec.queue, ec.time, bc.time = self._saved
        bc.connected_clients[:] = []

    def now(self):
        return self.hub.now

    def _queue_tokens(self):
        q = self.client.queue
        return [self._tok_of_pkt(p) for p in (q.items if q is not None else [])]

    # ---- fake transport used by the client -----------------------------------------------------
    def _http(self, method, url, headers, data, timeout):
        rec = self._new_request(method, url, headers, data, timeout)
        rec['ev'] = hubmod.Event()
        self._plog('http_enter', method, rec['body'])
        ok = rec['ev'].wait(timeout)
        rec['done'] = True
        if not ok or rec['reply'] is None:
            self.out.append({'k': 'reqto', 'id': rec['id']})
            self._plog('http_ret', 'fail')
            raise _RequestException('timeout')
        kind, status, content = rec['reply']
        if kind == 'fail':
            self._plog('http_ret', 'fail')
            raise _RequestException('connection failed (scripted)')
        self._plog('http_ret', 'ok' if 200 <= status < 300 else 'bad')
        return _Resp(status, content)

    def _plog(self, op, item='', items=()):
        """L2 (polling client): one record per operation of the HTTP layer (hub.primlog): the
        request leaving and the request returning are switch points of their own."""
        lg = self.hub.primlog
        if lg is not None and getattr(self.hub, 'log_http', False):
            rec = {'t': getattr(self.hub.current, 'proc', None), 'op': op, 'item': item,
                   'items': list(items), 'q': 'http'}
            lg.append(rec)
            self.hub.after_log(rec)
            self.hub.yield_point()

    def _create_connection(self, url, opts):
        conn = {'id': len(self.conns) + 1, 'url': url, 'opts': opts, 'state': 'connecting',
                'inq': hubmod.Queue(), 'out': [], 'timeout': opts.get('timeout'),
                'ev': hubmod.Event(), 'accept': None}
        self.conns.append(conn)
        self.out.append({'k': 'wsconn', 'id': conn['id'], 'urlok': self._url_ok(url, 'websocket'),
                         'to': int(round(opts.get('timeout') / TICK)) if opts.get('timeout') else -1})
        ok = conn['ev'].wait(opts.get('timeout'))
        if not ok or not conn['accept']:
            conn['state'] = 'refused'
            if not ok:
                self.out.append({'k': 'wsconnto', 'id': conn['id']})
            raise ConnectionError('websocket connection failed (scripted)')
        conn['state'] = 'open'
        return _SyncWs(self, conn)

    # ---- environment actions -------------------------------------------------------------------
    def reply(self, rid, status, content):
        rec = self.reqs[rid]
        rec['reply'] = ('ok', status, content)
        rec['ev'].set()

    def fail(self, rid):
        rec = self.reqs[rid]
        rec['reply'] = ('fail', 0, b'')
        rec['ev'].set()

    def ws_accept(self, ok=True):
        conn = self.conns[-1]
        conn['accept'] = ok
        conn['ev'].set()

    def ws_deliver(self, frame):
        conn = self.conns[-1]
        conn['inq'].put(frame)

    def ws_close(self):
        conn = self.conns[-1]
        conn['state'] = 'closed'
        conn['inq'].put(_CLOSED)

    def call(self, fn, *args, name='call'):
        self.ncall += 1
        cid = self.ncall
        rec = {'cid': cid, 'done': False, 'exc': None, 'name': name}
        self.calls[cid] = rec

        def task():
            try:
                fn(*args)
            except BaseException as e:  # noqa
                if isinstance(e, hubmod.greenlet.GreenletExit):
                    raise
                rec['exc'] = exc_name(e)
            rec['done'] = True
            self.out.append({'k': 'ret', 'c': name, 'exc': rec['exc'] or 'none'})
        rec['task'] = self.hub.spawn(task, name=name)
        return cid

    def app_connect(self, transports):
        tr = {'poll': ['polling'], 'ws': ['websocket'], 'both': None}[transports]
        return self.call(lambda: self.client.connect(self.cfg['url'], transports=tr,
                                                      engineio_path=self.cfg['path']),
                         name='connect')

    def app_send(self, tok):
        return self.call(lambda: self.client.send(W.cli_payload(tok)), name='send')

    def app_disconnect(self):
        return self.call(lambda: self.client.disconnect(), name='disconnect')

    def app_burst(self, k, first, acc, then_disconnect=False):
        """One application thread: k send() calls in a row (numbered from `first`, only while
        connected; the accepted numbers are appended to acc), then optionally disconnect()."""
        def go():
            n = first
            for _ in range(k):
                if self.client.state != 'connected':
                    continue
                acc.append(n)
                self.client.send(W.cli_payload('m%d' % n))
                n += 1
            if then_disconnect:
                self.client.disconnect()
        return self.call(go, name='burst')

    def app_wait(self):
        return self.call(lambda: self.client.wait(), name='wait')

    def quiesce(self):
        self.hub.run()

    def next_deadline(self):
        return self.hub.next_deadline()

    def set_time(self, t):
        self.hub.now = t
        self.hub.fire_due()
        self.hub.run()


_CLOSED = object()


class _Session:
    def __init__(self, w):
        self.w = w
        self.cookies = []
        self.auth = None
        self.cert = None
        self.proxies = {}
        self.verify = True

    def request(self, method, url, headers=None, data=None, timeout=None):
        return self.w._http(method, url, headers, data, timeout)


class _SyncWs:
    def __init__(self, w, conn):
        self.w = w
        self.conn = conn
        self.timeout = conn['timeout']
        self.connected = True

    def _log(self, op, item=''):
        """L2: one record per websocket operation of the client (hub.primlog)."""
        lg = self.w.hub.primlog
        if lg is not None:
            rec = {'t': getattr(self.w.hub.current, 'proc', None), 'op': op, 'item': item,
                   'q': 'ws'}
            lg.append(rec)
            self.w.hub.after_log(rec)

    def settimeout(self, t):
        self.timeout = t
        self.w.out.append({'k': 'wssettimeout', 'to': int(round(t / TICK))})

    def send(self, data):
        if self.conn['state'] != 'open':
            raise _WsClosed('closed')
        tok = cli_sent_token(data, 'ws')
        self.w.out.append({'k': 'wstx', 'f': tok})
        self._log('ws_send', tok)

    def send_binary(self, data):
        if self.conn['state'] != 'open':
            raise _WsClosed('closed')
        self._log('ws_send', cli_sent_token(data, 'wsbin'))
        self.w.out.append({'k': 'wstx', 'f': cli_sent_token(data, 'wsbin')})

    def recv(self):
        self._log('ws_recv_enter')
        if self.conn['state'] != 'open' and not self.conn['inq'].items:
            self.connected = False
            self._log('ws_recv_closed')
            raise _WsClosed('closed')
        try:
            item = self.conn['inq'].get(timeout=self.timeout)
        except hubmod.Empty:
            raise _WsTimeout('timeout')
        if item is _CLOSED:
            self.conn['inq'].items.insert(0, _CLOSED)
            self.connected = False
            self._log('ws_recv_closed')
            raise _WsClosed('closed')
        return item

    def close(self):
        if self.conn['state'] == 'open':
            self.conn['state'] = 'closedbyclient'
            self.connected = False
            self.w.out.append({'k': 'wsclosed'})
            self.conn['inq'].put_quiet(_CLOSED)       # wakes a receiver
        self._log('ws_close')


# ================================= asyncio client ===========================================

class AsyncClientWorld(ClientWorld):
    impl = 'async'

    def __init__(self, cfg=None, seed=0, loop=None):
        super().__init__(cfg)
        import engineio
        import engineio.base_client as bc
        self.loop = loop or vloop.VLoop()
        self._own_loop = loop is None
        self._bc = bc
        self._saved_time = bc.time
        bc.time = vloop.TimeShim(self.loop)
        bc.connected_clients[:] = []
        prev = asyncio.events._get_running_loop()
        asyncio.events._set_running_loop(self.loop)
        try:
            self.client = engineio.AsyncClient(http_session=_AioSession(self), handle_sigint=False,
                                               timestamp_requests=False, logger=_quiet,
                                               request_timeout=self.cfg['request_timeout'] * TICK)
        finally:
            asyncio.events._set_running_loop(prev)
        oc, om, od = self.install_handlers()

        async def aoc():
            w = self
            w._ev('connect')
            if w.cfg['connect_disconnects']:
                await w.client.disconnect()

        async def aom(data):
            tok = W.srv_token(1, data)
            self._ev('msg:' + tok)
            if self.cfg['message_disconnects'] and tok == 'M2':
                await self.client.disconnect()
        self.client.on('connect', aoc)
        self.client.on('message', aom)
        self.client.on('disconnect', od)

    def close(self):
        if self._own_loop:
            self.loop.shutdown()
        self._bc.time = self._saved_time
        self._bc.connected_clients[:] = []

    def now(self):
        return self.loop.vnow

    def _queue_tokens(self):
        q = self.client.queue
        return [self._tok_of_pkt(p) for p in (list(q._queue) if q is not None else [])]

    async def _http(self, method, url, headers, data, timeout):
        import aiohttp
        rec = self._new_request(method, url, headers, data, timeout)
        fut = self.loop.create_future()
        rec['fut'] = fut
        try:
            if timeout:
                await asyncio.wait_for(fut, timeout)
            else:
                await fut
        except asyncio.TimeoutError:
            rec['done'] = True
            self.out.append({'k': 'reqto', 'id': rec['id']})
            raise
        rec['done'] = True
        kind, status, content = rec['reply']
        if kind == 'fail':
            raise aiohttp.ClientConnectionError('connection failed (scripted)')
        return _AioResp(status, content)

    async def _ws_connect(self, url, opts):
        import aiohttp
        conn = {'id': len(self.conns) + 1, 'url': url, 'opts': opts, 'state': 'connecting',
                'inq': asyncio.Queue(), 'out': [], 'timeout': opts.get('timeout'), 'accept': None}
        self.conns.append(conn)
        self.out.append({'k': 'wsconn', 'id': conn['id'], 'urlok': self._url_ok(url, 'websocket'),
                         'to': int(round(opts.get('timeout') / TICK)) if opts.get('timeout') else -1})
        fut = self.loop.create_future()
        conn['fut'] = fut
        try:
            await asyncio.wait_for(fut, opts.get('timeout'))
        except asyncio.TimeoutError:
            conn['state'] = 'refused'
            self.out.append({'k': 'wsconnto', 'id': conn['id']})
            raise aiohttp.client_exceptions.ServerConnectionError('timeout')
        if not conn['accept']:
            conn['state'] = 'refused'
            raise aiohttp.client_exceptions.ClientConnectionError('refused (scripted)')
        conn['state'] = 'open'
        return _AioWs(self, conn)

    def reply(self, rid, status, content):
        rec = self.reqs[rid]
        rec['reply'] = ('ok', status, content)
        if not rec['fut'].done():
            rec['fut'].set_result(True)

    def fail(self, rid):
        rec = self.reqs[rid]
        rec['reply'] = ('fail', 0, b'')
        if not rec['fut'].done():
            rec['fut'].set_result(True)

    def ws_accept(self, ok=True):
        conn = self.conns[-1]
        conn['accept'] = ok
        if not conn['fut'].done():
            conn['fut'].set_result(True)

    def ws_deliver(self, frame):
        self.conns[-1]['inq'].put_nowait(frame)

    def ws_close(self):
        conn = self.conns[-1]
        conn['state'] = 'closed'
        conn['inq'].put_nowait(_CLOSED)

    def call(self, corofn, *args, name='call'):
        self.ncall += 1
        cid = self.ncall
        rec = {'cid': cid, 'done': False, 'exc': None, 'name': name}
        self.calls[cid] = rec

        async def task():
            try:
                await corofn(*args)
            except asyncio.CancelledError:
                raise
            except BaseException as e:  # noqa
                rec['exc'] = exc_name(e)
            rec['done'] = True
            self.out.append({'k': 'ret', 'c': name, 'exc': rec['exc'] or 'none'})
        rec['task'] = self.loop.spawn(task(), name=name)
        return cid

    def app_connect(self, transports):
        tr = {'poll': ['polling'], 'ws': ['websocket'], 'both': None}[transports]

        async def go():
            await self.client.connect(self.cfg['url'], transports=tr,
                                      engineio_path=self.cfg['path'])
        return self.call(go, name='connect')

    def app_send(self, tok):
        async def go():
            await self.client.send(W.cli_payload(tok))
        return self.call(go, name='send')

    def app_disconnect(self):
        async def go():
            await self.client.disconnect()
        return self.call(go, name='disconnect')

    def app_burst(self, k, first, acc, then_disconnect=False):
        async def go():
            n = first
            for _ in range(k):
                if self.client.state != 'connected':
                    continue
                acc.append(n)
                await self.client.send(W.cli_payload('m%d' % n))
                n += 1
            if then_disconnect:
                await self.client.disconnect()
        return self.call(go, name='burst')

    def app_wait(self):
        async def go():
            await self.client.wait()
        return self.call(go, name='wait')

    def quiesce(self):
        self.loop.quiesce()

    def next_deadline(self):
        return self.loop.next_deadline()

    def set_time(self, t):
        self.loop.vnow = t
        self.loop.quiesce()


class _AioResp:
    def __init__(self, status, content):
        self.status = status
        self._content = content

    async def read(self):
        return self._content

    async def json(self):
        import aiohttp
        try:
            return json.loads(self._content.decode('utf-8'))
        except Exception:
            raise aiohttp.ContentTypeError(None, ())


class _Jar:
    def update_cookies(self, cookies):
        pass


class _AioSession:
    def __init__(self, w):
        self.w = w
        self.closed = False
        self.cookie_jar = _Jar()

    async def get(self, url, headers=None, data=None, timeout=None, **kw):
        return await self.w._http('GET', url, headers, data, getattr(timeout, 'total', timeout))

    async def post(self, url, headers=None, data=None, timeout=None, **kw):
        return await self.w._http('POST', url, headers, data, getattr(timeout, 'total', timeout))

    async def ws_connect(self, url, **opts):
        return await self.w._ws_connect(url, opts)

    async def close(self):
        self.closed = True


class _Msg:
    def __init__(self, data, typ):
        self.data = data
        self.type = typ


class _AioWs:
    def __init__(self, w, conn):
        self.w = w
        self.conn = conn

    async def send_str(self, data):
        if self.conn['state'] != 'open':
            raise OSError('closed')
        self.w.out.append({'k': 'wstx', 'f': cli_sent_token(data, 'ws')})

    async def send_bytes(self, data):
        if self.conn['state'] != 'open':
            raise OSError('closed')
        self.w.out.append({'k': 'wstx', 'f': cli_sent_token(data, 'wsbin')})

    async def receive(self):
        import aiohttp
        item = await self.conn['inq'].get()
        if item is _CLOSED:
            self.conn['inq'].put_nowait(_CLOSED)
            return _Msg(None, aiohttp.WSMsgType.CLOSED)
        return _Msg(item, aiohttp.WSMsgType.BINARY if isinstance(item, bytes)
                    else aiohttp.WSMsgType.TEXT)

    async def close(self):
        if self.conn['state'] == 'open':
            self.conn['state'] = 'closedbyclient'
            self.w.out.append({'k': 'wsclosed'})
            self.conn['inq'].put_nowait(_CLOSED)


def exc_name(e):
    from engineio import exceptions as X
    if isinstance(e, X.ConnectionError):
        return 'ConnectionError'
    if isinstance(e, ValueError) and 'disconnected state' in str(e):
        return 'ValueError'
    return 'OtherError'


def make_client_world(impl, cfg=None, seed=0, preempt=False):
    if impl == 'sync':
        return SyncClientWorld(cfg, seed=seed, preempt=preempt)
    return AsyncClientWorld(cfg, seed=seed)
