------------------------------- MODULE EioE2E -------------------------------
(***************************************************************************)
(* C10 - the end-to-end contract between a client and a server of this     *)
(* package: two FIFO channels of numbered messages and a connection bit    *)
(* per side.  Only application-level events appear.                        *)
(*   csent / ssent   messages accepted by send() while connected           *)
(*   srecv / crecv   messages handed to the other side's message handler   *)
(*   cup / sup       connect event seen and no disconnect event yet        *)
(*   cdiscs / sdiscs disconnect events, cconns / sconns connect events     *)
(***************************************************************************)
EXTENDS Naturals, Sequences, TLC

CONSTANT MaxMsg
VARIABLES csent, ssent, crecv, srecv, cup, sup, cconns, sconns, cdiscs, sdiscs
evars == <<csent, ssent, crecv, srecv, cup, sup, cconns, sconns, cdiscs, sdiscs>>

Init == /\ csent = 0 /\ ssent = 0 /\ crecv = 0 /\ srecv = 0 /\ cup = FALSE /\ sup = FALSE
        /\ cconns = 0 /\ sconns = 0 /\ cdiscs = 0 /\ sdiscs = 0

SConnect == ~sup /\ sconns = 0 /\ sup' = TRUE /\ sconns' = 1
            /\ UNCHANGED <<csent, ssent, crecv, srecv, cup, cconns, cdiscs, sdiscs>>
\* the client's connect event follows the server's (the server may already have gone again
\* while the OPEN response travelled)
CConnect == ~cup /\ cconns = 0 /\ sconns = 1 /\ cup' = TRUE /\ cconns' = 1
            /\ UNCHANGED <<csent, ssent, crecv, srecv, sup, sconns, cdiscs, sdiscs>>
CSend == cup /\ csent < MaxMsg /\ csent' = csent + 1
         /\ UNCHANGED <<ssent, crecv, srecv, cup, sup, cconns, sconns, cdiscs, sdiscs>>
SSend == sup /\ ssent < MaxMsg /\ ssent' = ssent + 1
         /\ UNCHANGED <<csent, crecv, srecv, cup, sup, cconns, sconns, cdiscs, sdiscs>>
\* delivery: the next message in order, once
SDeliver(n) == sup /\ n = srecv + 1 /\ n <= csent /\ srecv' = n
               /\ UNCHANGED <<csent, ssent, crecv, cup, sup, cconns, sconns, cdiscs, sdiscs>>
CDeliver(n) == cup /\ n = crecv + 1 /\ n <= ssent /\ crecv' = n
               /\ UNCHANGED <<csent, ssent, srecv, cup, sup, cconns, sconns, cdiscs, sdiscs>>
CDisc == cup /\ cup' = FALSE /\ cdiscs' = cdiscs + 1
         /\ UNCHANGED <<csent, ssent, crecv, srecv, sup, cconns, sconns, sdiscs>>
SDisc == sup /\ sup' = FALSE /\ sdiscs' = sdiscs + 1
         /\ UNCHANGED <<csent, ssent, crecv, srecv, cup, cconns, sconns, cdiscs>>

Next == SConnect \/ CConnect \/ CSend \/ SSend \/ CDisc \/ SDisc
        \/ \E n \in 1..MaxMsg : SDeliver(n) \/ CDeliver(n)
Spec == Init /\ [][Next]_evars

\* the contract's own invariants
NoInvention == crecv <= ssent /\ srecv <= csent
OneDisconnectEach == cdiscs <= cconns /\ sdiscs <= sconns /\ cdiscs <= 1 /\ sdiscs <= 1
UpMeansConnected == (cup => cconns = 1 /\ cdiscs = 0) /\ (sup => sconns = 1 /\ sdiscs = 0)
=============================================================================
