---------------------------- MODULE EioSidProof ----------------------------
(***************************************************************************)
(* The arithmetic core of C17, proved for every modulus M (TLAPS): two     *)
(* counters issued d < M steps apart differ.  EioSid's invariant Unique    *)
(* (checked by TLC for scaled M and on the real generator over a complete  *)
(* period) follows from it because the id embeds the counter and the       *)
(* counters of consecutive issues are consecutive modulo M.                *)
(***************************************************************************)
EXTENDS Naturals, Integers, TLAPS

Step(M, c) == (c + 1) % M

THEOREM CounterDistinct ==
    ASSUME NEW M \in Nat \ {0}, NEW a \in 0..(M - 1), NEW d \in 1..(M - 1)
    PROVE  (a + d) % M # a
<1>1. CASE a + d < M
    BY <1>1, SMT
<1>2. CASE a + d >= M
    <2>1. a + d - M \in 0..(M - 1)
        BY <1>2, SMT
    <2>2. (a + d) % M = a + d - M
        BY <1>2, <2>1, SMT
    <2>3. a + d - M # a
        BY SMT
    <2> QED BY <2>2, <2>3
<1> QED BY <1>1, <1>2, SMT

\* x % M for 0 <= x < 2M
LEMMA ModSmall ==
    ASSUME NEW M \in Nat \ {0}, NEW x \in 0..(2 * M - 1)
    PROVE  x % M = IF x < M THEN x ELSE x - M
<1>1. CASE x < M
    BY <1>1, SMT
<1>2. CASE x >= M
    <2>1. x - M \in 0..(M - 1)
        BY <1>2, SMT
    <2>2. x = M * 1 + (x - M)
        BY SMT
    <2> QED BY <1>2, <2>1, <2>2, SMT
<1> QED BY <1>1, <1>2, SMT

\* adding d after reducing, or before: the same
LEMMA ModAdd ==
    ASSUME NEW M \in Nat \ {0}, NEW x \in 0..(2 * M - 1), NEW d \in 0..(M - 1), x + d <= 2 * M - 1
    PROVE  ((x % M) + d) % M = (x + d) % M
<1>1. x % M = IF x < M THEN x ELSE x - M
    BY ModSmall
<1>2. (x + d) % M = IF x + d < M THEN x + d ELSE x + d - M
    BY ModSmall
<1>3. CASE x < M
    <2>1. (x % M) + d \in 0..(2 * M - 1)
        BY <1>1, <1>3, SMT
    <2>2. ((x % M) + d) % M = IF (x % M) + d < M THEN (x % M) + d ELSE (x % M) + d - M
        BY <2>1, ModSmall
    <2> QED BY <1>1, <1>2, <1>3, <2>2, SMT
<1>4. CASE x >= M
    <2>1. (x % M) + d \in 0..(2 * M - 1)
        BY <1>1, <1>4, SMT
    <2>2. ((x % M) + d) % M = IF (x % M) + d < M THEN (x % M) + d ELSE (x % M) + d - M
        BY <2>1, ModSmall
    <2>3. x + d >= M
        BY <1>4, SMT
    <2> QED BY <1>1, <1>2, <1>4, <2>2, <2>3, SMT
<1> QED BY <1>3, <1>4, SMT

\* consequence: the counters of any M consecutive issues (offsets i, j < M from a common start s)
\* are pairwise distinct
THEOREM WindowDistinct ==
    ASSUME NEW M \in Nat \ {0}, NEW s \in 0..(M - 1), NEW i \in 0..(M - 1), NEW j \in 0..(M - 1),
           i # j
    PROVE  (s + i) % M # (s + j) % M
<1>1. CASE i < j
    <2>1. (s + i) % M \in 0..(M - 1)
        BY SMT
    <2>2. (((s + i) % M) + (j - i)) % M = (s + j) % M
        <3>1. s + i \in 0..(2 * M - 1) /\ j - i \in 0..(M - 1) /\ (s + i) + (j - i) <= 2 * M - 1
            BY <1>1, SMT
        <3>2. (s + i) + (j - i) = s + j
            BY SMT
        <3> QED BY <3>1, <3>2, ModAdd
    <2>3. j - i \in 1..(M - 1)
        BY <1>1, SMT
    <2> QED BY <2>1, <2>2, <2>3, CounterDistinct
<1>2. CASE j < i
    <2>1. (s + j) % M \in 0..(M - 1)
        BY SMT
    <2>2. (((s + j) % M) + (i - j)) % M = (s + i) % M
        <3>1. s + j \in 0..(2 * M - 1) /\ i - j \in 0..(M - 1) /\ (s + j) + (i - j) <= 2 * M - 1
            BY <1>2, SMT
        <3>2. (s + j) + (i - j) = s + i
            BY SMT
        <3> QED BY <3>1, <3>2, ModAdd
    <2>3. i - j \in 1..(M - 1)
        BY <1>2, SMT
    <2> QED BY <2>1, <2>2, <2>3, CounterDistinct
<1> QED BY <1>1, <1>2, SMT
=============================================================================
