"""C15 - every request and API call completes with a well-formed gateway response."""
import random
import re

from . import core
from .. import tlc
from ..common import Check, load_known_findings
from ..harness import driver

INVS = ['TypeOK', 'C15_NoStuckJoin', 'C05_EventShape']


def stuck_join_handler(ck, job, r):
    """C15_NoStuckJoin counterexample.  Known finding F6 iff every stuck joiner is an application
    disconnect(sid) / disconnect() (kinds "api", "all", "allc") waiting for a session that is on
    polling; F6b iff it is one of those on an upgraded session in the threaded model; a stuck
    request, or anything else, is a violation."""
    st = tlc.parse_state(r.trace[-1]) if r.trace else {}
    joiners = st.get('joiners') or []
    g = st.get('g') or {}
    if not joiners or not g:
        return False
    opn, _ = load_known_findings('C15')
    listed = {e['id']: e for e in opn}
    sync_model = job['consts'].get('ImplJoinLatch') != 'TRUE'
    # the joiners that can never return (the invariant is about quiescent states: no poll is
    # pending for them and no writer runs)
    polls = {p['s'] for p in st.get('polls') or []}
    fids = set()
    for j in joiners:
        if j['s'] in polls or tlc.fn_get(st.get('wsw'), j['s']) in ('new', 'run'):
            continue
        if j['kind'] not in ('api', 'all', 'allc'):
            return False
        upged = tlc.fn_get(g['ss'], j['s'])['upged']
        if not upged and 'F6' in listed:
            fids.add('F6')
        elif upged and sync_model and 'F6b' in listed:
            fids.add('F6b')
        else:
            return False
    if not fids:
        return False
    for fid in sorted(fids):
        ck.known_finding(fid, listed[fid]['what'])
    ck.cov.setdefault('known_finding_counterexamples', []).append(
        {'model': job['name'], 'joiners': joiners, 'length': len(r.trace),
         'findings': sorted(fids)})
    return True


def run(tier):
    ck = Check('C15', tier)
    th = tier == 'thorough'
    A = core.alpha
    jobs = [
        dict(name='requests never block: polling session, every body class, poll pending or not, '
                  'clock (no application disconnect)',
             consts=core.consts(Alpha=A('open', 'poll', 'post', 'send', 'tick'),
                                BodyProfile='"types"', MaxMsg=1, Horizon=4, MaxReq=5 if th else 4,
                                MaxQ=4, MaxEv=3),
             invariants=INVS, min_states=500),
        dict(name='requests never block: websocket / mid-upgrade sessions',
             consts=core.consts(Alpha=A('open', 'openws', 'upgrade', 'wsio', 'post', 'poll'),
                                BodyProfile='"close"', FrameProfile='"handshake"', MaxReq=5,
                                MaxQ=4, MaxEv=3),
             invariants=INVS, min_states=500),
        dict(name='application disconnect(sid) on polling sessions (known finding F6 expected)',
             consts=core.consts(Alpha=A('open', 'poll', 'api', 'send'), MaxMsg=1, MaxReq=4, MaxQ=4),
             invariants=['C15_NoStuckJoin'], on_violation=stuck_join_handler, min_states=20),
        dict(name='application disconnect(sid) on websocket sessions, threaded (known finding F6b '
                  'expected: needs a particular thread schedule)',
             consts=core.consts(Alpha=A('openws', 'api', 'send', 'wsio'), FrameProfile='"steady"',
                                MaxMsg=1, MaxReq=3, MaxQ=4, MaxEv=2),
             invariants=INVS, on_violation=stuck_join_handler, min_states=20),
        dict(name='application disconnect(sid) on websocket sessions returns, asyncio',
             consts=core.consts(Alpha=A('openws', 'api', 'send', 'wsio'), FrameProfile='"steady"',
                                ImplJoinLatch='TRUE', ImplWsReadTimeout='TRUE',
                                MaxMsg=1, MaxReq=3, MaxQ=4, MaxEv=2),
             invariants=INVS, min_states=100),
        dict(name='application disconnect() of all clients, threaded: sequential closes (known '
                  'finding F6 expected on polling sessions)',
             consts=core.consts(Sid='{1, 2}', Alpha=A('open', 'openws', 'poll', 'apiall', 'send'),
                                MaxMsg=1, MaxReq=5, MaxQ=4, MaxEv=3),
             invariants=INVS, on_violation=stuck_join_handler, min_states=20),
        dict(name='application disconnect() of all clients, asyncio: concurrent closes (known '
                  'finding F6 expected on polling sessions)',
             consts=core.consts(Sid='{1, 2}', Alpha=A('open', 'openws', 'poll', 'apiall', 'send'),
                                ImplJoinLatch='TRUE', ImplWsReadTimeout='TRUE',
                                MaxMsg=1, MaxReq=5, MaxQ=4, MaxEv=3),
             invariants=INVS, properties=['C15_DisconnectAllClosesAll'],
             on_violation=stuck_join_handler, min_states=20),
        dict(name='application disconnect() with only websocket clients returns and leaves no '
                  'session, asyncio',
             consts=core.consts(Sid='{1, 2}', Alpha=A('openws', 'apiall', 'send', 'wsio', 'sess'),
                                FrameProfile='"steady"', ImplJoinLatch='TRUE',
                                ImplWsReadTimeout='TRUE', MaxMsg=1, MaxReq=4, MaxQ=4, MaxEv=3),
             invariants=INVS, properties=['C15_DisconnectAllClosesAll', 'C15_DisconnectAllEmpties'],
             min_states=100),
    ]
    core.run_tlc_jobs(ck, jobs)
    core.l2_models(ck, th, liveness=True)

    seed = ck.seed
    n = 300 if th else 100
    w = {'anyreq': 10, 'post': 10, 'poll': 6, 'disconnect': 0, 'send': 4, 'wsframe': 6,
         'upgrade': 2, 'openws': 1, 'wsdrop': 2, 'tick': 6, 'openrej': 1}
    w_api = dict(w, disconnect=3, disconnectall=1, transport=2)
    plans = []
    for impl in ('sync', 'async'):
        for mon in (False, True):
            cfg = {'ping_interval': 8, 'ping_timeout': 4, 'monitor': mon}
            plans.append(dict(what='random histories with refused requests and malformed bodies at '
                                   'every point, client gone at the end, monitor=%s' % mon,
                              impl=impl, cfg=cfg, nslots=2,
                              scripts=c15_scripts(seed + 1, n, w)))
        plans.append(dict(what='same with application disconnect(sid) calls', impl=impl,
                          cfg={'ping_interval': 8, 'ping_timeout': 4, 'monitor': True}, nslots=2,
                          scripts=c15_scripts(seed + 2, n // 2, w_api)))
    pp = core.preempt_plan(seed, 300 if th else 40, 26, 2, dict(w_api, anyreq=0),
                           {'ping_interval': 8, 'ping_timeout': 4, 'monitor': True},
                           'requests, malformed bodies and application disconnect calls')
    plans.append(pp)
    # asyncio: the same scripts with coroutine handlers that really suspend (the handlers of the
    # other plans never yield to the loop); judged with outputs as a bag / by the history
    # contract, and compared with the non-suspending run: a handler that suspends must not change
    # which application calls return
    api_scripts = c15_scripts(seed + 2, n // 2, w_api)
    plans.append(dict(what='application disconnect calls with coroutine handlers that suspend',
                      impl='async', relax=True,
                      cfg={'ping_interval': 8, 'ping_timeout': 4, 'monitor': True,
                           'handlers_yield': True}, nslots=2, scripts=api_scripts))
    done = core.conform(ck, plans)
    by_what = {(p['impl'], p['what']): facts for p, traces, facts, v in done}
    plain = by_what.get(('async', 'same with application disconnect(sid) calls'))
    susp = by_what.get(('async', 'application disconnect calls with coroutine handlers that suspend'))
    if plain and susp:
        ndiff = 0
        for fa, fb in zip(plain, susp):
            extra = sorted(set(map(str, fb['blocked'])) - set(map(str, fa['blocked'])))
            if extra and ndiff < 3:
                ndiff += 1
                ck.violation('asyncio: application call(s) %s return with plain handlers but never '
                             'return when the coroutine handlers suspend' % extra,
                             {'impl': 'async', 'cfg': fb['cfg'], 'nslots': 2, 'script': fb['script'],
                              'blocked': extra, 'sig': fb.get('blocked_sig'), 'kind': 'blocked'})
        ck.cov['suspending_handler_pairs'] = len(plain)
    core.l2_conform(ck, seed, 300 if th else 60)
    # ---- completion, gateway protocol, status set ------------------------------------------
    nreq = 0
    for p, traces, facts, v in done:
        core.blocked_findings(ck, 'C15', p, facts)
        for f in facts:
            for rid, r in f['reqs'].items():
                if r.get('api'):
                    continue
                nreq += 1
                bad = gateway_violation(p['impl'], r)
                if bad:
                    ck.violation('gateway response malformed (%s): %s' % (p['impl'], bad),
                                 {'impl': p['impl'], 'cfg': f['cfg'], 'script': f['script'],
                                  'request': rid, 'gw': r['gw'], 'kind': 'gateway'})
                    break
    ck.cov['requests_checked_for_gateway_form'] = nreq
    upgrade_header_alone(ck)
    # application send() calls racing the heartbeat threads: the threaded server with this
    # package's threaded client on one pre-emptive hub, time.time() a switch point, a send()
    # issued at the very moment the clock advances.  No call may raise (the repaired defect F28
    # raised TypeError out of send() here) and none may stay blocked.
    from . import c10
    itr, imeta = c10.run_idle_preempt(ck, seed + 13, 300 if th else 60, end=False)
    ck.add_conformance('application send() calls issued while ping threads, PONGs and the service '
                       'task are in flight (threaded server + threaded client on one pre-emptive hub, '
                       'time.time() a switch point, long pre-emptions inside the heartbeat checker): '
                       'no application call raises', len(itr),
                       sum(1 for m_ in imeta if not m_['api_exceptions']))
    ck.cov['rule'] = ('case = one environment script (session histories interleaved with requests '
                      'that must be refused, malformed bodies, API calls) on one implementation; at '
                      'the end the clock runs I+3T+2 past the last input and nothing may be blocked')
    ck.assume('upgrade (websocket-type) requests are excluded from the completion requirement, as in '
              'the statement; their gateway event order is still checked')
    return ck.finish()


def upgrade_header_alone(ck):
    """GET ?transport=websocket without a sid, with an Upgrade header that no Connection header
    names: by HTTP's rules not an upgrade request, so it must be answered like any other request.
    (Outside the scripts because its effect - a session - is not part of EioServer's refusals.)"""
    from ..harness import world as W
    from ..harness.driver import summarize
    opn, _ = load_known_findings('C15')
    listed = {e['id']: e for e in opn}
    n = 0
    for impl in ('sync', 'async'):
        for hdrs in ({'Upgrade': 'websocket'}, {'Upgrade': 'websocket', 'Connection': 'keep-alive'},
                     {'Upgrade': 'WebSocket', 'Connection': 'close'}):
            w = W.make_world(impl, {'ping_interval': 8, 'ping_timeout': 4})
            try:
                rid = w.http('GET', 'transport=websocket&EIO=4', headers=hdrs)
                w.quiesce()
                sm = summarize(w.reqs[rid])
                bad = gateway_violation(impl, sm)
                if not bad and not sm['done']:
                    bad = 'request never completed'
                n += 1
                if bad:
                    if 'F26' in listed:
                        ck.known_finding('F26', listed['F26']['what'])
                    else:
                        ck.violation('Upgrade header without Connection: upgrade on an open: %s (%s)'
                                     % (bad, impl), {'impl': impl, 'headers': hdrs, 'gw': sm['gw'],
                                                     'kind': 'gateway'})
            finally:
                w.close()
    ck.cov['upgrade_header_alone_probes'] = n


def c15_scripts(seed, n, w):
    rng = random.Random(seed)
    out = []
    kinds = sorted(driver.ANYREQ)
    garb = ['GARBAGE', 'GARBAGE1', 'GARBAGE2', 'GARBAGE3', 'GARBAGE4', 'GARBAGE5', 'GARBAGE6',
            'GARBAGE7', 'EMPTYBODY', 'TOOMANY17', 'TOOMANY40']
    for _ in range(n):
        sc = driver.gen_script(rng, 2, 26, w, tstep=(1, 10))
        for op in sc:
            if op['op'] == 'anyreq':
                op['kind'] = rng.choice(kinds)
            if op['op'] == 'post' and rng.random() < 0.4:
                op['body'] = [rng.choice(garb)]
        out.append(sc)
    return out


STATUS_OK = {200, 400, 401, 405}


def gateway_violation(impl, r):
    gw = r['gw']
    if r['kind'] == 'http':
        if r['exc']:
            return 'exception escaped: %s' % r['exc']
        if not r['done']:
            return None        # reported by blocked_findings
        if impl == 'sync':
            names = [g[0] for g in gw]
            if names.count('start_response') != 1:
                return 'start_response called %d times' % names.count('start_response')
            if names[0] != 'start_response' and 'chunk' in names and \
                    names.index('chunk') < names.index('start_response'):
                return 'body before start_response'
            st = gw[names.index('start_response')][1]
            if not re.match(r'^\d{3} \S', st):
                return 'bad status line %r' % st
            if int(st[:3]) not in STATUS_OK:
                return 'status %s' % st
            if any(g[0] == 'chunk' and g[1] != 'bytes' for g in gw):
                return 'body chunk is not bytes'
        else:
            sends = [g[1] for g in gw if g[0] == 'send']
            if sends != ['http.response.start', 'http.response.body']:
                return 'ASGI events %r' % sends
            if int(r['status']) not in STATUS_OK:
                return 'status %s' % r['status']
    else:
        if impl == 'async':
            sends = [g[1] for g in gw if g[0] == 'send']
            if sends and sends[0] not in ('websocket.accept', 'websocket.close'):
                return 'websocket scope: first event %s' % sends[0]
            if any(not x.startswith('websocket.') for x in sends):
                return 'websocket scope: non-websocket event in %r' % sends
            if 'websocket.close' in sends and sends.index('websocket.close') != len(sends) - 1 \
                    and sends.count('websocket.close') == 1:
                return 'websocket scope: events after close %r' % sends
    return None


def replay(path):
    import json
    with open(path) as f:
        if json.load(f).get('kind') == 'e2e':
            from . import c10
            return c10.replay(path, 'C15')
    return core.replay_server_trace('C15', path)
