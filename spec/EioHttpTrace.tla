---------------------------- MODULE EioHttpTrace ----------------------------
(* Validation of what the real servers answered, request class by request   *)
(* class, against the decision tables of EioHttp.  One record per request.  *)
EXTENDS EioHttp, Json, IOUtils, TLC, TLCExt

Tr == JsonDeserialize(IOEnv.TRACE_FILE)
VARIABLES tid, l
tvars == <<tid, l>>

ToSeq(x) == x   \* JSON arrays arrive as sequences

Ok(e) ==
    CASE e.k = "origin" ->
            LET r == OriginGate(e.cfg, e.cred, e.oc, e.fwd)
            IN /\ e.blocked = r.blocked
               /\ (r.blocked => ~e.effect)                 \* before anything else
               /\ (e.hdr => /\ (~r.blocked => e.acao = r.acao)
                            /\ (r.blocked => ~e.acao)
                            /\ (e.acac => r.acac)          \* credentials only when enabled
                            /\ (~r.blocked => e.acac = r.acac)
                            /\ (e.acaoval = TRUE))         \* ACAO value is the request's Origin
      [] e.k = "admit" ->
            LET r == Admit(e.m, e.eio, e.tr, e.sk, e.uh, e.j, e.cfg)
            IN /\ e.status \in r.st
               /\ e.eff = r.eff
      [] e.k = "open" ->
            IF Accepts(e.h)
            THEN /\ e.status = 200
                 /\ e.first = "OPEN"
                 /\ e.sidok /\ e.piok /\ e.ptok /\ e.mpok
                 /\ e.upgrades = UpgradesOffered(e.allowupg, e.cfgt, e.wsavail, e.opentr)
                 /\ e.cookieok
                 /\ e.sessions = 1                          \* exactly one session created
                 /\ e.addressable
            ELSE /\ e.status = 401
                 /\ e.bodyval = CarriesValue(e.h)           \* carries the value when truthy
                 /\ e.bodyok
                 /\ e.sessions = 0
                 /\ ~e.addressable                          \* the id never becomes addressable
      [] e.k = "compress" ->
            /\ e.declared = Compress(e.enabled, e.size, e.threshold, e.offered)
            /\ e.lossless
      [] e.k = "jsonp" -> e.onestatement /\ e.literalok
      [] OTHER -> FALSE

TraceInit == tid \in 1..Len(Tr) /\ l = 1
Step == l <= Len(Tr[tid]) /\ Ok(Tr[tid][l]) /\ l' = l + 1 /\ UNCHANGED tid
Finish == l = Len(Tr[tid]) + 1 /\ PrintT(<<"ACC", tid>>) /\ l' = l + 1 /\ UNCHANGED tid
TraceSpec == TraceInit /\ [][Step \/ Finish]_tvars
=============================================================================
