"""C12 - request admission: only well-addressed version-4 requests are let in."""
import itertools
import random

from ..common import Check, load_known_findings
from ..harness import world as W
from . import httpcommon as H

METHODS = {'GET': 'GET', 'POST': 'POST', 'OPTIONS': 'OPTIONS', 'OTHER': None}
OTHER_METHODS = ['PUT', 'DELETE', 'HEAD', 'PATCH']
EIO = {'absent': '', '3': '&EIO=3', '4': '&EIO=4', '5': '&EIO=5', 'dup': '&EIO=4&EIO=4'}
TR = {'absent': '', 'polling': 'transport=polling', 'websocket': 'transport=websocket',
      'bogus': 'transport=bogus'}
J = {'absent': '', 'numeric': '&j=3', 'nonnumeric': '&j=abc'}
SK = ['absent', 'livePolling', 'liveUpgraded', 'midUpgrade', 'closed', 'unknown', 'rejected']
TCFG = {'both': None, 'polling': ['polling'], 'websocket': ['websocket']}


def reach(w, sk, tcfg):
    """Drive the world to a session of kind sk; returns (sid, slot) or None if unreachable."""
    if sk == 'absent':
        return None, None
    if sk == 'unknown':
        return 'nosuchsessionid00000', None
    if tcfg == 'websocket':
        if sk in ('livePolling', 'midUpgrade'):
            return False
        if sk == 'rejected':
            w.connect_plan = [('reject', False)]
            H.run_request(w, 'GET', 'transport=websocket&EIO=4', ws=True)
            return (w.sids.get(1), 1) if w.sids else False
        H.run_request(w, 'GET', 'transport=websocket&EIO=4', ws=True)
        if sk == 'closed':
            H.run_request(w, 'POST', 'transport=websocket&EIO=4&sid=' + w.sids[1], body=b'1')
            so = w.socks[1]
            if not (so.closed and w.sids[1] in w.server.sockets):
                return False
        return w.sids[1], 1
    if sk == 'rejected':
        w.connect_plan = [('reject', False)]
        H.run_request(w, 'GET', 'transport=polling&EIO=4')
        return w.sids[1], 1
    H.run_request(w, 'GET', 'transport=polling&EIO=4')
    sid = w.sids[1]
    if sk == 'closed':
        H.run_request(w, 'POST', 'transport=polling&EIO=4&sid=' + sid, body=b'1')
    elif sk in ('midUpgrade', 'liveUpgraded'):
        if tcfg == 'polling':
            return False
        H.run_request(w, 'GET', 'transport=websocket&EIO=4&sid=' + sid, ws=True, slot=1)
        if sk == 'liveUpgraded':
            w.ws_frame(1, '2probe')
            w.quiesce()
            H.run_request(w, 'GET', 'transport=polling&EIO=4&sid=' + sid, slot=1)   # collects NOOP
            w.ws_frame(1, '5')
            w.quiesce()
    return sid, 1


HV = {'upgonly': {'Upgrade': 'websocket'}, 'connonly': {'Connection': 'Upgrade'},
      'upgkeep': {'Upgrade': 'websocket', 'Connection': 'keep-alive'}}


def one_cell(impl, cell, rng, hv=None):
    """hv: an incomplete set of upgrade headers sent with a cell whose uh is False (by HTTP's
    rules such a request is not an upgrade request: the table's answer for uh = FALSE applies)."""
    m, eio, tr, sk, uh, j, tcfg = cell
    if uh and sk == 'midUpgrade':
        return None     # a second, concurrent upgrade socket: outside the environment model
    if uh and sk == 'absent' and tr in ('absent', 'polling') and m == 'GET':
        return None     # websocket handshake headers on a polling open: inconsistent request
    w = W.make_world(impl, {'transports': TCFG[tcfg], 'ping_interval': 400, 'ping_timeout': 200})
    try:
        got = reach(w, sk, tcfg)
        if got is False:
            return None
        sid, slot = got
        if slot and sk in ('livePolling',):
            w.app_send(slot)
            w.quiesce()
        q = TR[tr] + EIO[eio] + J[j]
        if sid is not None:
            q += '&sid=' + sid
        q = q.lstrip('&')
        method = METHODS[m] or rng.choice(OTHER_METHODS)
        hdrs = {'Upgrade': 'websocket', 'Connection': 'Upgrade'} if uh else dict(HV.get(hv) or {})
        ws = uh and method == 'GET'
        before = H.state_digest(w)
        nsl = len(w.slots)
        w.out = []
        body = (b'4' + W.cli_payload('m1').encode()) if method in ('POST', 'PUT', 'PATCH') else b''
        if ws:
            rid = w.ws_request(q, slot=slot)
        else:
            rid = w.http(method, q, headers=hdrs, body=body, slot=slot)
        w.quiesce()
        r = w.reqs[rid]
        after = H.state_digest(w)
        st = H.status_of(r) if (r.done or r.kind == 'ws') else 0
        eff = classify_effect(w, r, before, after, nsl, slot, sk)
        if st == 0:
            st = 200      # a long poll that blocks has been admitted
        rec = {'k': 'admit', 'm': m, 'eio': eio, 'tr': tr, 'sk': sk, 'uh': bool(uh), 'j': j,
               'cfg': tcfg, 'status': st, 'eff': eff}
        if hv:
            rec['hv'] = hv
        return rec
    finally:
        w.close()


def classify_effect(w, r, before, after, nsl, slot, sk):
    if len(w.slots) > nsl:
        new = len(w.slots)
        if w.sids[new] in w.server.sockets:
            return 'openws' if r.kind == 'ws' else 'open'
        return 'rejected-open'
    if r.kind == 'ws' and r.conn.accepted:
        return 'upgrade'
    outs = [o for o in w.out if o.get('k') == 'resp' and o.get('rid') == r.rid]
    if r.kind == 'http' and not r.done:
        return 'poll'
    if outs and outs[0]['status'] == 200 and outs[0]['pk'] == ['NOOP']:
        return 'noop'
    if before == after:
        return 'none'
    # only the reaping of an already closed session is not an effect
    b2 = dict(before, table=None)
    a2 = dict(after, table=None)
    if sk == 'closed' and b2 == a2:
        return 'none'
    if outs and outs[0]['status'] == 200 and any(p.startswith('M') for p in outs[0]['pk']):
        return 'poll'
    if before['events'] != after['events'] and r.kind == 'http':
        return 'post' if any(g[0] in ('start_response', 'send') for g in r.gw) and \
            H.status_of(r) in (200, 400) and 'msg:' in after['events'] else 'changed'
    return 'changed'


def cells(tier, rng):
    doms = [list(METHODS), list(EIO), list(TR), SK, [False, True], list(J), list(TCFG)]
    allc = list(itertools.product(*doms))
    if tier == 'thorough':
        return allc
    # quick: every (method, sid kind, upgrade headers, configured transports) with the other
    # factors at their nominal value, all single-factor sweeps around nominal cells, plus a
    # random sample
    pick = set()
    for m in METHODS:
        for sk in SK:
            for uh in (False, True):
                for c in TCFG:
                    for tr in TR:
                        pick.add((m, '4', tr, sk, uh, 'absent', c))
                    for e in EIO:
                        pick.add((m, e, 'polling', sk, uh, 'absent', c))
                    for j in J:
                        pick.add((m, '4', 'polling', sk, uh, j, c))
    for c in rng.sample(allc, 600):
        pick.add(c)
    return sorted(pick, key=repr)


def run(tier):
    ck = Check('C12', tier)
    H.tlc_tables(ck, 'EioHttp decision tables: facts over every cell (Admit: 10 080 cells)')
    rng = random.Random(ck.seed)
    cs = cells(tier, rng)
    recs, metas = [], []
    skipped = 0
    for impl in ('sync', 'async'):
        for cell in cs:
            rec = one_cell(impl, cell, rng)
            if rec is None:
                skipped += 1
                continue
            recs.append(rec)
            metas.append({'impl': impl, 'cell': cell})
            ck.distinct([impl] + list(cell))
    traces, v = H.validate(ck, recs, 'admission: %d cells of method x EIO x transport x sid kind x '
                                     'upgrade headers x JSONP index x configured transports, each from a '
                                     'fresh server driven to the sid kind, 2 servers (%d unreachable '
                                     'combinations skipped)' % (len(cs), skipped))
    bad = 0
    for ti in v.rejected:
        for jx, rec in enumerate(traces[ti]):
            exp = admit(rec)
            if rec['status'] not in exp[0] or rec['eff'] != exp[1]:
                bad += 1
                if bad <= 5:
                    ck.violation('admission decision contradicts EioHttp!Admit (%s): observed status '
                                 '%s effect %s, table allows status %s effect %s for %r' % (
                                     metas[ti * 400 + jx]['impl'], rec['status'], rec['eff'],
                                     sorted(exp[0]), exp[1], rec), {'record': rec,
                                                                    'meta': metas[ti * 400 + jx]})
    if v.rejected and not bad:
        ck.violation('trace rejected', {'n': len(v.rejected)})
    header_variants(ck, rng)
    ck.sample(recs[5])
    ck.cov['rule'] = ('case = one request class (cell) issued to a fresh server driven to the named '
                      'session kind; the effect is classified from the difference of the complete '
                      'projected state before / after; distinct by (server, cell)')
    ck.assume('requests with an incomplete pair of upgrade headers (Upgrade without Connection: '
              'upgrade, or the reverse) are judged by the table row of a request without upgrade '
              'headers, which is what HTTP makes of them')
    ck.assume('a refused websocket-type request is recorded as 499 (the ASGI websocket scope has no '
              'status); either 400 or 405 is accepted when a bad method coincides with another reason')
    return ck.finish()


def header_variants(ck, rng):
    """Cells without upgrade headers, re-issued with an incomplete pair of them."""
    opn, _ = load_known_findings('C12')
    listed = {e['id']: e for e in opn}
    recs, metas = [], []
    for impl in ('sync', 'async'):
        for m in ('GET', 'POST'):
            for tr in TR:
                for sk in SK:
                    for c in TCFG:
                        for hv in HV:
                            rec = one_cell(impl, (m, '4', tr, sk, False, 'absent', c), rng, hv=hv)
                            if rec is None:
                                continue
                            recs.append(rec)
                            metas.append(impl)
                            ck.distinct([impl, m, tr, sk, c, hv])

    def contradicts(rec):
        exp = admit(rec)
        return rec['status'] not in exp[0] or rec['eff'] != exp[1]

    def is_f26(rec):
        # the gate of handle_request looks at the Upgrade header alone
        return rec['m'] == 'GET' and rec['tr'] == 'websocket' and rec.get('hv') in ('upgonly', 'upgkeep')
    known = [i for i, r in enumerate(recs) if contradicts(r) and is_f26(r) and 'F26' in listed]
    if known:
        ck.known_finding('F26', listed['F26']['what'])
        ck.cov['f26_cells'] = len(known)
    rest = [r for i, r in enumerate(recs) if i not in set(known)]
    rmeta = [m_ for i, m_ in enumerate(metas) if i not in set(known)]
    traces, v = H.validate(ck, rest, 'admission with an incomplete pair of upgrade headers (Upgrade '
                                     'alone, Upgrade + Connection: keep-alive, Connection: Upgrade '
                                     'alone): judged as requests without upgrade headers')
    nbad = 0
    for ti in v.rejected:
        for jx, rec in enumerate(traces[ti]):
            if contradicts(rec):
                nbad += 1
                if nbad <= 5:
                    exp = admit(rec)
                    ck.violation('admission decision contradicts EioHttp!Admit (%s, incomplete upgrade '
                                 'headers %s): observed status %s effect %s, table allows status %s '
                                 'effect %s for %r' % (rmeta[ti * 400 + jx], rec.get('hv'),
                                                       rec['status'], rec['eff'], sorted(exp[0]),
                                                       exp[1], rec), {'record': rec})
    if v.rejected and not nbad:
        ck.violation('trace rejected (header variants)', {'n': len(v.rejected)})


def admit(e):
    m, eio, tr, sk, uh, j, cfg = e['m'], e['eio'], e['tr'], e['sk'], e['uh'], e['j'], e['cfg']
    eff_tr = 'polling' if tr == 'absent' else tr
    allowed = {'both': {'polling', 'websocket'}, 'polling': {'polling'}, 'websocket': {'websocket'}}[cfg]
    live = sk in ('livePolling', 'liveUpgraded', 'midUpgrade')
    ok = eff_tr in allowed and (sk != 'absent' or eio == '4') and j != 'nonnumeric'
    if ok:
        if m == 'GET':
            if sk == 'absent':
                ok = eff_tr == 'polling' or (eff_tr == 'websocket' and uh)
            else:
                ok = live and ((sk in ('livePolling', 'midUpgrade') and eff_tr == 'polling') or
                               (sk == 'liveUpgraded' and eff_tr == 'websocket') or
                               (sk == 'livePolling' and uh and eff_tr == 'websocket'))
        elif m == 'POST':
            ok = live
        elif m == 'OPTIONS':
            ok = True
        else:
            ok = False
    ws = uh and m == 'GET'
    if not ok:
        return ({499, 400} if ws else ({405, 400} if m == 'OTHER' else {400}), 'none')
    if m == 'OPTIONS':
        return ({200}, 'none')
    if m == 'POST':
        return ({200, 400}, 'post')
    if sk == 'absent':
        return ({101}, 'openws') if eff_tr == 'websocket' else ({200}, 'open')
    if sk == 'liveUpgraded':
        return ({499}, 'none') if uh else ({200}, 'noop')
    if sk == 'midUpgrade':
        return ({200}, 'noop')
    if uh:
        return ({101}, 'upgrade')
    return ({200}, 'poll')


def replay(path):
    print(open(path).read()[:3000])
    return 1
