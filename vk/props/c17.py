"""C17 - session ids unique, URL-safe, unguessable.

Spec: EioSid.tla (counter modulo M, adversarial random source, sliding window of M ids).
TLC:  exhaustive for scaled M from every start value: Unique, CountersConsecutive.
Conformance: the real generate_id() of both servers with the OS random source interposed
(os.urandom / random._urandom, which secrets.token_bytes reaches) returning adversarial
outputs; windows of issues starting at many counter values (including across every 2^k
boundary and the 2^24 wrap) validated by TLC against EioSid with M = 2^24.  Thorough tier:
one full period of 2^24 issues from the real generator under a constant random source.
"""
import base64
import os
import random as _random
import string

from .. import tlc, tracecheck
from ..common import Check, MachineryError

ALPHABET = set(string.ascii_letters + string.digits + '_-')
M24 = 1 << 24


class Source:
    """Interposed OS random source."""
    def __init__(self):
        self.mode = 'const'
        self.calls = []       # (nbytes, returned) for the current issue
        self.rng = _random.Random(1)
        self.flip = 0

    def __call__(self, n):
        if self.mode == 'const':
            out = b'\x00' * n
        elif self.mode == 'ff':
            out = b'\xff' * n
        elif self.mode == 'period2':
            self.flip ^= 1
            out = bytes([0xaa if self.flip else 0x55]) * n
        else:
            out = bytes(self.rng.getrandbits(8) for _ in range(n))
        self.calls.append((n, out))
        return out


def install_source(src):
    import random
    import os as _os
    random._urandom = src
    _os.urandom = src
    import secrets
    secrets._sysrand = random.SystemRandom()


def decode_id(sid):
    if not isinstance(sid, str):
        return None
    try:
        raw = base64.b64decode(sid.replace('_', '/').replace('-', '+'), validate=True)
    except Exception:
        return None
    return raw


def make_servers():
    import engineio
    out = []
    out.append(('Server', engineio.Server(async_mode='threading')))
    out.append(('AsyncServer', engineio.AsyncServer(async_mode='asgi')))
    return out


def observe(server, src, intern):
    src.calls.clear()
    sid = server.generate_id()
    raw = decode_id(sid)
    req = sum(n for n, _ in src.calls)
    got = b''.join(o for _, o in src.calls)
    wf = isinstance(sid, str) and len(sid) == 20 and set(sid) <= ALPHABET and \
        raw is not None and len(raw) == 15
    r = ctr = -1
    if wf:
        rb = raw[:12]
        ctr = int.from_bytes(raw[12:], 'big')
        # the embedded 96 bits must be bytes the OS source returned during this call
        wf = len(got) >= 12 and rb in got
        r = intern.setdefault(rb, len(intern))
    return {'r': r, 'ctr': ctr, 'wf': bool(wf), 'req': req, 'id': sid}


def jump(server, c):
    """Move the generator to counter value c (there is no public way short of c issues)."""
    if hasattr(server, 'sequence_number'):
        server.sequence_number = c
        return True
    return False


def tlaps_lemma(ck):
    """EioSidProof!CounterDistinct ((a + d) % M # a for 0 < d < M, every M) checked by tlapm: the
    reason why M consecutive counters - hence ids - differ, independent of the scaled M TLC uses.
    A proof that no longer goes through is a machinery error, not a verdict on the code."""
    import shutil
    import subprocess
    exe = shutil.which('tlapm')
    if exe is None:
        ck.assume('tlapm not found: the TLAPS lemma EioSidProof!CounterDistinct was not re-checked')
        return
    wd = tlc.workdir('tlaps-')
    p = subprocess.run([exe, '--toolbox', '0', '0', 'EioSidProof.tla'], cwd=wd,
                       stdout=subprocess.PIPE, stderr=subprocess.STDOUT, timeout=600)
    out = p.stdout.decode('utf-8', 'replace')
    import re
    m = re.search(r'All (\d+) obligations proved', out)
    if not m:
        raise MachineryError('TLAPS: EioSidProof not proved\n' + out[-2000:])
    ck.cov['tlaps'] = {'module': 'EioSidProof', 'theorems': ['CounterDistinct', 'ModSmall', 'ModAdd', 'WindowDistinct'],
                       'obligations_proved': int(m.group(1))}


def run(tier):
    ck = Check('C17', tier)
    thorough = tier == 'thorough'
    # ---- 0. TLAPS: the arithmetic core for every modulus -------------------------------
    tlaps_lemma(ck)
    # ---- 1. TLC on the specification --------------------------------------------------
    for m in ([2, 4, 8, 16] if thorough else [2, 4, 8]):
        consts = {'M': m, 'Rnd': '{0, 1}'}
        r = tlc.run('EioSid', tlc.cfg_text(
            spec='Spec', constants=consts,
            invariants=['TypeOK', 'Unique', 'CountersConsecutive']),
            coverage=True, constants=consts)
        tlc.must_pass(r, 'EioSid M=%d' % m)
        ck.add_tlc(r, 'exhaustive, every start value, adversarial random source')
        if r.violated:
            ck.violation('EioSid invariant %s violated for M=%d' % (r.violated, m),
                         {'tlc': r.out[-4000:]})
        if r.coverage.get('Issue', (0, 0))[0] == 0:
            raise MachineryError('vacuity: Issue never taken')
    # negative control: a counter with too short a period must violate Unique
    neg = tlc.run('EioSidNeg', tlc.cfg_text(
        spec='NegSpec', constants={'M': 8, 'Rnd': '{0}', 'P': 4}, invariants=['Unique']))
    if neg.violated != 'Unique':
        raise MachineryError('negative control: short-period counter not detected\n' + neg.out[-2000:])
    ck.cov['negative_controls'] = ['EioSidNeg (period 4 < M=8): Unique violated as expected']

    # ---- 2. conformance: real generate_id ---------------------------------------------
    src = Source()
    install_source(src)
    traces, meta = [], []
    rng = _random.Random(ck.seed)
    starts = {0, 1, 2}
    for k in range(1, 25):
        for d in (-2, -1, 0, 1):
            starts.add(((1 << k) + d) % M24)
    for _ in range(40 if thorough else 10):
        starts.add(rng.randrange(M24))
    wlen = 24 if thorough else 10
    for name, server in make_servers():
        for mode in ('const', 'ff', 'period2', 'random'):
            for c in sorted(starts):
                src.mode = mode
                intern = {}
                if not jump(server, c):
                    ck.assume('generator has no settable counter: windows start at 0 only')
                tr = [observe(server, src, intern) for _ in range(wlen)]
                traces.append([{k: e[k] for k in ('r', 'ctr', 'wf', 'req')} for e in tr])
                meta.append({'impl': name, 'source': mode, 'start': c,
                             'ids': [e['id'] for e in tr[:4]]})
                ck.distinct([name, mode, tr[0]['ctr']])
    # several instances interleaved: each must be a valid stream on its own
    import engineio
    a, b = engineio.Server(async_mode='threading'), engineio.Server(async_mode='threading')
    src.mode = 'const'
    ia, ib = {}, {}
    ta, tb = [], []
    for i in range(wlen):
        ta.append(observe(a, src, ia))
        tb.append(observe(b, src, ib))
    for t, nm in ((ta, 'inst-a'), (tb, 'inst-b')):
        traces.append([{k: e[k] for k in ('r', 'ctr', 'wf', 'req')} for e in t])
        meta.append({'impl': 'Server', 'source': 'const', 'start': t[0]['ctr'], 'note': nm,
                     'ids': [e['id'] for e in t[:4]]})
    # ids as the servers issue them: through real open requests, accepted and rejected, polling
    # and websocket, under a constant random source
    from ..harness import world as W
    from . import httpcommon as H
    for impl in ('sync', 'async'):
        for pattern in ('aaaa', 'arar', 'rraa', 'arra', 'raar'):
            src.mode = 'const'
            w = W.make_world(impl, {'ping_interval': 400, 'ping_timeout': 200})
            try:
                intern = {}
                tr = []
                for k in range(wlen):
                    out = pattern[k % len(pattern)]
                    w.connect_plan = [('accept' if out == 'a' else 'reject', False)]
                    w.last_connect_sid = None
                    src.calls.clear()
                    if k % 3 == 2:
                        H.run_request(w, 'GET', 'transport=websocket&EIO=4', ws=True)
                    else:
                        H.run_request(w, 'GET', 'transport=polling&EIO=4')
                    sid = w.last_connect_sid
                    raw = decode_id(sid)
                    wf = isinstance(sid, str) and len(sid) == 20 and set(sid) <= ALPHABET and \
                        raw is not None and len(raw) == 15
                    got = b''.join(o for _, o in src.calls)
                    tr.append({'r': intern.setdefault(raw[:12] if wf else b'?', len(intern)) if wf else -1,
                               'ctr': int.from_bytes(raw[12:], 'big') if wf else -1,
                               'wf': bool(wf and raw[:12] in got), 'req': sum(n for n, _ in src.calls)})
                traces.append(tr)
                meta.append({'impl': impl, 'source': 'const', 'via': 'open requests ' + pattern,
                             'start': tr[0]['ctr']})
                ck.distinct([impl, 'opens', pattern])
            finally:
                w.close()
    v = tracecheck.validate('EioSidTrace', traces,
                            constants={'M': M24, 'Rnd': '{}'},
                            invariants=['Unique', 'CountersConsecutive'])
    ck.cov['states'] += v.states
    ck.cov['transitions'] += v.generated
    ck.add_conformance('windows of %d issues from real generate_id, 4 random-source behaviours, '
                       '%d start counters, 2 servers' % (wlen, len(starts)),
                       len(traces), len(v.accepted))
    for i in v.rejected[:5]:
        ck.violation('issue window rejected by EioSid: %r' % (meta[i],),
                     {'meta': meta[i], 'trace': traces[i]})
    for i, inv, txt in v.inv_violations[:5]:
        ck.violation('invariant %s violated on a real issue window %r' % (inv, meta[i]),
                     {'meta': meta[i], 'trace': traces[i], 'tlc': txt})
    for m_ in meta[:3]:
        ck.sample(m_)

    # ---- 3. thorough: one full period from the real generator --------------------------
    if thorough and not ck.violations:
        name, server = make_servers()[0]
        src.mode = 'const'
        jump(server, 0)
        seen = bytearray(M24 // 8)
        dup = None
        gen = server.generate_id
        for i in range(M24):
            sid = gen()
            raw = base64.b64decode(sid.replace('_', '/').replace('-', '+'))
            c = int.from_bytes(raw[12:], 'big')
            if seen[c >> 3] & (1 << (c & 7)):
                dup = (i, sid)
                break
            seen[c >> 3] |= 1 << (c & 7)
        src.calls.clear()
        ck.cov['full_period'] = {'issues': M24 if dup is None else dup[0],
                                 'source': 'constant', 'duplicate': dup}
        ck.cov['evaluations'] += M24
        if dup is not None:
            ck.violation('two equal ids within one period of 2^24 issues (constant random '
                         'source): issue #%d id %s' % dup, {'dup': dup})
    ck.cov['rule'] = ('case = (implementation, random-source behaviour, start counter) window; '
                      'non-trivial = every window (each spans distinct counter values); distinct by '
                      'that triple')
    ck.assume('unpredictability of the operating system random source itself is assumed; '
              'only its use (12 bytes per id, embedded unmodified) is observed')
    ck.assume('the text encoding (URL-safe base64) is checked byte-exactly by the harness, the '
              'counter discipline by TLC against EioSid with M = 2^24')
    return ck.finish()
