"""C02 - payload framing is separator-exact, order-preserving and bounded."""
import itertools
import random
import time
import urllib.parse

from .. import tlc, tracecheck
from ..common import Check, MachineryError, NCPU
from . import codec as R
from . import c01

ALPHA = ['0', '4', '7', '9', 'b', R.RS, '"', '[', ']', 'A', '=', '!', '٤', 'd', 'x']


def payload_record(PL, P, body, maxp):
    """Observation of Payload(encoded_payload=body)."""
    pieces = R.ref_payload_pieces(body)
    if pieces is None:
        classes = ['bad']
        refs = []
    else:
        refs = [R.classify(p) for p in pieces]
        classes = ['bad' if r[2] == ('err',) else 'ok' for r in refs]
    rec = {'k': 'pl', 'pieces': classes, 'err': False, 'n': 0, 'order': False,
           'body': repr(body)[:60]}
    t0 = time.process_time()
    try:
        pl = PL.Payload(encoded_payload=body)
    except RecursionError:
        rec['err'] = True
        pl = None
    except Exception:
        rec['err'] = True
        pl = None
    rec['cpu_s'] = time.process_time() - t0
    if pl is not None:
        rec['n'] = len(pl.packets)
        if len(pl.packets) == len(refs):
            rec['order'] = all(
                r[2] != ('err',) and pk.packet_type == r[2][0] and R.same_value(pk.data, r[2][2])
                for pk, r in zip(pl.packets, refs))
    return rec


def run(tier):
    from engineio import packet as P, payload as PL
    ck = Check('C02', tier)
    th = tier == 'thorough'
    maxp = PL.Payload.max_decode_packets
    # ---- TLC on the specification -------------------------------------------------------
    for m in (1, 2, 3, 4) if th else (1, 3):
        c = {'Deviations': '{}', 'MaxPackets': m}
        r = tlc.run('MC_EioCodec', tlc.cfg_text(spec='PSpec', constants=c, invariants=['AllOrNothing'],
                                                constraints=['CallBound']), constants=c)
        tlc.must_pass(r, 'MC_EioCodec')
        ck.add_tlc(r, 'payload outcome table: all piece sequences up to MaxPackets+2 = %d' % (m + 2))
        if r.violated:
            ck.violation('EioCodec: %s violated' % r.violated, {'tlc': r.out[-3000:]})
    rng = random.Random(ck.seed)
    traces, cur = [], []
    slow = []

    def emit(rec):
        if rec.get('cpu_s', 0) > 2.0:
            slow.append(rec)
        rec.pop('cpu_s', None)
        cur.append(rec)
        if len(cur) >= 500:
            traces.append(list(cur))
            cur.clear()

    # ---- packet lists of length 0..18, mixed kinds: encode exact, decode in order ---------
    texts, jsons, bins = c01.payloads(rng, 30)
    texts = [t for t in texts if c01.safe_text(t) and R.RS not in t]
    npl = 0
    for n in list(range(0, 19)) + [25, 40]:
        for rep in range(6 if th else 3):
            pkts, refs = [], []
            for i in range(n):
                kind = rng.choice(['text', 'json', 'bin', 'none'])
                t = rng.randrange(7) if kind != 'bin' else 4
                data = {'text': rng.choice(texts), 'json': rng.choice(jsons),
                        'bin': rng.choice(bins), 'none': None}[kind]
                pkts.append(P.Packet(t, data))
                refs.append(R.ref_encode(t, data, True))
            enc = PL.Payload(packets=pkts).encode()
            emit({'k': 'plenc', 'exact': enc == R.RS.join(refs), 'n': n})
            emit(payload_record(PL, P, R.RS.join(refs), maxp))
            # the form-encoded variant decodes to the same packets
            body = R.RS.join(refs)
            form = 'd=' + urllib.parse.quote(body, safe='')
            a = payload_record(PL, P, body, maxp)
            b = payload_record(PL, P, form, maxp)
            same = (a['err'], a['n'], a['order']) == (b['err'], b['n'], b['order'])
            if not a['err'] and not b['err']:
                pa = PL.Payload(encoded_payload=body).packets
                pb = PL.Payload(encoded_payload=form).packets
                same = same and len(pa) == len(pb) and all(
                    x.packet_type == y.packet_type and R.same_value(x.data, y.data)
                    for x, y in zip(pa, pb))
            if n > 0:     # an empty body has no form variant ('d=' carries no value)
                emit({'k': 'form', 'same': bool(same), 'n': n})
                emit(b)
            npl += 1
            ck.distinct(['list', n, rep])
    # ---- form variant of bodies whose packets look like escapes to some decoder -------------
    tricky = ['a\\nb', '\\n', '\\\\n', 'x\\n', '\\r\\n', '\\t', '\\u2028', 'a+b', '+', '%2B', '%5Cn',
              '%', '%%', 'a&b=c', 'a;b', 'd=4x', '&d=', '=', 'a\nb', '\n', '"', "'", '\\"', 'é\\né']
    tricky_json = [{'s': 'two\nlines'}, ['a\\nb'], {'k\n': 1}, 'only\n', {'p': '100%'}, ['+', '&', '=']]
    for k, item in enumerate(tricky + tricky_json):
        for ctx in (0, 1):
            datas = [item] if ctx == 0 else ['head', item, 'tail']
            refs = [R.ref_encode(4, d_, True) for d_ in datas]
            body = R.RS.join(refs)
            form = 'd=' + urllib.parse.quote(body, safe='')
            a = payload_record(PL, P, body, maxp)
            b = payload_record(PL, P, form, maxp)
            same = (a['err'], a['n'], a['order']) == (b['err'], b['n'], b['order'])
            if not a['err'] and not b['err']:
                pa = PL.Payload(encoded_payload=body).packets
                pb = PL.Payload(encoded_payload=form).packets
                same = same and len(pa) == len(pb) and all(
                    x.packet_type == y.packet_type and R.same_value(x.data, y.data)
                    for x, y in zip(pa, pb))
            emit({'k': 'form', 'same': bool(same), 'n': len(datas)})
            emit(a)
            emit(b)
            ck.distinct(['tricky', k, ctx])
    # ---- every string up to a length bound over the adversarial alphabet -------------------
    L = 5 if th else 4
    nstr = 0
    for n in range(0, L + 1):
        for tup in itertools.product(ALPHA, repeat=n):
            s = ''.join(tup)
            emit(payload_record(PL, P, s, maxp))
            nstr += 1
    for _ in range(3000 if th else 500):
        s = ''.join(rng.choice(ALPHA + [R.RS, R.RS, '4', '4']) for _ in range(rng.randint(6, 60)))
        emit(payload_record(PL, P, s, maxp))
        if rng.random() < 0.3:
            emit(payload_record(PL, P, 'd=' + urllib.parse.quote(s, safe=''), maxp))
    emit(payload_record(PL, P, '4' + '[' * 100000, maxp))
    emit(payload_record(PL, P, R.RS * 20, maxp))
    emit(payload_record(PL, P, 'd=', maxp))
    emit(payload_record(PL, P, 'd=&x=1', maxp))
    if cur:
        traces.append(list(cur))
    nrec = sum(len(t) for t in traces)
    v = tracecheck.validate('EioCodecTrace', traces,
                            constants={'Deviations': '{}', 'MaxPackets': maxp}, batch=40)
    ck.cov['states'] += v.states
    ck.cov['transitions'] += v.generated
    ck.add_conformance('Payload encode / decode observations: %d packet lists of length 0..40, %d '
                       'exhaustive strings up to length %d over a 15-symbol alphabet, random longer '
                       'ones, form variants; limit %d' % (npl, nstr, L, maxp), nrec,
                       sum(len(traces[i]) for i in v.accepted))
    for i in v.rejected[:3]:
        from . import c01tab
        bad = next((r for r in traces[i] if not c01tab.ok(r, maxp)), traces[i][0])
        ck.violation('Payload observation contradicts EioCodec: %r' % (bad,), {'record': bad})
    for rec in slow[:2]:
        ck.violation('payload decoding took more than 2 s of CPU: %r' % (rec,), {'record': rec})
    # ---- the limit itself, patched to small values ---------------------------------------
    for k in (1, 2, 3):
        PL.Payload.max_decode_packets = k
        try:
            recs = [payload_record(PL, P, R.RS.join(['4a'] * n), k) for n in range(0, k + 3)]
        finally:
            PL.Payload.max_decode_packets = maxp
        v2 = tracecheck.validate('EioCodecTrace', [recs],
                                 constants={'Deviations': '{}', 'MaxPackets': k})
        ck.cov['traces_validated_against_impl'] += len(recs) if v2.accepted else 0
        ck.cov['evaluations'] += len(recs)
        if v2.rejected:
            ck.violation('packet count gate wrong for limit %d: %r' % (k, recs), {'records': recs})
    ck.sample({'pl': next(r for t in traces for r in t if r['k'] == 'pl' and len(r['pieces']) > 2)})
    ck.cov['rule'] = ('case = one Payload encode or decode observation; exhaustive strings are all '
                      'strings over the alphabet up to the stated length; distinct counts packet-list '
                      'shapes only (conservative)')
    ck.cov['distinct_nontrivial'] = 0
    for t in traces:
        for r in t:
            if r['k'] == 'pl':
                ck.distinct(['b', r['body']])
    ck.assume('the form variant is compared for non-empty bodies (a POST carries at least one '
              'packet); "d=" alone fails with an error, which the statement allows')
    ck.assume('termination: each decode is timed with process CPU time; more than 2 s is reported')
    ck.assume('piece classification and packet values come from the reference decoder '
              '(vk/props/codec.py); urllib.parse.parse_qs is trusted for the form variant')
    return ck.finish()


def replay(path):
    print(open(path).read()[:2000])
    return 1
