------------------------- MODULE EioClientFineTrace -------------------------
(***************************************************************************)
(* Primitive-by-primitive validation of pre-emptive executions of the real *)
(* threaded client (websocket transport, scripted server end) against      *)
(* EioClientFine.  Records {t, op, item}: t in "app" / "wr" / "rd" / "env";*)
(* op in put_enter / put / get_enter / get / ws_send / ws_close /          *)
(* ws_recv_enter / ws_recv_closed / ret / srv_closed / srv_disconnects.    *)
(***************************************************************************)
EXTENDS EioClientFine, Json, IOUtils, TLCExt

Tr == JsonDeserialize(IOEnv.TRACE_FILE)
VARIABLES tid, l
tvars == <<st, q, ev, tx, wsc, sclosed, sseen, inq, pc, it, nx, pk, nsent, rdisc, tid, l>>

Evs == Tr[tid].log
TraceInit == Init /\ tid \in 1..Len(Tr) /\ l = 1

StepOf(p) == CASE p = "app" -> AppStep [] p = "wr" -> WrStep [] OTHER -> RdStep

Consume ==
    /\ l <= Len(Evs)
    /\ LET e == Evs[l]
           p == e.t
       IN CASE e.op = "put_enter"      -> StepOf(p) /\ pc'[p] = "put" /\ it'[p] = e.item /\ q' = q
            [] e.op = "put"            -> DoPut(p) /\ it[p] = e.item
            [] e.op = "get_enter"      -> p = "wr" /\ WTop /\ pc'[p] = "w_wait"
            [] e.op = "get"            -> p = "wr" /\ (WGet \/ WMore) /\ it'[p] = e.item
            [] e.op = "ws_send"        -> p = "wr" /\ WSend /\ tx' = Append(tx, e.item)
            [] e.op = "ws_close"       -> DiscState(p)
            [] e.op = "ws_recv_enter"  -> p = "rd" /\ RTop
            [] e.op = "ws_recv_closed" -> p = "rd" /\ RClosed
            [] e.op = "ret"            -> StepOf(p) /\ pc'[p] = "done" /\ q' = q /\ tx' = tx
            [] e.op = "srv_closed"     -> SrvCloses
            [] e.op = "srv_disconnects" -> SrvDisconnects
            [] OTHER -> FALSE
    /\ Cap = Cap   \* (keeps the constant in scope for the diagnosis run)
    /\ l' = l + 1 /\ UNCHANGED tid

\* the two steps that touch no primitive
Silent ==
    /\ l <= Len(Evs) + 1
    /\ \/ AppSend /\ st # "connected"
       \/ RFrame /\ st # "connected"
    /\ UNCHANGED <<tid, l>>

Fin == Tr[tid].final
Finish ==
    /\ l = Len(Evs) + 1
    /\ st = Fin.st /\ ev = Fin.ev /\ tx = Fin.tx /\ q = Fin.q
    /\ PrintT(<<"ACC", tid>>)
    /\ l' = l + 1 /\ UNCHANGED <<vars, tid>>

TraceNext == Consume \/ Silent \/ Finish
TraceSpec == TraceInit /\ [][TraceNext]_tvars
DiagPrint == PrintT(<<"DIAG", l, st, q, ev, tx, wsc, sclosed, inq, pc, it, pk, nsent>>)
=============================================================================
