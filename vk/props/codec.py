"""Reference (stdlib-only) encoder / decoder / classifier for Engine.IO v4 packets, used as the
byte-level oracle of C01 / C02.  Independent of engineio."""
import base64
import binascii
import json
import math
import urllib.parse

RS = '\x1e'


def _safe_int(s):
    if len(s) > 100:
        raise ValueError('too large')
    return int(s)


def ref_encode(t, data, b64):
    if isinstance(data, (bytes, bytearray)):
        return ('b' + base64.b64encode(bytes(data)).decode('ascii')) if b64 else bytes(data)
    out = str(t)
    if isinstance(data, str):
        out += data
    elif isinstance(data, (dict, list)):
        out += json.dumps(data, separators=(',', ':'))
    elif data is not None:
        out += str(data)
    return out


def kind_of(data):
    if data is None:
        return 'none'
    if isinstance(data, str):
        return 'text'
    if isinstance(data, (bytes, bytearray)):
        return 'bytes'
    if isinstance(data, (dict, list)):
        return 'json'
    return 'other'


def form_of(enc):
    if isinstance(enc, (bytes, bytearray)):
        return 'RAW'
    if isinstance(enc, str) and enc[:1] == 'b':
        return 'B64'
    return 'T'


def classify(x):
    """-> (first, rest, reference outcome) where outcome = ('err',) or (type, kind, value)."""
    if isinstance(x, (bytes, bytearray)):
        return 'BYTES', 'na', (4, 'bytes', bytes(x))
    if x == '':
        return 'EMPTY', 'na', ('err',)
    ch, rest = x[0], x[1:]
    if ch == 'b':
        try:
            v = base64.b64decode(rest, validate=True)
            return 'b', 'b64ok', (4, 'bytes', v)
        except Exception:
            pass
        try:
            v = base64.b64decode(rest)
            return 'b', 'b64lenient', (4, 'bytes', v)
        except Exception:
            return 'b', 'b64bad', ('err',)
    try:
        d = int(ch)
    except ValueError:
        return 'other', 'na', ('err',)
    first = 'd%d' % d
    if rest == '':
        return first, 'empty', (d, 'text', '')
    try:
        v = json.loads(rest, parse_int=_safe_int)
    except RecursionError:
        return first, 'deep', ('err',)
    except ValueError:
        digits = rest.strip().lstrip('-')
        if digits.isdigit() and len(digits) > 100:
            return first, 'bigint', (d, 'text', rest)
        return first, 'plain', (d, 'text', rest)
    if isinstance(v, bool):
        return first, 'bool', (d, 'text', rest)
    if isinstance(v, int):
        return first, 'int', (d, 'text', rest)
    cls = {dict: 'obj', list: 'arr', str: 'str', float: 'float', type(None): 'null'}[type(v)]
    return first, cls, (d, 'json', v)


def same_value(a, b):
    """Equality incl. type; NaN equals NaN."""
    if type(a) is not type(b):
        if isinstance(a, (bytes, bytearray)) and isinstance(b, (bytes, bytearray)):
            return bytes(a) == bytes(b)
        return False
    if isinstance(a, float):
        return (math.isnan(a) and math.isnan(b)) or a == b
    if isinstance(a, dict):
        return a.keys() == b.keys() and all(same_value(a[k], b[k]) for k in a)
    if isinstance(a, list):
        return len(a) == len(b) and all(same_value(x, y) for x, y in zip(a, b))
    return a == b


def dkind(data):
    if isinstance(data, (bytes, bytearray)):
        return 'bytes'
    if isinstance(data, str):
        return 'text'
    return 'json'


def ref_payload_pieces(body):
    """-> list of pieces (strings) or None when the form variant itself is malformed."""
    if body == '':
        return []
    if body.startswith('d='):
        try:
            body = urllib.parse.parse_qs(body)['d'][0]
        except Exception:
            return None
    return body.split(RS)
