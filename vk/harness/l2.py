"""L2 executions: one polling session of the real threaded server, several requests / API calls
in flight at once, run by the hub under a pre-emptive seeded schedule, with one log record per
queue primitive that took effect (hub.primlog).  The log is validated, primitive by primitive,
against spec/EioQueueFine.tla (EioQueueFineTrace)."""
import random

from . import hub as hubmod
from . import world as W

KINDS = ('poll', 'send', 'disc', 'postclose')


def gen_script(rng, ngroups=None):
    """A script is a list of groups; the operations of a group are started together."""
    out = []
    n = 0
    for _ in range(ngroups or rng.randint(3, 6)):
        g = []
        for _ in range(rng.choice([1, 2, 2, 3, 3, 4])):
            if n >= 12:
                break
            g.append(rng.choice(['poll', 'poll', 'send', 'send', 'send', 'disc', 'postclose']))
            n += 1
        if g:
            out.append(g)
    return out


def run(script, seed):
    w = W.make_world('sync', {'ping_interval': 4000, 'ping_timeout': 2000, 'monitor': False},
                     seed=seed, preempt=True)
    facts = {'script': script, 'schedule_seed': seed}
    try:
        w.connect_plan = [('accept', False)]
        w.http('GET', 'transport=polling&EIO=4')
        w.quiesce()
        sid, so = w.sids[1], w.socks[1]
        q = 'transport=polling&EIO=4&sid=' + sid
        hub = w.hub
        hub.primlog = []
        p = 0
        for group in script:
            for k in group:
                p += 1
                if k == 'poll':
                    task = w.reqs[w.http('GET', q, slot=1)].task
                elif k == 'postclose':
                    task = w.reqs[w.http('POST', q, body=b'1', slot=1)].task
                elif k == 'send':
                    task = w.reqs[w.app_send(1)]['task']
                elif k == 'disc':
                    w.nreq += 1
                    task = w.reqs[w.app_disconnect_with_id(1, w.nreq)]['task']
                else:
                    raise ValueError(k)
                task.proc = p
                hub.primlog.append({'t': p, 'op': 'start', 'item': k, 'q': so.queue})
            w.quiesce()
        log = []
        for e in hub.primlog:
            if e['op'] == 'ret':
                log.append({'t': e['t'], 'op': 'ret', 'item': ''})
                continue
            if e['q'] is not so.queue:
                continue
            if e['t'] is None:
                raise RuntimeError('queue primitive by a task outside the script: %r' % e['op'])
            it = e['item']
            if e['op'] in ('put', 'get', 'put_enter'):
                it = 'NIL' if it is None else w._pkt_token(1, it)
            log.append({'t': e['t'], 'op': e['op'], 'item': it if it is not None else ''})
        hub.primlog = None
        snap = w.snapshot(1)
        final = {'q': snap['ss'][0]['q'], 'unf': snap['ss'][0]['unf'],
                 'closed': snap['ss'][0]['closed'], 'closing': snap['ss'][0]['closing'],
                 'intable': sid in w.server.sockets,
                 'ev': [e[5:] for e in snap['ev'][0] if e.startswith('disc:')],
                 'deliv': [d[0] for d in snap['deliv'][0]], 'sent': len(w.accepted.get(1, []))}
        facts['nproc'] = p
        return {'log': log, 'final': final}, facts
    finally:
        w.close()


# contention families: the same few tasks racing, under many schedules
FAMILIES = [
    [['poll', 'poll'], ['send', 'send', 'send']],          # two consumers, one burst
    [['poll', 'poll', 'send', 'send']],
    [['send', 'send'], ['poll', 'poll', 'send']],
    [['poll'], ['send', 'disc']],                          # close racing a send and a poll
    [['poll', 'disc', 'send']],
    [['poll', 'postclose', 'send']],
    [['send', 'send', 'poll', 'poll', 'disc']],
    [['poll', 'disc', 'postclose']],                       # two end causes and a consumer
    [['disc', 'disc', 'poll']],
]


def scripts(seed, n):
    """n random scripts plus every contention family (the two-consumer ones three times): each
    is run under its own schedule seed, so a family is explored under n/3 .. n schedules over
    a few runs."""
    rng = random.Random(seed)
    out = [gen_script(rng) for _ in range(n)]
    reps = max(1, n // 12)
    for i, fam in enumerate(FAMILIES):
        out += [fam] * (reps * (3 if i < 3 else 1))
    return out


# ---- websocket session (EioQueueFineWs) -------------------------------------------------------

def gen_ws_script(rng):
    out = []
    n = 2
    ended = False
    for _ in range(rng.randint(2, 5)):
        g = []
        for _ in range(rng.choice([1, 2, 2, 3])):
            if n >= 12:
                break
            k = rng.choice(['send', 'send', 'send', 'disc', 'wsclose', 'wsgone'])
            if k in ('wsclose', 'wsgone'):
                if ended:
                    continue
                ended = True
                g.append(k)
            else:
                g.append(k)
                n += 1
        if g:
            out.append(g)
    return out


def _ws_active(w):
    c = w.wss.get(1)
    return c is not None and c.accepted and not c.ended and not c.peer_gone and \
        not c.server_closed


def run_ws(script, seed):
    """One websocket-only session; reader = Proc 1 (the request task), writer = Proc 2 (the
    thread it starts).  The log starts once the session is up (OPEN sent, writer waiting)."""
    w = W.make_world('sync', {'ping_interval': 4000, 'ping_timeout': 2000, 'monitor': False},
                     seed=seed, preempt=True)
    facts = {'script': script, 'schedule_seed': seed}
    try:
        hub = w.hub
        hub.child_proc = {(1, 'writer'): 2}
        w.connect_plan = [('accept', False)]
        rid = w.ws_request('transport=websocket&EIO=4')
        w.reqs[rid].task.proc = 1
        w.quiesce()
        sid, so = w.sids[1], w.socks[1]
        conn_inq = w.reqs[rid].conn.inq
        hub.primlog = []
        p = 2
        for group in script:
            for k in group:
                if k in ('wsclose', 'wsgone') and not _ws_active(w):
                    continue          # the socket is closed already: nothing can be sent on it
                if k == 'wsclose':
                    hub.primlog.append({'t': 0, 'op': 'env', 'item': 'close', 'q': so.queue})
                    w.ws_frame(1, '1')
                    continue
                if k == 'wsgone':
                    hub.primlog.append({'t': 0, 'op': 'env', 'item': 'gone', 'q': so.queue})
                    w.ws_drop(1)
                    continue
                p += 1
                if k == 'send':
                    task = w.reqs[w.app_send(1)]['task']
                elif k == 'disc':
                    w.nreq += 1
                    task = w.reqs[w.app_disconnect_with_id(1, w.nreq)]['task']
                else:
                    raise ValueError(k)
                task.proc = p
                hub.primlog.append({'t': p, 'op': 'start', 'item': k, 'q': so.queue})
            w.quiesce()
        log = []
        for e in hub.primlog:
            if e['op'] == 'ret':
                log.append({'t': e['t'], 'op': 'ret', 'item': ''})
                continue
            if e['q'] == 'ws':
                # the writer closing the websocket (which wakes the reader)
                if e['op'] == 'ws_close' and e['t'] == 2:
                    log.append({'t': 2, 'op': 'ws_close', 'item': ''})
                continue
            if e['q'] is conn_inq:
                continue
            if e['q'] is not so.queue:
                continue
            if e['t'] is None:
                raise RuntimeError('queue primitive by a task outside the script: %r' % e['op'])
            it = e['item']
            if e['op'] in ('put', 'get', 'put_enter'):
                it = 'NIL' if it is None else w._pkt_token(1, it)
            log.append({'t': e['t'], 'op': e['op'], 'item': it if it is not None else ''})
        hub.primlog = None
        snap = w.snapshot(1)
        final = {'q': snap['ss'][0]['q'], 'unf': snap['ss'][0]['unf'],
                 'closed': snap['ss'][0]['closed'], 'closing': snap['ss'][0]['closing'],
                 'intable': sid in w.server.sockets,
                 'ev': [e[5:] for e in snap['ev'][0] if e.startswith('disc:')],
                 'deliv': [d[0] for d in snap['deliv'][0]], 'sent': len(w.accepted.get(1, []))}
        return {'log': log, 'final': final}, facts
    finally:
        w.close()


def ws_scripts(seed, n):
    rng = random.Random(seed)
    return [gen_ws_script(rng) for _ in range(n)]



# ---- threaded client, websocket transport (EioClientFine) ------------------------------------

def run_client(k, srv, seed):
    """The real threaded Client connected over a fake websocket to a scripted server end.  One
    application thread makes k send() calls and then disconnect(); the server end closes the
    transport when it has read the client's CLOSE frame, and (srv = True) may also disconnect on
    its own.  Everything runs on a pre-emptive hub; hub.primlog gets one record per primitive of
    the send queue and of the websocket."""
    from . import cworld as CW
    w = CW.make_client_world('sync', {}, seed=seed, preempt=True)
    facts = {'script': {'k': k, 'srv': srv}, 'schedule_seed': seed}
    try:
        hub = w.hub
        cid = w.app_connect('ws')
        w.calls[cid]['task'].proc = 'conn'
        hub.child_proc = {('conn', '_write_loop'): 'wr', ('conn', '_read_loop_websocket'): 'rd'}
        w.quiesce()
        w.ws_accept(True)
        w.quiesce()
        w.ws_deliver(CW.open_wire('SID1', False, 4000, 4000, 'ok'))
        w.quiesce()
        cl = w.client
        if cl.state != 'connected':
            raise RuntimeError('client did not connect')
        cq = cl.queue
        conn = w.conns[-1]
        hub.primlog = []
        log0 = hub.primlog

        def env(op):
            log0.append({'t': 'env', 'op': op, 'item': '', 'q': 'env'})

        def server_task():
            # the server end as a task of its own, so that it interleaves with the client's
            # threads: closes the transport once it has read a CLOSE frame
            for _ in range(100000):
                if conn['state'] != 'open':
                    return
                if any(o.get('k') == 'wstx' and o.get('f') == 'CLOSE' for o in w.out):
                    env('srv_closed')
                    w.ws_close()
                    return
                if all(t.done or t.blocked_on or getattr(t, 'held', False)
                       for t in (t_app, t_wr, t_rd) if t is not None):
                    # the client's threads are all blocked, held back or finished: nobody moves
                    # while this task stays runnable; the driver starts it again if a CLOSE
                    # frame shows up later
                    return
                hub.yield_now()
        w.out = []
        acc = []
        t_app = w.calls[w.app_burst(k, 1, acc, then_disconnect=True)]['task']
        t_app.proc = 'app'
        t_wr = next((t for t in hub.tasks if getattr(t, 'proc', None) == 'wr'), None)
        t_rd = next((t for t in hub.tasks if getattr(t, 'proc', None) == 'rd'), None)
        st = hub.spawn(server_task, name='server')
        if srv:
            def server_disc():
                for _ in range(hub.rng.randrange(0, 12)):
                    hub.yield_now()
                if conn['state'] == 'open' and not conn['inq'].items:
                    # one atomic environment event: the CLOSE frame and the closure are both
                    # in the client's receive buffer before anybody runs
                    env('srv_disconnects')
                    conn['state'] = 'closed'
                    conn['inq'].items.append(CW.pkt_frame('CLOSE'))
                    conn['inq'].unfinished_tasks += 1
                    conn['inq'].put(CW._CLOSED)
            hub.spawn(server_disc, name='serverdisc')
        for _ in range(200):
            w.quiesce()
            if st.done and conn['state'] == 'open' and \
                    any(o.get('k') == 'wstx' and o.get('f') == 'CLOSE' for o in w.out):
                st = hub.spawn(server_task, name='server')
                continue
            nd = hub.next_deadline()
            if nd is None or nd > hub.now:      # only real timers left
                break
            hub.fire_due()
        log = []
        for e in hub.primlog:
            if e['op'] == 'task_done':
                continue
            if e['op'] == 'ret':
                if e['t'] in ('app', 'wr', 'rd'):
                    log.append({'t': e['t'], 'op': 'ret', 'item': ''})
                continue
            if e['q'] == 'env':
                log.append({'t': 'env', 'op': e['op'], 'item': ''})
                continue
            if e['q'] == 'ws':
                if e['t'] is None:
                    raise RuntimeError('websocket primitive outside the three tasks: %r' % e['op'])
                log.append({'t': e['t'], 'op': e['op'], 'item': e['item'] or ''})
                continue
            if e['q'] is not cq:
                continue
            if e['t'] is None:
                raise RuntimeError('queue primitive outside the three tasks: %r' % e['op'])
            it = e['item']
            if e['op'] in ('put', 'get', 'put_enter'):
                it = w._tok_of_pkt(it)
            log.append({'t': e['t'], 'op': e['op'], 'item': it if it is not None else ''})
        hub.primlog = None
        evs = [e[5:] for e in w.events if e.startswith('disc:')]
        final = {'st': cl.state, 'ev': evs,
                 'tx': [o['f'] for o in w.out if o.get('k') == 'wstx'],
                 'q': [w._tok_of_pkt(x) for x in cq.items]}
        return {'log': log, 'final': final}, facts
    finally:
        w.close()


def replay_client_schedule(k, sched, seed=0):
    """spec -> code at L2: drive the real threaded Client under a schedule generated by TLC from
    EioClientFineSim.  The hub runs in scripted mode: a task stops right after every primitive on
    the send queue / websocket, and only the task named by the next schedule entry is resumed.
    Returns the primitive log + final observation (same shape as run_client)."""
    from . import cworld as CW
    w = CW.make_client_world('sync', {}, seed=seed, preempt=False)
    try:
        hub = w.hub
        cid = w.app_connect('ws')
        w.calls[cid]['task'].proc = 'conn'
        hub.child_proc = {('conn', '_write_loop'): 'wr', ('conn', '_read_loop_websocket'): 'rd'}
        w.quiesce()
        w.ws_accept(True)
        w.quiesce()
        w.ws_deliver(CW.open_wire('SID1', False, 4000, 4000, 'ok'))
        w.quiesce()
        cl = w.client
        if cl.state != 'connected':
            raise RuntimeError('client did not connect')
        cq = cl.queue
        conn = w.conns[-1]
        hub.primlog = []
        hub.scripted = cq
        w.out = []
        acc = []
        tasks = {'app': w.calls[w.app_burst(k, 1, acc, then_disconnect=True)]['task'],
                 'wr': next(t for t in hub.tasks if getattr(t, 'proc', None) == 'wr'),
                 'rd': next(t for t in hub.tasks if getattr(t, 'proc', None) == 'rd')}
        tasks['app'].proc = 'app'
        for ent in sched:
            p = ent['p']
            if ent.get('silent'):
                continue
            if p == 'srv_closed':
                hub.primlog.append({'t': 'env', 'op': 'srv_closed', 'item': '', 'q': 'env'})
                w.ws_close()
            elif p == 'srv_disconnects':
                hub.primlog.append({'t': 'env', 'op': 'srv_disconnects', 'item': '', 'q': 'env'})
                conn['state'] = 'closed'
                conn['inq'].items.append(CW.pkt_frame('CLOSE'))
                conn['inq'].unfinished_tasks += 1
                conn['inq'].put(CW._CLOSED)
            else:
                try:
                    hub.step(tasks[p])
                except RuntimeError as e:
                    raise RuntimeError('%s at schedule entry %d; log so far: %r' % (
                        e, sched.index(ent), [(x['t'], x['op']) for x in hub.primlog][-8:]))
        hub.scripted = None
        # nothing may be left to do: the schedule ran every task to its end
        leftover = [n for n, t in tasks.items() if not t.done]
        log = []
        for e in hub.primlog:
            if e['op'] == 'task_done':
                continue
            if e['op'] == 'ret':
                if e['t'] in ('app', 'wr', 'rd'):
                    log.append({'t': e['t'], 'op': 'ret', 'item': ''})
                continue
            if e['q'] == 'env':
                log.append({'t': 'env', 'op': e['op'], 'item': ''})
            elif e['q'] == 'ws':
                log.append({'t': e['t'], 'op': e['op'], 'item': e['item'] or ''})
            elif e['q'] is cq:
                it = e['item']
                if e['op'] in ('put', 'get', 'put_enter'):
                    it = w._tok_of_pkt(it)
                log.append({'t': e['t'], 'op': e['op'], 'item': it if it is not None else ''})
        hub.primlog = None
        final = {'st': cl.state, 'ev': [e[5:] for e in w.events if e.startswith('disc:')],
                 'tx': [o['f'] for o in w.out if o.get('k') == 'wstx'],
                 'q': [w._tok_of_pkt(x) for x in cq.items]}
        return {'log': log, 'final': final}, leftover
    finally:
        w.close()


def replay_server_schedule(sched, seed=0):
    """spec -> code at L2 for the threaded server: drive one polling session under a schedule
    generated by TLC from EioQueueFineSim (entries [p, k]: k = kind starts task p, "" steps it)."""
    w = W.make_world('sync', {'ping_interval': 4000, 'ping_timeout': 2000, 'monitor': False},
                     seed=seed, preempt=False)
    try:
        w.connect_plan = [('accept', False)]
        w.http('GET', 'transport=polling&EIO=4')
        w.quiesce()
        sid, so = w.sids[1], w.socks[1]
        qs = 'transport=polling&EIO=4&sid=' + sid
        hub = w.hub
        hub.primlog = []
        hub.scripted = so.queue
        hub.script_skip = ()
        tasks = {}
        for ent in sched:
            p, k = ent['p'], ent['k']
            if k:
                if k == 'poll':
                    t = w.reqs[w.http('GET', qs, slot=1)].task
                elif k == 'postclose':
                    t = w.reqs[w.http('POST', qs, body=b'1', slot=1)].task
                elif k == 'send':
                    t = w.reqs[w.app_send(1)]['task']
                elif k == 'disc':
                    w.nreq += 1
                    t = w.reqs[w.app_disconnect_with_id(1, w.nreq)]['task']
                else:
                    raise ValueError(k)
                t.proc = p
                tasks[p] = t
            else:
                try:
                    hub.step(tasks[p])
                except RuntimeError as e:
                    raise RuntimeError('%s at schedule entry %d; log so far: %r' % (
                        e, sched.index(ent), [(x['t'], x['op']) for x in hub.primlog][-8:]))
        hub.scripted = None
        hub.primlog = None
        snap = w.snapshot(1)
        final = {'q': snap['ss'][0]['q'], 'unf': snap['ss'][0]['unf'],
                 'closed': snap['ss'][0]['closed'], 'closing': snap['ss'][0]['closing'],
                 'intable': sid in w.server.sockets,
                 'ev': [e[5:] for e in snap['ev'][0] if e.startswith('disc:')],
                 'deliv': [d[0] for d in snap['deliv'][0]], 'sent': len(w.accepted.get(1, [])),
                 'done': {p: bool(t.done) for p, t in tasks.items()}}
        return final
    finally:
        w.close()


def replay_ws_schedule(sched, seed=0):
    """spec -> code at L2, websocket session of the threaded server: schedule entries [p, k] from
    EioQueueFineWsSim (p = 1 reader, 2 writer, >2 short tasks, 0 environment)."""
    w = W.make_world('sync', {'ping_interval': 4000, 'ping_timeout': 2000, 'monitor': False},
                     seed=seed, preempt=False)
    try:
        hub = w.hub
        hub.child_proc = {(1, 'writer'): 2}
        w.connect_plan = [('accept', False)]
        rid = w.ws_request('transport=websocket&EIO=4')
        w.reqs[rid].task.proc = 1
        w.quiesce()
        sid, so = w.sids[1], w.socks[1]
        hub.primlog = []
        hub.scripted = so.queue
        hub.script_skip = ()
        tasks = {1: w.reqs[rid].task,
                 2: next(t for t in hub.tasks if getattr(t, 'proc', None) == 2)}
        for ent in sched:
            p, k = ent['p'], ent['k']
            if k == 'silent':
                continue
            if p == 0:
                if k == 'close':
                    w.ws_frame(1, '1')
                else:
                    w.ws_drop(1)
            elif k in ('send', 'disc'):
                if k == 'send':
                    t = w.reqs[w.app_send(1)]['task']
                else:
                    w.nreq += 1
                    t = w.reqs[w.app_disconnect_with_id(1, w.nreq)]['task']
                t.proc = p
                tasks[p] = t
            else:
                try:
                    hub.step(tasks[p])
                except RuntimeError as e:
                    raise RuntimeError('%s at schedule entry %d; log so far: %r' % (
                        e, sched.index(ent), [(x['t'], x['op']) for x in hub.primlog][-8:]))
        hub.scripted = None
        hub.primlog = None
        snap = w.snapshot(1)
        return {'q': snap['ss'][0]['q'], 'unf': snap['ss'][0]['unf'],
                'closed': snap['ss'][0]['closed'], 'closing': snap['ss'][0]['closing'],
                'intable': sid in w.server.sockets,
                'ev': [e[5:] for e in snap['ev'][0] if e.startswith('disc:')],
                'deliv': [d[0] for d in snap['deliv'][0]], 'sent': len(w.accepted.get(1, [])),
                'done': {p: bool(t.done) for p, t in tasks.items()}}
    finally:
        w.close()



# ---- threaded client, polling transport (EioClientFinePoll) ----------------------------------

POLL_KINDS = ('NOOP', 'MSG', 'PING', 'CLOSE')


def _poll_setup(seed, preempt):
    """The real threaded Client connected on polling only; returns the world once connect() has
    returned, the write loop waits in queue.get() and the read loop's first GET is in flight."""
    from . import cworld as CW
    from . import cdriver as CD
    w = CW.make_client_world('sync', {}, seed=seed, preempt=False)
    hub = w.hub
    hub.no_start_yield = True
    hub.log_joins = True
    hub.log_http = True
    hub.script_kinds = ('http', 'thr')
    cid = w.app_connect('poll')
    w.calls[cid]['task'].proc = 'conn'
    hub.child_proc = {('conn', '_write_loop'): 'wr', ('conn', '_read_loop_polling'): 'rd'}
    w.quiesce()
    rid = CD.pending(w, 'GET')
    w.reply(rid, 200, CW.open_wire('SID1', False, 4000, 4000, 'ok').encode())
    w.quiesce()
    cl = w.client
    if cl.state != 'connected' or CD.pending(w, 'GET') is None:
        raise RuntimeError('client did not connect on polling')
    hub.preempt = preempt
    st = {'rx': 0, 'late': False}
    trig0 = cl._trigger_event

    def trig(event, *args, **kw):
        if event == 'message':
            st['rx'] += 1
            if any(e.startswith('disc:') for e in w.events):
                st['late'] = True
        return trig0(event, *args, **kw)
    cl._trigger_event = trig
    return w, st


def _poll_answer(w, env, rid, ans, posted, nmsg):
    """One environment step: the server answers request rid.  ans: list of packet kinds (GET),
    'ok' (POST), 'bad' or 'fail'.  Returns whether the session is gone afterwards."""
    from . import cworld as CW
    rec = w.reqs[rid]
    gone = False
    if rec['m'] == 'GET':
        if ans in ('bad', 'fail'):
            env('srv_get', '', [ans.upper()])
        else:
            env('srv_get', '', list(ans))
            gone = 'CLOSE' in ans
    else:
        env('srv_post', ans, [])
        if ans == 'ok':
            posted.extend(rec['body'])
            gone = 'CLOSE' in rec['body']
    if ans == 'fail':
        w.fail(rid)
    elif ans == 'bad':
        w.reply(rid, 400, b'')
    elif rec['m'] == 'POST':
        w.reply(rid, 200, b'ok')
    else:
        parts = []
        for k in ans:
            if k == 'MSG':
                nmsg[0] += 1
                parts.append(CW.pkt_wire('M%d' % nmsg[0]))
            else:
                parts.append(CW.pkt_wire(k))
        w.reply(rid, 200, '\x1e'.join(parts).encode('utf-8'))
    return gone


def _poll_log(w, hub, cq):
    log = []
    for e in hub.primlog:
        if e['op'] == 'task_done':
            continue
        if e['op'] == 'ret':
            if e['t'] in ('app', 'wr', 'rd'):
                log.append({'t': e['t'], 'op': 'ret', 'item': '', 'items': []})
            continue
        if e['q'] == 'env':
            log.append({'t': 'env', 'op': e['op'], 'item': e['item'], 'items': e['items']})
            continue
        if e['q'] in ('http', 'thr'):
            if e['t'] is None:
                raise RuntimeError('HTTP / thread primitive outside the three tasks: %r' % e['op'])
            log.append({'t': e['t'], 'op': e['op'], 'item': e['item'] or '',
                        'items': list(e.get('items', []))})
            continue
        if e['q'] is not cq:
            continue
        if e['t'] is None:
            raise RuntimeError('queue primitive outside the three tasks: %r' % e['op'])
        it = e['item']
        if e['op'] in ('put', 'get', 'put_enter'):
            it = w._tok_of_pkt(it)
        log.append({'t': e['t'], 'op': e['op'], 'item': it if it is not None else '', 'items': []})
    return log


def run_client_poll(k, maxpolls, allowfail, seed):
    """Pre-emptive execution of the real threaded Client on polling: one application thread
    makes k send() calls and then disconnect(); a server task answers every request in flight,
    at a random moment, with a random payload (<= 2 packets of NOOP / MSG / PING / CLOSE, at
    most maxpolls payloads), and - allowfail, or once the session is gone - with an error status
    or a connection failure.  hub.primlog gets one record per primitive."""
    from . import cdriver as CD
    w, cst = _poll_setup(seed, True)
    facts = {'script': {'k': k, 'maxpolls': maxpolls, 'allowfail': allowfail}, 'schedule_seed': seed}
    try:
        hub = w.hub
        cl = w.client
        cq = cl.queue
        hub.primlog = []
        log0 = hub.primlog
        posted, nmsg = [], [0]
        state = {'gone': False, 'polls': 0}
        rng = hub.rng

        def env(op, item, items):
            log0.append({'t': 'env', 'op': op, 'item': item, 'items': items, 'q': 'env'})

        def choose(rec):
            opts = []
            if rec['m'] == 'GET':
                if not state['gone'] and state['polls'] < maxpolls:
                    for _ in range(3):
                        n = rng.choice((1, 1, 2))
                        opts.append([rng.choice(POLL_KINDS) for _ in range(n)])
            elif not state['gone']:
                opts += ['ok'] * 3
            if state['gone'] or allowfail:
                opts += ['bad', 'fail']
            # nothing left to say: the request is never answered, i.e. it times out
            return rng.choice(opts) if opts else 'fail'

        def server_task():
            idle = 0
            for _ in range(100000):
                pend = [rid for rid in sorted(w.reqs)
                        if not w.reqs[rid]['done'] and w.reqs[rid]['reply'] is None]
                tasks = [t for t in (t_app, t_wr, t_rd) if t is not None]
                if all(t.done for t in tasks):
                    return
                if pend and rng.random() < 0.5:
                    rid = rng.choice(pend)
                    ans = choose(w.reqs[rid])
                    if ans is not None:
                        if isinstance(ans, list):
                            state['polls'] += 1
                        if _poll_answer(w, env, rid, ans, posted, nmsg):
                            state['gone'] = True
                        idle = 0
                elif not pend and all(t.done or t.blocked_on or getattr(t, 'held', False)
                                      for t in tasks):
                    idle += 1
                    if idle > 3:
                        # nothing in flight and nobody moves while this task is runnable (a
                        # held-back task is released once every other task has stopped): leave;
                        # the driver starts a new server task when a request appears
                        return
                hub.yield_now()
        w.out = []
        acc = []
        t_app = w.calls[w.app_burst(k, 1, acc, then_disconnect=True)]['task']
        t_app.proc = 'app'
        t_wr = next((t for t in hub.tasks if getattr(t, 'proc', None) == 'wr'), None)
        t_rd = next((t for t in hub.tasks if getattr(t, 'proc', None) == 'rd'), None)
        hub.spawn(server_task, name='server')
        for _ in range(50):
            w.quiesce()
            if all(t.done for t in (t_app, t_wr, t_rd)):
                break
            pend = [rid for rid in w.reqs if not w.reqs[rid]['done'] and w.reqs[rid]['reply'] is None]
            if pend:
                hub.spawn(server_task, name='server')
                continue
            nd = hub.next_deadline()
            if nd is None:
                break
            hub.now = nd                 # the write loop's queue.get() times out
            hub.fire_due()
        log = _poll_log(w, hub, cq)
        hub.primlog = None
        final = {'st': cl.state, 'ev': [e[5:] for e in w.events if e.startswith('disc:')],
                 'posted': posted, 'q': [w._tok_of_pkt(x) for x in cq.items],
                 'rx': cst['rx'], 'late': cst['late'],
                 'done': all(t.done for t in (t_app, t_wr, t_rd))}
        return {'log': log, 'final': final}, facts
    finally:
        w.close()


def replay_client_poll_schedule(k, sched, seed=0):
    """spec -> code at L2 for the polling client: drive the real threaded Client under a schedule
    generated by TLC from EioClientFinePollSim (entries [p, silent, ans]).  The hub runs in
    scripted mode: a task stops right after every primitive of the send queue, the HTTP layer and
    Thread.join; the server's answers are the ones TLC chose."""
    from . import cdriver as CD
    w, cst = _poll_setup(seed, False)
    try:
        hub = w.hub
        cl = w.client
        cq = cl.queue
        hub.primlog = []
        log0 = hub.primlog
        hub.scripted = cq
        w.out = []
        acc, posted, nmsg = [], [], [0]

        def env(op, item, items):
            log0.append({'t': 'env', 'op': op, 'item': item, 'items': items, 'q': 'env'})
        tasks = {'app': w.calls[w.app_burst(k, 1, acc, then_disconnect=True)]['task'],
                 'wr': next(t for t in hub.tasks if getattr(t, 'proc', None) == 'wr'),
                 'rd': next(t for t in hub.tasks if getattr(t, 'proc', None) == 'rd')}
        tasks['app'].proc = 'app'
        for n, ent in enumerate(sched):
            p = ent['p']
            if ent.get('silent'):
                continue
            if p in ('srv_get', 'srv_post'):
                rid = CD.pending(w, 'GET' if p == 'srv_get' else 'POST')
                if rid is None:
                    raise RuntimeError('no %s request in flight at schedule entry %d' % (p[4:], n))
                a = list(ent['ans'])
                if p == 'srv_post':
                    ans = a[0]
                else:
                    ans = {('BAD',): 'bad', ('FAIL',): 'fail'}.get(tuple(a), a)
                _poll_answer(w, env, rid, ans, posted, nmsg)
            else:
                try:
                    hub.step(tasks[p])
                except RuntimeError as e:
                    raise RuntimeError('%s at schedule entry %d; log so far: %r' % (
                        e, n, [(x['t'], x['op']) for x in hub.primlog][-8:]))
        hub.scripted = None
        leftover = [n for n, t in tasks.items() if not t.done]
        log = _poll_log(w, hub, cq)
        hub.primlog = None
        final = {'st': cl.state, 'ev': [e[5:] for e in w.events if e.startswith('disc:')],
                 'posted': posted, 'q': [w._tok_of_pkt(x) for x in cq.items],
                 'rx': cst['rx'], 'late': cst['late'], 'done': not leftover}
        return {'log': log, 'final': final}, leftover
    finally:
        w.close()


# ---- polling session being upgraded (EioQueueFineUp) ------------------------------------------

class _Flag:
    """Logging descriptor for a Socket flag: every write is one record of hub.primlog and a
    switch point (the order of the writes is part of EioQueueFineUp)."""
    def __init__(self, name):
        self.name, self.slot = name, '_v_' + name

    def __get__(self, obj, cls=None):
        if obj is None:
            return self
        value = obj.__dict__.get(self.slot, False)
        hub = hubmod.hub()
        if hub is not None and hub.primlog is not None and getattr(hub, 'log_flags', False) and \
                getattr(hub.current, 'proc', None) is not None:
            # a read by one of the script's tasks: a record and a switch point as well
            rec = {'t': hub.current.proc, 'op': 'flagread',
                   'item': '%s=%s' % (self.name, 'T' if value else 'F'), 'q': 'flag'}
            hub.primlog.append(rec)
            hub.after_log(rec)
            hub.yield_point()
        return value

    def __set__(self, obj, value):
        obj.__dict__[self.slot] = value
        hub = hubmod.hub()
        if hub is not None and hub.primlog is not None and getattr(hub, 'log_flags', False) and \
                getattr(hub.current, 'proc', None) is not None:
            rec = {'t': hub.current.proc, 'op': 'flag',
                   'item': '%s=%s' % (self.name, 'T' if value else 'F'), 'q': 'flag'}
            hub.primlog.append(rec)
            hub.after_log(rec)
            hub.yield_point()


def gen_up_script(rng, wellbehaved):
    """Groups of operations started together; the client's frames (probe / upgrade / bad / gone)
    are sent between groups, when the server is quiescent."""
    out = []
    hs = rng.choice([['probe', 'upgrade'], ['probe', 'upgrade'], ['probe', 'upgrade'],
                     ['bad1'], ['probe', 'bad2'], ['gone'], ['probe', 'gone']])
    pre = rng.randint(0, 2)
    for _ in range(pre):
        out.append([rng.choice(['poll', 'send', 'send']) for _ in range(rng.randint(1, 3))])
    out.append([rng.choice(['poll', 'send']) for _ in range(rng.randint(0, 2))] + ['upg'] +
               [rng.choice(['poll', 'send']) for _ in range(rng.randint(0, 2))])
    for f in hs:
        out.append([f] + [rng.choice(['poll', 'send', 'send']) for _ in range(rng.randint(0, 3))])
    for _ in range(rng.randint(1, 2)):
        out.append([rng.choice(['poll', 'send', 'send']) for _ in range(rng.randint(1, 3))])
    return {'groups': out, 'wb': wellbehaved}


def run_up(script, seed):
    """One polling session of the real threaded Server being upgraded.  Proc 1 = the upgrade
    request (later the reader), Proc 2 = the writer thread it starts, 3.. = GETs and send()
    calls.  A well-behaved script (wb) has one GET outstanding at a time and sends UPGRADE only
    when none is."""
    import engineio.socket as ES
    saved = {n: ES.Socket.__dict__.get(n) for n in ('upgrading', 'upgraded')}
    ES.Socket.upgrading = _Flag('upgrading')
    ES.Socket.upgraded = _Flag('upgraded')
    w = W.make_world('sync', {'ping_interval': 4000, 'ping_timeout': 2000, 'monitor': False},
                     seed=seed, preempt=True)
    facts = {'script': script, 'schedule_seed': seed}
    try:
        hub = w.hub
        hub.no_start_yield = True
        hub.log_wswait = True
        hub.log_flags = True
        hub.child_proc = {(1, 'writer'): 2}
        w.connect_plan = [('accept', False)]
        w.http('GET', 'transport=polling&EIO=4')
        w.quiesce()
        sid, so = w.sids[1], w.socks[1]
        qs = 'transport=polling&EIO=4&sid=' + sid
        hub.primlog = []
        log0 = hub.primlog
        p = 2
        conn = None
        stage = 0
        gone = False
        polls = []
        pollreqs = []

        def outstanding():
            return any(not t.done for t in polls)

        def env(item):
            log0.append({'t': 0, 'op': 'env', 'item': item, 'q': so.queue})
        for group in script['groups']:
            for k in group:
                if k in ('probe', 'bad1', 'upgrade', 'bad2', 'gone'):
                    if conn is None or not conn.accepted or conn.ended or gone:
                        continue
                    if k in ('probe', 'bad1'):
                        if stage != 0:
                            continue
                        env(k)
                        w.ws_frame_conn(conn, '2probe' if k == 'probe' else '4x')
                        stage = 1
                    elif k in ('upgrade', 'bad2'):
                        if stage != 1 or not conn.out:
                            continue
                        if script['wb'] and outstanding():
                            continue
                        env(k)
                        w.ws_frame_conn(conn, '5' if k == 'upgrade' else '4x')
                        stage = 2
                    else:
                        if stage >= 2 or conn.inq.items:
                            continue
                        env('gone')
                        w.ws_drop_conn(conn)
                        gone = True
                    continue
                if k == 'upg':
                    if conn is not None:
                        continue
                    rid = w.ws_request('transport=websocket&EIO=4&sid=' + sid, slot=1)
                    conn = w.reqs[rid].conn
                    w.reqs[rid].task.proc = 1
                    log0.append({'t': 1, 'op': 'start', 'item': 'upg', 'q': so.queue})
                    continue
                if k == 'poll' and script['wb'] and outstanding():
                    continue
                p += 1
                if k == 'poll':
                    rq = w.reqs[w.http('GET', qs, slot=1)]
                    task = rq.task
                    polls.append(task)
                    pollreqs.append((p, rq))
                elif k == 'send':
                    task = w.reqs[w.app_send(1)]['task']
                else:
                    raise ValueError(k)
                task.proc = p
                log0.append({'t': p, 'op': 'start', 'item': k, 'q': so.queue})
            w.quiesce()
        log = []
        for e in hub.primlog:
            if e['op'] == 'ret':
                if e['t'] is not None:
                    log.append({'t': e['t'], 'op': 'ret', 'item': ''})
                continue
            if e['q'] in ('wswait', 'flag'):
                if e['t'] != 1 and e['op'] != 'flagread':
                    raise RuntimeError('%s by task %r' % (e['op'], e['t']))
                log.append({'t': e['t'], 'op': e['op'], 'item': e['item']})
                continue
            if e['q'] is not so.queue:
                continue
            if e['t'] is None:
                raise RuntimeError('queue primitive by a task outside the script: %r' % e['op'])
            it = e['item']
            if e['op'] in ('put', 'get', 'put_enter'):
                it = 'NIL' if it is None else w._pkt_token(1, it)
            log.append({'t': e['t'], 'op': e['op'], 'item': it if it is not None else ''})
        hub.primlog = None
        snap = w.snapshot(1)
        dl = snap['deliv'][0]
        final = {'q': snap['ss'][0]['q'], 'unf': snap['ss'][0]['unf'],
                 'intable': sid in w.server.sockets, 'sent': len(w.accepted.get(1, [])),
                 'upgrading': bool(so.upgrading), 'upgraded': bool(so.upgraded),
                 'pdeliv': [d[0] for d in dl if d[1] != 'ws'],
                 'wdeliv': [d[0] for d in dl if d[1] == 'ws'],
                 'status': [[pp, str(rq.status)[:3]] for pp, rq in pollreqs if rq.task.done]}
        facts['nproc'] = p
        return {'log': log, 'final': final}, facts
    finally:
        w.close()
        for n, v in saved.items():
            if v is None:
                try:
                    delattr(ES.Socket, n)
                except AttributeError:
                    pass
            else:
                setattr(ES.Socket, n, v)


def replay_up_schedule(sched, seed=0):
    """spec -> code at L2 for the upgrade: drive the real threaded Server under a schedule
    generated by TLC from EioQueueFineUpSim (entries [p, k]: p = 0 the client with k = probe /
    bad1 / upgrade / bad2 / gone; k = kind starts task p; k = "" steps it)."""
    import engineio.socket as ES
    saved = {n: ES.Socket.__dict__.get(n) for n in ('upgrading', 'upgraded')}
    ES.Socket.upgrading = _Flag('upgrading')
    ES.Socket.upgraded = _Flag('upgraded')
    w = W.make_world('sync', {'ping_interval': 4000, 'ping_timeout': 2000, 'monitor': False},
                     seed=seed, preempt=False)
    try:
        hub = w.hub
        hub.no_start_yield = True
        hub.log_wswait = True
        hub.log_flags = True
        hub.child_proc = {(1, 'writer'): 2}
        w.connect_plan = [('accept', False)]
        w.http('GET', 'transport=polling&EIO=4')
        w.quiesce()
        sid, so = w.sids[1], w.socks[1]
        qs = 'transport=polling&EIO=4&sid=' + sid
        hub.primlog = []
        hub.scripted = so.queue
        hub.script_skip = ()
        hub.script_kinds = ('wswait', 'flag')
        tasks = {}
        conn = None
        for n, ent in enumerate(sched):
            p, k = ent['p'], ent['k']
            if p == 0:
                if conn is None:
                    raise RuntimeError('client frame before the upgrade request (entry %d)' % n)
                if k == 'gone':
                    w.ws_drop_conn(conn)
                else:
                    w.ws_frame_conn(conn, {'probe': '2probe', 'upgrade': '5'}.get(k, '4x'))
                continue
            if k:
                if k == 'upg':
                    rid = w.ws_request('transport=websocket&EIO=4&sid=' + sid, slot=1)
                    conn = w.reqs[rid].conn
                    t = w.reqs[rid].task
                elif k == 'poll':
                    t = w.reqs[w.http('GET', qs, slot=1)].task
                elif k == 'send':
                    t = w.reqs[w.app_send(1)]['task']
                else:
                    raise ValueError(k)
                t.proc = p
                tasks[p] = t
                continue
            if p == 2 and 2 not in tasks:
                wt = [t for t in hub.tasks if getattr(t, 'proc', None) == 2]
                if not wt:
                    raise RuntimeError('the writer thread does not exist at schedule entry %d' % n)
                tasks[2] = wt[0]
            if tasks[p].done:
                # the task has returned already: the model's remaining steps for it can only be
                # writes that change nothing (the trace specification treats those as
                # unobservable); the outcome comparison at the end decides
                continue
            try:
                hub.step(tasks[p])
            except RuntimeError as e:
                raise RuntimeError('%s at schedule entry %d; log so far: %r' % (
                    e, n, [(x['t'], x['op'], x.get('item') if isinstance(x.get('item'), str) else '')
                           for x in hub.primlog][-8:]))
        hub.scripted = None
        hub.primlog = None
        snap = w.snapshot(1)
        dl = snap['deliv'][0]
        return {'q': snap['ss'][0]['q'], 'unf': snap['ss'][0]['unf'],
                'upgrading': bool(so.upgrading), 'upgraded': bool(so.upgraded),
                'pdeliv': [d[0] for d in dl if d[1] != 'ws'],
                'wdeliv': [d[0] for d in dl if d[1] == 'ws'],
                'sent': len(w.accepted.get(1, [])),
                'done': {p: bool(t.done) for p, t in tasks.items()}}
    finally:
        w.close()
        for n, v in saved.items():
            if v is None:
                try:
                    delattr(ES.Socket, n)
                except AttributeError:
                    pass
            else:
                setattr(ES.Socket, n, v)
