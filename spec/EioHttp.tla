------------------------------- MODULE EioHttp -------------------------------
(***************************************************************************)
(* Request-level decision tables of the Engine.IO server                   *)
(* (handle_request, _handle_connect, _cors_*, compression, JSONP in        *)
(* server.py / async_server.py / base_server.py / payload.py), over finite *)
(* abstract domains.  Each table is a function; the listed properties are  *)
(* facts about these functions (checked by TLC over every cell) and the    *)
(* real servers are bound to them by validating, cell by cell, what they   *)
(* answered to concrete requests of every class.                           *)
(***************************************************************************)
EXTENDS Naturals, Sequences, FiniteSets

(***************************************************************************)
(* C13 - origin gate and CORS headers                                      *)
(*  cfg   cors_allowed_origins: "none" (default) | "star" | "str" | "list" *)
(*        | "callT" (predicate accepting) | "callF" (rejecting) | "empty"  *)
(*  oc    class of the Origin header relative to what is allowed:          *)
(*        "absent" | "empty" | "same" (request's own scheme://host) |      *)
(*        "fwd" (scheme://host as seen through X-Forwarded-Proto/Host) |   *)
(*        "listed" (exactly a configured origin) | "near" (prefix, suffix, *)
(*        case variant, trailing slash/dot, port variant of an allowed     *)
(*        one) | "foreign"                                                 *)
(*  fwd   X-Forwarded-* headers present on the request                     *)
(***************************************************************************)
CorsCfgs == {"none", "star", "str", "list", "callT", "callF", "empty"}
OriginClasses == {"absent", "empty", "same", "fwd", "listed", "near", "foreign"}

OriginAllowed(cfg, oc, fwd) ==
    CASE cfg = "star"  -> TRUE
      [] cfg = "none"  -> oc = "same" \/ (oc = "fwd" /\ fwd)
      [] cfg \in {"str", "list"} -> oc = "listed"
      [] cfg = "callT" -> TRUE
      [] cfg = "callF" -> FALSE
      [] OTHER -> FALSE

HasOrigin(oc) == oc \notin {"absent", "empty"}     \* the gate looks at non-empty origins only

OriginGate(cfg, cred, oc, fwd) ==
    LET blocked == cfg # "empty" /\ HasOrigin(oc) /\ ~OriginAllowed(cfg, oc, fwd)
    IN [blocked |-> blocked,
        \* Access-Control-Allow-Origin carries the request's Origin, only if allowed
        acao |-> cfg # "empty" /\ ~blocked /\ oc # "absent"
                 /\ (OriginAllowed(cfg, oc, fwd) \/ (oc = "empty" /\ cfg = "star")),
        acac |-> cfg # "empty" /\ cred]

OriginCells == {<<c, cr, o, f>> : c \in CorsCfgs, cr \in BOOLEAN, o \in OriginClasses, f \in BOOLEAN}

\* facts of C13
C13_NeverOverGrant ==
    \A x \in OriginCells :
        LET r == OriginGate(x[1], x[2], x[3], x[4])
        IN /\ r.acao => (x[1] # "empty" /\ (OriginAllowed(x[1], x[3], x[4]) \/ x[3] = "empty"))
           /\ r.acac => (x[2] /\ x[1] # "empty")
           /\ (r.blocked => ~r.acao)
C13_EmptyListDisablesAll ==
    \A x \in OriginCells : x[1] = "empty" =>
        LET r == OriginGate(x[1], x[2], x[3], x[4]) IN ~r.blocked /\ ~r.acao /\ ~r.acac
C13_NoOriginUnaffected ==
    \A x \in OriginCells : x[3] \in {"absent", "empty"} => ~OriginGate(x[1], x[2], x[3], x[4]).blocked
C13_DefaultOnlyOwnHost ==
    \A x \in OriginCells : (x[1] = "none" /\ HasOrigin(x[3])) =>
        (OriginGate(x[1], x[2], x[3], x[4]).blocked <=> ~(x[3] = "same" \/ (x[3] = "fwd" /\ x[4])))

(***************************************************************************)
(* C12 - request admission                                                 *)
(*  m     method: "GET" "POST" "OPTIONS" "OTHER"                           *)
(*  eio   "absent" "3" "4" "5" "dup" (EIO=4&EIO=4)                         *)
(*  tr    transport parameter: "absent" "polling" "websocket" "bogus"      *)
(*  sk    session named: "absent" "livePolling" "liveUpgraded"             *)
(*        "midUpgrade" "closed" (closed, not yet reaped) "unknown"         *)
(*        "rejected"                                                       *)
(*  uh    websocket upgrade headers present (Upgrade: websocket and        *)
(*        Connection: Upgrade): BOOLEAN                                    *)
(*  j     JSONP index: "absent" "numeric" "nonnumeric"                     *)
(*  cfg   transports the server allows: "both" "polling" "websocket"       *)
(* Outcome: adm (admitted), st (set of acceptable statuses; websocket-type *)
(* refusals are recorded as 499), eff (what it does)                       *)
(***************************************************************************)
Methods == {"GET", "POST", "OPTIONS", "OTHER"}
EioVals == {"absent", "3", "4", "5", "dup"}
TrVals == {"absent", "polling", "websocket", "bogus"}
SidKinds == {"absent", "livePolling", "liveUpgraded", "midUpgrade", "closed", "unknown", "rejected"}
JVals == {"absent", "numeric", "nonnumeric"}
TCfgs == {"both", "polling", "websocket"}

EffTr(tr) == IF tr = "absent" THEN "polling" ELSE tr
TrAllowed(tr, cfg) == EffTr(tr) \in (CASE cfg = "both" -> {"polling", "websocket"}
                                      [] cfg = "polling" -> {"polling"}
                                      [] cfg = "websocket" -> {"websocket"})
Live(sk) == sk \in {"livePolling", "liveUpgraded", "midUpgrade"}

\* the conditions of the statement
WellAddressed(m, eio, tr, sk, uh, j, cfg) ==
    /\ TrAllowed(tr, cfg)
    /\ (sk = "absent" => eio = "4")
    /\ j # "nonnumeric"
    /\ CASE m = "GET" ->
              IF sk = "absent"
              THEN EffTr(tr) = "polling" \/ (EffTr(tr) = "websocket" /\ uh)
              ELSE /\ Live(sk)
                   \* a read names the transport the session is using, or is an upgrade of it
                   /\ \/ (sk \in {"livePolling", "midUpgrade"} /\ EffTr(tr) = "polling")
                      \/ (sk = "liveUpgraded" /\ EffTr(tr) = "websocket")
                      \/ (sk = "livePolling" /\ uh /\ EffTr(tr) = "websocket")
         [] m = "POST" -> Live(sk)
         [] m = "OPTIONS" -> TRUE
         [] OTHER -> FALSE

Admit(m, eio, tr, sk, uh, j, cfg) ==
    LET ok == WellAddressed(m, eio, tr, sk, uh, j, cfg)
        wsType == uh /\ m = "GET"
    IN IF ~ok THEN
           [adm |-> FALSE,
            st |-> IF wsType THEN {499, 400}
                   ELSE IF m = "OTHER" THEN {405, 400}      \* either reason may be reported
                   ELSE {400},
            eff |-> "none"]
       ELSE CASE m = "OPTIONS" -> [adm |-> TRUE, st |-> {200}, eff |-> "none"]
              [] m = "POST"    -> [adm |-> TRUE, st |-> {200, 400}, eff |-> "post"]
              [] sk = "absent" -> IF EffTr(tr) = "websocket"
                                  THEN [adm |-> TRUE, st |-> {101}, eff |-> "openws"]
                                  ELSE [adm |-> TRUE, st |-> {200}, eff |-> "open"]
              [] sk = "liveUpgraded" ->
                      \* a second upgrade is refused; a plain read of an upgraded session gets NOOP
                      IF uh THEN [adm |-> FALSE, st |-> {499}, eff |-> "none"]
                      ELSE [adm |-> TRUE, st |-> {200}, eff |-> "noop"]
              [] sk = "midUpgrade" -> [adm |-> TRUE, st |-> {200}, eff |-> "noop"]
              [] uh -> [adm |-> TRUE, st |-> {101}, eff |-> "upgrade"]
              [] OTHER -> [adm |-> TRUE, st |-> {200}, eff |-> "poll"]

AdmitCells ==
    {<<m, e, t, s, u, j, c>> : m \in Methods, e \in EioVals, t \in TrVals, s \in SidKinds,
                               u \in BOOLEAN, j \in JVals, c \in TCfgs}

\* facts of C12
C12_RefusedHasNoEffect ==
    \A x \in AdmitCells : LET r == Admit(x[1], x[2], x[3], x[4], x[5], x[6], x[7])
                          IN ~r.adm => (r.eff = "none" /\ r.st \subseteq {400, 405, 499})
C12_MethodGate ==
    \A x \in AdmitCells : x[1] = "OTHER" => ~Admit(x[1], x[2], x[3], x[4], x[5], x[6], x[7]).adm
C12_OpenNeedsV4 ==
    \A x \in AdmitCells :
        LET r == Admit(x[1], x[2], x[3], x[4], x[5], x[6], x[7])
        IN r.eff \in {"open", "openws"} => (x[2] = "4" /\ x[4] = "absent")
C12_DeadSidRefused ==
    \A x \in AdmitCells :
        (x[4] \in {"closed", "unknown", "rejected"} /\ x[1] \in {"GET", "POST"}) =>
            ~Admit(x[1], x[2], x[3], x[4], x[5], x[6], x[7]).adm

(***************************************************************************)
(* C11 - OPEN handshake                                                    *)
(*  upgrades list names websocket iff an upgrade would be accepted         *)
(***************************************************************************)
UpgradesOffered(allowUpg, cfgT, wsAvail, openTr) ==
    allowUpg /\ cfgT \in {"both", "websocket"} /\ wsAvail /\ openTr = "polling"

\* handler outcome classes: "none" "true" "false" "zero" "emptystr" "text" "dict" "list" "raise"
HandlerOutcomes == {"none", "true", "false", "zero", "emptystr", "text", "dict", "list", "raise"}
Accepts(h) == h \in {"none", "true"}
\* 401 body: the JSON of the value when truthy, else "Unauthorized"
CarriesValue(h) == h \in {"text", "dict", "list"}

OpenCells == {<<a, c, w, t, h>> : a \in BOOLEAN, c \in TCfgs, w \in BOOLEAN,
                                   t \in {"polling", "websocket"}, h \in HandlerOutcomes}
C11_UpgradesOnlyIfAcceptable ==
    \A x \in OpenCells :
        UpgradesOffered(x[1], x[2], x[3], x[4]) =>
            (x[1] /\ x[3] /\ x[4] # "websocket" /\ TrAllowed("websocket", x[2]))

(***************************************************************************)
(* C19 - compression                                                       *)
(*  offered: sequence of encodings named in Accept-Encoding (after         *)
(*  stripping parameters), in order; "gzip" | "deflate" | "other"          *)
(***************************************************************************)
Encodings == {"gzip", "deflate"}
RECURSIVE FirstSupported(_)
FirstSupported(offered) ==
    IF offered = <<>> THEN "none"
    ELSE IF Head(offered) \in Encodings THEN Head(offered) ELSE FirstSupported(Tail(offered))

Compress(enabled, size, threshold, offered) ==
    IF enabled /\ size >= threshold THEN FirstSupported(offered) ELSE "none"

C19_EncodingOnlyIfOffered ==
    \A e \in BOOLEAN, sz \in 0..3, th \in 0..3 :
        \A off \in {<<>>, <<"gzip">>, <<"deflate">>, <<"other">>, <<"other", "deflate">>,
                    <<"gzip", "deflate">>, <<"deflate", "gzip">>} :
            LET c == Compress(e, sz, th, off)
            IN c # "none" => (e /\ sz >= th /\ \E i \in 1..Len(off) : off[i] = c)
=============================================================================
