"""Shared plumbing for the /verif checks: paths, scratch directories, evidence files,
verdict lines, known findings.

Exit codes of a check: 0 = property held on everything explored (possibly with KNOWN-FINDING
lines), 1 = violation (a ``VIOLATION property=<id> replay=<path>`` line was printed),
2 = machinery failure (TLC crashed, vacuity guard, schema error ...).
"""
import atexit
import hashlib
import json
import os
import shutil
import sys
import tempfile
import time

VERIF = os.path.dirname(os.path.dirname(os.path.abspath(__file__)))
REPO = os.environ.get('VERIF_REPO', '/repo')
SPEC = os.path.join(VERIF, 'spec')
# VERIF_OUT redirects evidence and replay files (used when a check is pointed at a scratch tree
# that is not /repo, e.g. a seeded change: what it writes is not evidence about /repo)
_OUT = os.environ.get('VERIF_OUT') or VERIF
EVIDENCE = os.path.join(_OUT, 'evidence')
REPLAYS = os.path.join(_OUT, 'replays')
KNOWN_FINDINGS = os.path.join(VERIF, 'known_findings.json')
NCPU = min(16, os.cpu_count() or 1)

_scratch = []


def scratch(prefix='verif-'):
    """A scratch directory outside /repo and /verif, removed at exit."""
    d = tempfile.mkdtemp(prefix=prefix)
    _scratch.append(d)
    return d


@atexit.register
def _cleanup():
    for d in _scratch:
        shutil.rmtree(d, ignore_errors=True)


def seed():
    try:
        return int(os.environ.get('VERIF_SEED', '0'))
    except ValueError:
        return 0


class MachineryError(Exception):
    pass


class Check:
    """Collects what one run of one property check did and writes the evidence file."""

    def __init__(self, pid, tier, level='model_checking'):
        self.pid = pid
        self.tier = tier
        self.level = level
        self.seed = seed()
        self.t0 = time.time()
        self.cov = {
            'states': 0, 'transitions': 0, 'traces_validated_against_impl': 0,
            'samples': [], 'evaluations': 0, 'distinct_nontrivial': 0, 'rule': '',
            'tlc_runs': [], 'conformance': [],
        }
        self.assumptions = []
        self.violations = []      # (what, replay_path)
        self.known = []           # KNOWN-FINDING lines printed
        self._distinct = set()

    # ---- accounting -----------------------------------------------------------------
    def add_tlc(self, res, what):
        self.cov['states'] += res.distinct
        self.cov['transitions'] += res.generated
        self.cov['tlc_runs'].append({
            'what': what, 'module': res.module, 'cfg': res.cfg,
            'constants': res.constants, 'generated': res.generated,
            'distinct': res.distinct, 'depth': res.depth, 'mode': res.mode,
            'wall_s': round(res.wall, 2), 'actions_covered': res.coverage or None,
        })

    def add_conformance(self, what, n_exec, n_valid, **extra):
        self.cov['traces_validated_against_impl'] += n_valid
        self.cov['evaluations'] += n_exec
        d = {'what': what, 'executions': n_exec, 'validated_by_tlc': n_valid}
        d.update(extra)
        self.cov['conformance'].append(d)

    def distinct(self, key):
        """Count a distinct non-trivial case (key must be hashable / json-able)."""
        if not isinstance(key, (str, bytes)):
            key = json.dumps(key, sort_keys=True, default=repr)
        if isinstance(key, str):
            key = key.encode('utf-8', 'surrogatepass')
        self._distinct.add(hashlib.blake2b(key, digest_size=10).digest())

    def sample(self, s, limit=6):
        if len(self.cov['samples']) < limit:
            self.cov['samples'].append(s)

    def assume(self, text):
        if text not in self.assumptions:
            self.assumptions.append(text)

    # ---- verdicts -------------------------------------------------------------------
    def violation(self, what, replay_obj):
        os.makedirs(REPLAYS, exist_ok=True)
        blob = json.dumps(replay_obj, sort_keys=True, default=repr, indent=1)
        h = hashlib.sha1(blob.encode()).hexdigest()[:12]
        path = os.path.join(REPLAYS, '%s-%s.json' % (self.pid, h))
        with open(path, 'w') as f:
            f.write(blob)
        self.violations.append((what, path))
        print('VIOLATION property=%s replay=%s' % (self.pid, path))
        print('  what: %s' % what)
        sys.stdout.flush()

    def known_finding(self, fid, what):
        line = 'KNOWN-FINDING: property=%s %s %s' % (self.pid, fid, what)
        if line not in self.known:
            self.known.append(line)
            print(line)
            sys.stdout.flush()

    def finish(self):
        cov = self.cov
        cov['distinct_nontrivial'] = len(self._distinct)
        if not cov['samples']:
            cov['samples'] = ['(no sample recorded)']
        ev = {
            'property_id': self.pid,
            'tier': self.tier,
            'seed': self.seed,
            'level': self.level,
            'coverage': cov,
            'assumptions': self.assumptions,
            'wall_s': round(time.time() - self.t0, 2),
            'violations': len(self.violations),
            'known_findings_met': self.known,
        }
        os.makedirs(EVIDENCE, exist_ok=True)
        with open(os.path.join(EVIDENCE, self.pid + '.json'), 'w') as f:
            json.dump(ev, f, indent=1, default=repr)
            f.write('\n')
        print('%s %s: %s  (states=%d traces=%d evaluations=%d distinct=%d, %.1fs)' % (
            self.pid, self.tier, 'VIOLATED' if self.violations else 'held',
            cov['states'], cov['traces_validated_against_impl'], cov['evaluations'],
            cov['distinct_nontrivial'], time.time() - self.t0))
        return 1 if self.violations else 0


def load_known_findings(pid):
    """Entries of known_findings.json for one property: (open findings, fixed entries)."""
    try:
        with open(KNOWN_FINDINGS) as f:
            doc = json.load(f)
    except FileNotFoundError:
        return [], []
    op = [e for e in doc.get('findings', []) if pid in e.get('properties', [])]
    fx = [e for e in doc.get('fixed', []) if pid in e.get('properties', [])]
    return op, fx
