--------------------------- MODULE EioQueueFineWs ---------------------------
(***************************************************************************)
(* L2, websocket half: one websocket session of the threaded server        *)
(* (Socket._websocket_handler after the handshake) at the grain of one     *)
(* queue primitive per step.  Two long-lived tasks belong to the session:  *)
(*   reader  the request task: waits for frames; when the socket closes    *)
(*           under it (client gone, or the writer closed it) it puts a     *)
(*           sentinel, joins the writer thread and closes the session      *)
(*           (abort, "transport close")                                    *)
(*   writer  the background thread: poll() in a loop, frames out; an empty *)
(*           poll (sentinel) ends it and it closes the websocket           *)
(* plus the short tasks of EioQueueFine that apply: "send", "disc"         *)
(* (disconnect(sid) with its join) and the environment events "frame       *)
(* CLOSE" and "client gone".                                               *)
(*                                                                         *)
(* Under weak fairness disconnect(sid) does not always return: the writer  *)
(* drives the counter to zero, the reader - woken by the closing socket -  *)
(* puts its sentinel, and if the joining thread did not run in between it  *)
(* waits for ever.  That is finding F6b at this grain.                     *)
(***************************************************************************)
EXTENDS EioQueueFine

CONSTANT WsEnv       \* environment events enabled: subset of {"close", "gone"}

VARIABLES wsopen,     \* the server side has not closed the websocket
          gone,       \* the client went away (its end is closed)
          inframes    \* frames from the client not yet read ("CLOSE" only)
wvars == <<q, unf, closing, closed, intable, ev, deliv, sent, kind, pc, pk, it, resp,
           nx, alloc, putord, wsopen, gone, inframes>>

Reader == CHOOSE p \in Proc : \A o \in Proc : p <= o
Writer == CHOOSE p \in Proc \ {Reader} : \A o \in Proc \ {Reader} : p <= o
Others == Proc \ {Reader, Writer}

\* the session is up: writer blocked in queue.get(), reader waiting for a frame
WsInit ==
    /\ q = <<>> /\ unf = 0 /\ closing = FALSE /\ closed = FALSE /\ intable = TRUE
    /\ ev = <<>> /\ deliv = <<>> /\ sent = 0
    /\ kind = [p \in Proc |-> IF p = Reader THEN "reader" ELSE IF p = Writer THEN "writer" ELSE "none"]
    /\ pc = [p \in Proc |-> IF p = Reader THEN "r_wait" ELSE IF p = Writer THEN "wait" ELSE "idle"]
    /\ pk = [p \in Proc |-> <<>>] /\ it = [p \in Proc |-> NIL] /\ resp = [p \in Proc |-> "none"]
    /\ nx = [p \in Proc |-> "done"] /\ alloc = 0 /\ putord = <<>>
    /\ wsopen = TRUE /\ gone = FALSE /\ inframes = <<>>

WsUnch == UNCHANGED <<wsopen, gone, inframes>>

(* ---- writer: poll() in a loop ---- *)
WGet ==
    /\ pc[Writer] = "wait" /\ q # <<>>
    /\ it' = [it EXCEPT ![Writer] = Head(q)] /\ q' = Tail(q)
    /\ Goto(Writer, "td1")
    /\ UNCHANGED <<unf, closing, closed, intable, ev, deliv, sent, kind, pk, aux>> /\ WsUnch
WTd1 ==
    /\ pc[Writer] = "td1"
    /\ TaskDone
    /\ pk' = [pk EXCEPT ![Writer] = IF it[Writer] = NIL THEN <<>> ELSE <<it[Writer]>>]
    /\ Goto(Writer, IF it[Writer] = NIL THEN "w_close" ELSE "more")
    /\ UNCHANGED <<closing, closed, intable, ev, deliv, sent, kind, it, aux>> /\ WsUnch
\* poll() returned: frames out (ws.send is no queue primitive).  If the client is gone the
\* send fails, the loop ends, the writer closes the websocket and returns; otherwise the next
\* poll() calls queue.get()
WFlush ==
    IF gone
    THEN /\ wsopen' = FALSE /\ Ret(Writer, "end")
         /\ pk' = [pk EXCEPT ![Writer] = <<>>] /\ UNCHANGED deliv
    ELSE /\ deliv' = deliv \o pk[Writer]
         /\ pk' = [pk EXCEPT ![Writer] = <<>>]
         /\ Goto(Writer, "wait") /\ UNCHANGED wsopen
WMore ==
    /\ pc[Writer] = "more"
    /\ IF Len(pk[Writer]) >= Cap \/ q = <<>>
       THEN WFlush /\ UNCHANGED <<q, it>>
       ELSE /\ it' = [it EXCEPT ![Writer] = Head(q)] /\ q' = Tail(q)
            /\ Goto(Writer, "td2")
            /\ UNCHANGED <<deliv, pk, wsopen>>
    /\ UNCHANGED <<unf, closing, closed, intable, ev, sent, kind, aux, gone, inframes>>
WTd2 ==
    /\ pc[Writer] = "td2"
    /\ TaskDone
    /\ IF it[Writer] = NIL
       THEN Goto(Writer, "reput") /\ UNCHANGED pk
       ELSE pk' = [pk EXCEPT ![Writer] = Append(@, it[Writer])] /\ Goto(Writer, "more")
    /\ UNCHANGED <<closing, closed, intable, ev, deliv, sent, kind, it, aux>> /\ WsUnch
WReput ==
    /\ pc[Writer] = "reput"
    /\ PrePut(Writer, NIL, "flush")
    /\ UNCHANGED <<q, unf, closing, closed, intable, ev, deliv, sent, kind, pk, alloc, putord>> /\ WsUnch
WFlushStep ==
    /\ pc[Writer] = "flush"
    /\ WFlush
    /\ UNCHANGED <<q, unf, closing, closed, intable, ev, sent, kind, it, aux, gone, inframes>>
\* the loop ended: ws.close() - which wakes the reader, so the scheduler may switch before the
\* thread function returns (when the client is gone already nobody is woken: one step)
WClose ==
    /\ pc[Writer] = "w_close"
    /\ wsopen' = FALSE
    /\ IF gone THEN Ret(Writer, "end") ELSE Goto(Writer, "w_ret")
    /\ UNCHANGED <<q, unf, closing, closed, intable, ev, deliv, sent, kind, pk, it, aux, gone, inframes>>
WRet ==
    /\ pc[Writer] = "w_ret"
    /\ Ret(Writer, "end")
    /\ UNCHANGED <<q, unf, closing, closed, intable, ev, deliv, sent, kind, pk, it, aux>> /\ WsUnch

(* ---- reader ---- *)
\* a CLOSE frame: receive() -> close(wait=False, abort=True), then `if self.closed: break`
\* and the sentinel for the writer.  Session open: close() itself makes a put(None) (flags and
\* event now, then the call of the put), a second one follows.  Already closed: close() is a
\* no-op and the reader leaves the loop: the call of its put(None).  Closing but not yet closed
\* (another task is between the steps of close()): nothing happens and the loop goes on.
RFrameClose ==
    /\ pc[Reader] = "r_wait" /\ inframes # <<>>     \* (a frame already received is still handed over)
    /\ inframes' = Tail(inframes)
    /\ IF closed
       THEN /\ PrePut(Reader, NIL, "r_join") /\ UNCHANGED <<closing, closed, ev>>
       ELSE IF closing
       THEN /\ Goto(Reader, "r_wait") /\ UNCHANGED <<closing, closed, ev, it, nx>>
       ELSE /\ closing' = TRUE /\ ev' = Append(ev, "client") /\ closed' = TRUE
            /\ PrePut(Reader, NIL, "r_put")
    /\ UNCHANGED <<q, unf, intable, deliv, sent, kind, pk, alloc, putord, wsopen, gone>>
\* the socket closes under the reader (client gone, or the writer closed it): leave the loop;
\* the call of the put(None) that unlocks the writer
RSocketClosed ==
    /\ pc[Reader] = "r_wait" /\ (~wsopen \/ gone) /\ inframes = <<>>
    /\ PrePut(Reader, NIL, "r_join")
    /\ UNCHANGED <<q, unf, closing, closed, intable, ev, deliv, sent, kind, pk, alloc, putord>> /\ WsUnch
RPut ==
    /\ pc[Reader] = "r_put"
    /\ PrePut(Reader, NIL, "r_join")
    /\ UNCHANGED <<q, unf, closing, closed, intable, ev, deliv, sent, kind, pk, alloc, putord>> /\ WsUnch
\* writer_task.join(), then close(wait=False, abort=True, "transport close"); when the handler
\* returns, the server drops the session from the table if it is closed
RJoin ==
    /\ pc[Reader] = "r_join" /\ pc[Writer] = "done"
    /\ IF closed \/ closing
       THEN /\ Ret(Reader, "end") /\ intable' = (intable /\ ~closed)
            /\ UNCHANGED <<closing, closed, ev, it, nx>>
       ELSE /\ closing' = TRUE /\ ev' = Append(ev, "tclose") /\ closed' = TRUE
            /\ PrePut(Reader, NIL, "r_end") /\ UNCHANGED intable
    /\ UNCHANGED <<q, unf, deliv, sent, kind, pk, alloc, putord>> /\ WsUnch
REnd ==
    /\ pc[Reader] = "r_end"
    /\ Ret(Reader, "end") /\ intable' = FALSE
    /\ UNCHANGED <<q, unf, closing, closed, ev, deliv, sent, kind, pk, it, aux>> /\ WsUnch

(* ---- environment ---- *)
ClientSendsClose ==
    /\ "close" \in WsEnv /\ ~gone /\ inframes = <<>> /\ pc[Reader] = "r_wait"
    /\ inframes' = <<"CLOSE">>
    /\ UNCHANGED <<q, unf, closing, closed, intable, ev, deliv, sent, kind, pc, pk, it, resp, aux,
                   wsopen, gone>>
ClientGone ==
    /\ "gone" \in WsEnv /\ ~gone /\ gone' = TRUE
    /\ UNCHANGED <<q, unf, closing, closed, intable, ev, deliv, sent, kind, pc, pk, it, resp, aux,
                   wsopen, inframes>>

ShortStep(p) ==
    /\ p \in Others
    /\ \/ DoPut(p) \/ SendBegin(p) \/ SendEnd(p)
       \/ DiscBegin(p) \/ DiscNil(p) \/ DiscJoin(p) \/ DiscDel(p)
    /\ WsUnch
WsStart(p, k) == p \in Others /\ k \in {"send", "disc"} /\ Start(p, k) /\ WsUnch

WriterStep == (DoPut(Writer) /\ WsUnch) \/ WGet \/ WTd1 \/ WMore \/ WTd2 \/ WReput \/ WFlushStep \/ WClose \/ WRet
ReaderStep == (DoPut(Reader) /\ WsUnch) \/ RFrameClose \/ RSocketClosed \/ RPut \/ RJoin \/ REnd
WsNext ==
    \/ WriterStep \/ ReaderStep
    \/ \E p \in Others : ShortStep(p) \/ \E k \in {"send", "disc"} : WsStart(p, k)
    \/ ClientSendsClose \/ ClientGone
WsSpec == WsInit /\ [][WsNext]_wvars
WsFairSpec == WsSpec /\ WF_wvars(WriterStep) /\ WF_wvars(ReaderStep)
                     /\ \A p \in Others : WF_wvars(ShortStep(p))

WsTypeOK == /\ unf \in Nat /\ Len(q) <= unf
            /\ pc[Reader] \in {"r_wait", "r_put", "r_join", "r_end", "put", "done"}
            /\ pc[Writer] \in {"wait", "td1", "more", "td2", "reput", "put", "flush", "w_close", "w_ret", "done"}
\* what the writer holds counts as held (Held of EioQueueFine covers td1 / td2 / pk)
WsNoLossNoDup == ~gone => NoLossNoDup
\* frames leave in sending order
WsInOrder == ~gone => Everywhere = putord
\* once the session is closed both long-lived tasks end (the reader needs the socket to close,
\* which the writer does when it meets the sentinel)
WsTasksEnd == closed ~> (pc[Reader] = "done" /\ pc[Writer] = "done")
\* expected to FAIL: finding F6b
WsDisconnectReturns == \A p \in Others : (kind[p] = "disc" /\ pc[p] = "begin") ~> (pc[p] = "done")
=============================================================================
