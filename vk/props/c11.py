"""C11 - OPEN handshake reflects configuration and honours the connect handler."""
import itertools
import json
import random

from ..common import Check
from ..harness import world as W
from . import httpcommon as H

INTERVALS = [0.25, 0.5, 1, 1.5, 2, 25]
GRACES = [0, 0.25, 5]
TIMEOUTS = [0.25, 0.5, 1, 20]
MAXBUFS = [1, 10, 1000000]
TCFG = {'both': None, 'polling': ['polling'], 'websocket': ['websocket']}
COOKIES = {
    'none': None,
    'name': 'sessid',
    'dict': {'name': 'c', 'path': '/x', 'SameSite': 'Strict'},
    'dictbool': {'name': 'c', 'Secure': True, 'HttpOnly': False, 'path': '/'},
    'dictcall': {'name': 'c', 'Max-Age': lambda: '60', 'path': '/'},
    # callables may also decide a flag attribute
    'dictcallbool': {'name': 'c', 'Secure': lambda: False, 'HttpOnly': lambda: True, 'path': '/'},
}
OUTCOMES = {'none': None, 'true': True, 'false': False, 'zero': 0, 'emptystr': '',
            'text': 'go away', 'dict': {'reason': 'no', 'code': 7}, 'list': [1, 'two'], 'raise': 'RAISE'}


def expected_cookie(form, sid):
    c = COOKIES[form]
    if c is None:
        return None
    if isinstance(c, str):
        return '%s=%s; path=/; SameSite=Lax' % (c, sid)
    out = '%s=%s' % (c.get('name', 'io'), sid)
    for k, v in c.items():
        if k == 'name':
            continue
        if callable(v):
            v = v()
        if v is True:
            out += '; ' + k
        elif v is False:
            continue
        else:
            out += '; %s=%s' % (k, v)
    return out


def one(impl, cell):
    I, G, T, mb, allow, cfgt, wsavail, cookie, h, opentr, jsonp, hsend = cell
    if opentr not in (TCFG[cfgt] or ['polling', 'websocket']):
        return None
    if opentr == 'websocket' and not wsavail:
        return None      # nothing can be opened: the request is refused (EioServer covers it)
    cfg = {'ping_interval': int(I * 16), 'ping_timeout': int(T * 16), 'grace': int(G * 16),
           'max_buf': mb, 'allow_upgrades': allow, 'transports': TCFG[cfgt],
           'ws_available': wsavail, 'cookie': COOKIES[cookie],
           # a raising connect handler raises one of several exception classes (TypeError is the
           # one the servers themselves catch to detect legacy handlers)
           'exc_type': ('type', 'runtime', 'key', 'value', 'os')[sum(map(ord, repr(cell))) % 5]}
    w = W.make_world(impl, cfg)
    try:
        w.connect_plan = [('raise', hsend)] if h == 'raise' else [(('ret', OUTCOMES[h]), hsend)]
        n0 = len(w.server.sockets)
        q = 'transport=%s&EIO=4' % opentr + ('&j=7' if jsonp else '')
        if opentr == 'websocket':
            rid = w.ws_request(q)
        else:
            rid = w.http('GET', q)
        w.quiesce()
        r = w.reqs[rid]
        sid = getattr(w, 'last_connect_sid', None)
        nsess = len(w.server.sockets) - n0
        accepts = h in ('none', 'true')
        rec = {'k': 'open', 'allowupg': allow, 'cfgt': cfgt, 'wsavail': wsavail, 'opentr': opentr,
               'h': h, 'status': 0, 'first': '', 'sidok': False, 'piok': False, 'ptok': False,
               'mpok': False, 'upgrades': False, 'cookieok': False, 'sessions': nsess,
               'addressable': False, 'bodyval': False, 'bodyok': False}
        data = None
        if opentr == 'websocket':
            conn = r.conn
            rec['status'] = 200 if conn.accepted else (
                int(str(r.status).split(' ')[0]) if impl == 'sync' and r.status else 401)
            if conn.accepted and conn.out:
                f = conn.out[0]
                if isinstance(f, str) and f[:1] == '0':
                    rec['first'] = 'OPEN'
                    data = json.loads(f[1:])
            rec['cookieok'] = True        # no cookie header on websocket opens (assumption)
            body = r.body if impl == 'sync' else None
        else:
            rec['status'] = H.status_of(r)
            body = r.body
            text = (body or b'').decode('utf-8', 'replace')
            if jsonp:
                from ..harness import jslit
                pr = jslit.jsonp_parse(text)
                try:
                    text = jslit.js_string_eval(pr[1]) if pr and pr[0] == '7' else ''
                except ValueError:
                    text = ''
            first = text.split('\x1e')[0]
            if first[:1] == '0':
                rec['first'] = 'OPEN'
                try:
                    data = json.loads(first[1:])
                except Exception:
                    data = None
            ck_hdr = H.header(r.headers, 'Set-Cookie')
            exp = expected_cookie(cookie, sid) if accepts else None
            rec['cookieok'] = (ck_hdr == [exp]) if exp else (ck_hdr == [])
        if isinstance(data, dict):
            rec['sidok'] = data.get('sid') == sid and isinstance(sid, str)
            rec['piok'] = type(data.get('pingInterval')) is int and \
                data['pingInterval'] == round((I + G) * 1000)
            rec['ptok'] = type(data.get('pingTimeout')) is int and data['pingTimeout'] == round(T * 1000)
            rec['mpok'] = data.get('maxPayload') == mb
            rec['upgrades'] = data.get('upgrades') == ['websocket']
            if data.get('upgrades') not in ([], ['websocket']):
                rec['upgrades'] = 'bad'
        if not accepts:
            val = OUTCOMES[h]
            carries = h in ('text', 'dict', 'list')
            expect = json.dumps(val if carries else 'Unauthorized').encode()
            if body is not None:
                rec['bodyok'] = body == expect
                rec['bodyval'] = carries and body == expect
            else:
                rec['bodyok'] = True
                rec['bodyval'] = carries
        # is the id addressable afterwards?
        if sid is not None:
            ev0 = json.dumps(w.events, sort_keys=True)
            if opentr == 'websocket' and accepts:
                r2 = H.run_request(w, 'POST', 'transport=websocket&EIO=4&sid=' + sid, body=b'3')
            else:
                r2 = H.run_request(w, 'GET', 'transport=polling&EIO=4&sid=' + sid)
            st2 = H.status_of(r2) if r2.done else 200
            rec['addressable'] = st2 == 200
            if not accepts and json.dumps(w.events, sort_keys=True) != ev0:
                rec['addressable'] = True      # an event for a rejected id
            try:
                w.server.transport(sid)
                if not accepts:
                    rec['addressable'] = True
            except KeyError:
                pass
        return rec
    finally:
        w.close()


def cells(tier, rng):
    doms = [INTERVALS, GRACES, TIMEOUTS, MAXBUFS, [True, False], list(TCFG), [True, False],
            list(COOKIES), list(OUTCOMES), ['polling', 'websocket'], [False, True], [False, True]]
    nominal = (25, 0, 20, 1000000, True, 'both', True, 'none', 'none', 'polling', False, False)
    pick = {nominal}
    for i, d in enumerate(doms):
        for v in d:
            c = list(nominal)
            c[i] = v
            pick.add(tuple(c))
    # pairs of (upgrade-relevant factors) completely
    for a, c, wv, t in itertools.product([True, False], list(TCFG), [True, False],
                                         ['polling', 'websocket']):
        pick.add((25, 0, 20, 1000000, a, c, wv, 'none', 'none', t, False, False))
    for h in OUTCOMES:
        for t in ('polling', 'websocket'):
            for ck_ in COOKIES:
                pick.add((1, 0.25, 0.5, 10, True, 'both', True, ck_, h, t, False, False))
                pick.add((1, 0.25, 0.5, 10, True, 'both', True, ck_, h, t, True, True))
    for I, G in itertools.product(INTERVALS, GRACES):
        pick.add((I, G, 0.25, 1, True, 'both', True, 'name', 'none', 'polling', True, False))
    n = 3000 if tier == 'thorough' else 300
    allc = list(itertools.product(*doms))
    for c in rng.sample(allc, n):
        pick.add(c)
    return sorted(pick, key=repr)


def run(tier):
    ck = Check('C11', tier)
    H.tlc_tables(ck, 'EioHttp decision tables: facts over every cell (UpgradesOffered / OpenReply)')
    rng = random.Random(ck.seed)
    cs = cells(tier, rng)
    recs, metas = [], []
    for impl in ('sync', 'async'):
        for cell in cs:
            rec = one(impl, cell)
            if rec is None:
                continue
            recs.append(rec)
            metas.append({'impl': impl, 'cell': [str(x) for x in cell]})
            ck.distinct([impl] + [str(x) for x in cell])
    traces, v = H.validate(ck, recs, 'open requests: %d configuration / handler-outcome cells x 2 '
                                     'servers (single-factor sweeps, complete upgrade-factor product, '
                                     'handler outcomes x cookie forms x transport, random sample)' % len(cs))
    bad = 0
    for ti in v.rejected:
        for jx, rec in enumerate(traces[ti]):
            if not ok_open(rec):
                bad += 1
                if bad <= 5:
                    ck.violation('OPEN handshake contradicts EioHttp (%s): %r' % (
                        metas[ti * 400 + jx], rec), {'record': rec, 'meta': metas[ti * 400 + jx]})
    if v.rejected and not bad:
        ck.violation('trace rejected', {'n': len(v.rejected)})
    ck.sample({'record': recs[0], 'cell': metas[0]})
    ck.cov['rule'] = ('case = one open request on a fresh server with one configuration cell and one '
                      'connect-handler outcome; distinct by (server, cell)')
    ck.assume('configured times are multiples of 1/8 s (exactly representable, whole milliseconds)')
    ck.assume('the session cookie is checked on polling opens; a websocket open carries no response '
              'headers through the gateways used here')
    return ck.finish()


def ok_open(e):
    accepts = e['h'] in ('none', 'true')
    if accepts:
        offered = e['allowupg'] and e['cfgt'] in ('both', 'websocket') and e['wsavail'] and \
            e['opentr'] == 'polling'
        return (e['status'] == 200 and e['first'] == 'OPEN' and e['sidok'] and e['piok'] and
                e['ptok'] and e['mpok'] and e['upgrades'] == offered and e['cookieok'] and
                e['sessions'] == 1 and e['addressable'])
    return (e['status'] == 401 and e['bodyval'] == (e['h'] in ('text', 'dict', 'list')) and
            e['bodyok'] and e['sessions'] == 0 and not e['addressable'])


def replay(path):
    print(open(path).read()[:3000])
    return 1
