------------------------------ MODULE EioServer ------------------------------
(***************************************************************************)
(* The Engine.IO server core of python-engineio: per-session state machine *)
(* (socket.py / async_socket.py), session table, request handling and the  *)
(* service (monitor) task (server.py / async_server.py), at the            *)
(* block-to-block grain (level L1 of DESIGN.md 1.3): one internal action = *)
(* one task running from the point where it was unblocked to the point     *)
(* where it blocks again or ends.  Both implementations are validated      *)
(* against this one specification; the few differences on which the listed *)
(* properties are silent are implementation parameters (ImplXxx), known      *)
(* defects are deviation branches enabled by the constant Deviations.      *)
(*                                                                         *)
(* Time is an integer number of ticks.  Tick is enabled only when no       *)
(* internal action is (computation takes no time) and never jumps over a   *)
(* pending deadline.                                                       *)
(***************************************************************************)
EXTENDS Naturals, Integers, Sequences, FiniteSets, TLC

CONSTANTS
    Sid,              \* session slots 1..N (allocated in order)
    MaxMsg,           \* server->client messages per session (bounds the model)
    PingInterval,     \* ticks
    PingTimeout,      \* ticks
    AsyncHandlers,    \* BOOLEAN: message handlers run on background tasks
    Monitor,          \* BOOLEAN: service task enabled
    WsAvailable,      \* BOOLEAN: the async mode offers a websocket
    Transports,       \* subset of {"polling", "websocket"} the server allows
    ImplSentinel,     \* BOOLEAN: close() puts the None sentinel (both servers; FALSE = the
                      \* asyncio behaviour before its repair, kept as a negative control)
    ImplWsReadTimeout,\* BOOLEAN: websocket reads time out after I+T (asyncio)
    ImplJoinLatch,    \* BOOLEAN: queue.join() returns once the counter has been 0 (asyncio)
    Deviations,       \* set of known-defect names whose behaviour is admitted
    Horizon           \* latest tick (bounds the model; traces use a large value)

NIL == "NIL"
None == -1
Reasons == {"server", "client", "pingto", "tclose", "terror"}

SrvMsg(n) == "M" \o ToString(n)
IsSrvMsg(p) == Len(p) >= 2 /\ SubSeq(p, 1, 1) = "M"
IsCliMsg(p) == Len(p) >= 2 /\ SubSeq(p, 1, 1) = "m"

VARIABLES
    now,
    g,        \* the part of the state that nested calls (send, close, receive ...) touch
    polls,    \* tasks blocked in queue.get(), FIFO: [s, rid, dl, kind]
    psleep,   \* ping tasks sleeping: [s, wake]
    wsr,      \* per session: websocket handler task [st, rid, dl]
    wsin,     \* per session: frames received on the websocket, not yet read by the handler
    wsw,      \* per session: writer task "none" | "new" | "run" | "done"
    wsgone,   \* per session: the websocket is closed (by the peer or by the server)
    joiners,  \* tasks blocked in queue.join(): [s, kind, id, rest]
    mon,      \* service task
    nreq      \* request / call counter (ids)

vars == <<now, g, polls, psleep, wsr, wsin, wsw, wsgone, joiners, mon, nreq>>

FreshSess == [used |-> FALSE, conn |-> FALSE, upging |-> FALSE, upged |-> FALSE,
              closing |-> FALSE, closed |-> FALSE, lp |-> None, q |-> <<>>, unf |-> 0,
              ud |-> 0]

(***************************************************************************)
(* g fields:                                                               *)
(*   ss     [Sid -> session record]                                        *)
(*   table  set of Sid currently in server.sockets                         *)
(*   ev     [Sid -> Seq(event)]       application events seen by handlers  *)
(*   sent   [Sid -> Nat]              messages accepted by send()          *)
(*   deliv  [Sid -> Seq(<<msg, via>>)] messages handed to the client       *)
(*   hq     Seq([s, tok])             background message handlers not yet run *)
(*   pstart [Sid -> Nat]              ping tasks spawned, not yet started  *)
(*   out    Seq(output)               outputs of the current step, in order *)
(*   exc    "none" | name             exception propagating out of a nested call *)
(*   dev    set of deviations that fired                                   *)
(*   cause  [Sid -> first end cause]   rcvd [Sid -> Seq(client messages     *)
(*   accepted)]   endt [Sid -> time of close]                               *)
(*   hs     [Sid -> how the session came to be on websocket: "none",        *)
(*          "probed" (PING probe answered), "upgraded" (then UPGRADE),      *)
(*          "fresh" (opened as websocket)]                                  *)
(*   rejd   sessions whose connect handler rejected the connection          *)
(*   jzero  [Sid -> unfinished count reached 0 since the last join began]   *)
(*   late   the input being processed (POST body, websocket frame) began    *)
(*          after its session's disconnect event; evl [Sid -> that flag for *)
(*          each event] - history for "nothing after the disconnect"        *)
(***************************************************************************)

InitG == [ss |-> [s \in Sid |-> FreshSess], table |-> {},
          ev |-> [s \in Sid |-> <<>>], sent |-> [s \in Sid |-> 0],
          deliv |-> [s \in Sid |-> <<>>], hq |-> <<>>, pstart |-> [s \in Sid |-> 0],
          out |-> <<>>, exc |-> "none", dev |-> {}, cause |-> [s \in Sid |-> "none"],
          rcvd |-> [s \in Sid |-> <<>>], endt |-> [s \in Sid |-> None],
          hs |-> [s \in Sid |-> "none"], rejd |-> {}, jzero |-> [s \in Sid |-> FALSE],
          late |-> FALSE, evl |-> [s \in Sid |-> <<>>]]

NoWs == [st |-> "none", rid |-> 0, dl |-> None]

Init ==
    /\ now = 0
    /\ g = InitG
    /\ polls = <<>>
    /\ psleep = <<>>
    /\ wsr = [s \in Sid |-> NoWs]
    /\ wsin = [s \in Sid |-> <<>>]
    /\ wsw = [s \in Sid |-> "none"]
    /\ wsgone = [s \in Sid |-> FALSE]
    /\ joiners = <<>>
    /\ mon = [st |-> IF Monitor THEN "off" ELSE "disabled", wake |-> 0, todo |-> <<>>,
              step |-> 0]
    /\ nreq = 0

-----------------------------------------------------------------------------
(* Sequence helpers *)
RemoveAt(sq, i) == SubSeq(sq, 1, i - 1) \o SubSeq(sq, i + 1, Len(sq))
FirstIdx(sq, P(_)) == IF \E i \in 1..Len(sq) : P(sq[i])
                      THEN CHOOSE i \in 1..Len(sq) : P(sq[i]) /\ \A j \in 1..(i-1) : ~P(sq[j])
                      ELSE 0
SelectSeq2(sq, P(_)) == SelectSeq(sq, P)

Out(gg, o) == [gg EXCEPT !.out = Append(@, o)]
Event(gg, s, e) == Out([gg EXCEPT !.ev[s] = Append(@, e), !.evl[s] = Append(@, gg.late)],
                       [k |-> "ev", s |-> s, e |-> e])
BeginInput(gg, s) == [gg EXCEPT !.late = gg.ss[s].closing]

-----------------------------------------------------------------------------
(* Nested calls of socket.py, as state transformers on g.                   *)

Put(gg, s, p) == [gg EXCEPT !.ss[s].q = Append(@, p), !.ss[s].unf = @ + 1]

Expired(gg, s) == gg.ss[s].lp # None /\ now - gg.ss[s].lp > PingTimeout

\* Socket.close(): the part before the optional queue.join().
\* send(CLOSE) inside re-enters check_ping_timeout: when the ping has expired the nested
\* close() is a no-op (closing is already set) and send() returns without queuing.
Close(gg, s, abort, reason) ==
    IF gg.ss[s].closed \/ gg.ss[s].closing THEN gg
    ELSE LET g1 == Event([gg EXCEPT !.ss[s].closing = TRUE,
                                    !.cause[s] = IF @ = "none" THEN reason ELSE @,
                                    !.endt[s] = now],
                         s, "disc:" \o reason)
             g2 == IF abort \/ Expired(g1, s) THEN g1 ELSE Put(g1, s, "CLOSE")
             g3 == [g2 EXCEPT !.ss[s].closed = TRUE]
         IN IF ImplSentinel THEN Put(g3, s, NIL) ELSE g3

\* Socket.check_ping_timeout() + Socket.send()
Send(gg, s, p) ==
    IF gg.ss[s].closed THEN [gg EXCEPT !.exc = "closed"]
    ELSE IF Expired(gg, s) THEN Close(gg, s, FALSE, "pingto")
    ELSE Put(gg, s, p)

\* monitor's call
CheckPing(gg, s) ==
    IF gg.ss[s].closed THEN [gg EXCEPT !.exc = "closed"]
    ELSE IF Expired(gg, s) THEN Close(gg, s, FALSE, "pingto")
    ELSE gg

\* server.send(sid, data)  (send_packet): unknown or closed sid is a silent no-op;
\* a closed session still in the table is reaped by _get_socket.
AppSendG(gg, s) ==
    IF s \notin gg.table THEN gg
    ELSE IF gg.ss[s].closed THEN [gg EXCEPT !.table = @ \ {s}]
    ELSE IF gg.sent[s] >= MaxMsg THEN gg
    ELSE LET m == SrvMsg(gg.sent[s] + 1)
             g1 == Send(gg, s, m)
         IN IF Len(g1.ss[s].q) > Len(gg.ss[s].q) /\ g1.ss[s].q[Len(g1.ss[s].q)] = m
               /\ ~g1.ss[s].closed
            THEN [g1 EXCEPT !.sent[s] = @ + 1] ELSE g1

\* Socket.receive(pkt).  Message handler behaviour is encoded in the token:
\*   m<n>  plain;  mE<n> the handler echoes (server.send to the same sid);
\*   mX<n> the handler raises.  BAD = a packet type the server does not accept.
IsEcho(p) == Len(p) >= 3 /\ SubSeq(p, 1, 2) = "mE"
RunMsgHandler(gg, s, p) ==
    LET g1 == Event(gg, s, "msg:" \o p)
    IN IF IsEcho(p) THEN AppSendG(g1, s) ELSE g1

Receive(gg, s, p) ==
    CASE p = "PONG"    -> [gg EXCEPT !.pstart[s] = @ + 1]
      [] IsCliMsg(p)   -> IF AsyncHandlers
                          THEN [gg EXCEPT !.hq = Append(@, [s |-> s, tok |-> p, late |-> gg.late]),
                                          !.rcvd[s] = Append(@, p)]
                          ELSE RunMsgHandler([gg EXCEPT !.rcvd[s] = Append(@, p)], s, p)
      [] p = "UPGRADE" -> Send(gg, s, "NOOP")
      [] p = "CLOSE"   -> Close(gg, s, TRUE, "client")
      [] OTHER         -> IF "AsyncUnknownTypeSwallowed" \in Deviations /\ p = "BAD7"
                          THEN [gg EXCEPT !.exc = "index", !.dev = @ \cup {"AsyncUnknownTypeSwallowed"}]
                          ELSE [gg EXCEPT !.exc = "unknown"]

\* process the packets of a body in order until one raises
RECURSIVE ReceiveAll(_, _, _)
ReceiveAll(gg, s, body) ==
    IF body = <<>> \/ gg.exc # "none" THEN gg
    ELSE ReceiveAll(Receive(gg, s, Head(body)), s, Tail(body))

\* Socket.poll() once the first get() has an item: returns <<packets, queue', finished>>
\* A drained sentinel is re-put at the end of the queue.
DrainIdx(q) == FirstIdx(q, LAMBDA x : x = NIL)
MaxPk == 16   \* packets per payload (Payload.max_decode_packets)
Min2(a, b) == IF a < b THEN a ELSE b
Drain(q) ==
    \* done = net decrease of the unfinished counter; tdone = number of task_done() calls
    \* (the counter transiently goes that low before a drained sentinel is put again).
    \* At most MaxPk packets are taken; a sentinel met within that limit is put again.
    IF Head(q) = NIL THEN [pk |-> <<>>, q |-> Tail(q), done |-> 1, tdone |-> 1]
    ELSE LET i == DrainIdx(q)
         IN IF i # 0 /\ i - 1 < MaxPk
            THEN [pk |-> SubSeq(q, 1, i - 1),
                  q |-> Append(SubSeq(q, i + 1, Len(q)), NIL),
                  done |-> i - 1, tdone |-> i]
            ELSE LET m == Min2(MaxPk, Len(q))
                 IN [pk |-> SubSeq(q, 1, m), q |-> SubSeq(q, m + 1, Len(q)), done |-> m,
                     tdone |-> m]

DoDrain(gg, s) ==
    LET d == Drain(gg.ss[s].q)
    IN [gg EXCEPT !.ss[s].q = d.q, !.ss[s].unf = @ - d.done,
                  !.jzero[s] = @ \/ (gg.ss[s].unf - d.tdone = 0)]

Delivered(gg, s, pk, via) ==
    [gg EXCEPT !.deliv[s] = @ \o [i \in 1..Len(SelectSeq(pk, IsSrvMsg)) |->
                                     <<SelectSeq(pk, IsSrvMsg)[i], via>>]]

Resp(gg, rid, status, pk) == Out(gg, [k |-> "resp", rid |-> rid, status |-> status, pk |-> pk])

\* removal of a closed session from the table after a GET request (server.py:297-299)
ReapIfClosed(gg, s) ==
    IF s \in gg.table /\ gg.ss[s].closed THEN [gg EXCEPT !.table = @ \ {s}] ELSE gg

-----------------------------------------------------------------------------
(* Environment actions: requests, frames, application calls.  The server is *)
(* input-enabled: refusals are outcomes, not disabled actions.              *)

UsedSids == {s \in Sid : g.ss[s].used}
FreeSids == Sid \ UsedSids
NextFree == CHOOSE s \in FreeSids : \A t \in FreeSids : s <= t

EnvStart(gg) == [gg EXCEPT !.out = <<>>, !.exc = "none", !.late = FALSE]

MonStart(m) == IF m.st = "off" THEN [m EXCEPT !.st = "new"] ELSE m

\* GET without sid, transport=polling.  outcome: "accept" | "reject"; hsend: the connect
\* handler sends a message to the new session.
Refuse(status) ==
    /\ nreq' = nreq + 1
    /\ g' = Resp(EnvStart(g), nreq + 1, status, <<>>)
    /\ UNCHANGED <<now, polls, psleep, wsr, wsin, wsw, wsgone, joiners, mon>>

\* any request the admission chain refuses (wrong method, version, transport, session id,
\* JSONP index ...) and OPTIONS: answered with the given status, no effect whatsoever
AnyReq(status) == status \in {200, 400, 405} /\ Refuse(status)

OpenPolling(outcome, hsend) ==
    IF "polling" \notin Transports THEN Refuse(400) ELSE
    /\ FreeSids # {}
    /\ LET s == NextFree
           rid == nreq + 1
           g0 == EnvStart(g)
           g1 == [g0 EXCEPT !.ss[s] = [FreshSess EXCEPT !.used = TRUE], !.table = @ \cup {s}]
           g2 == Put(g1, s, "OPEN")
           g3 == [g2 EXCEPT !.pstart[s] = @ + 1]
           g4 == Event(g3, s, "connect")
           g5 == IF hsend THEN AppSendG(g4, s) ELSE g4
       IN /\ nreq' = rid
          /\ mon' = MonStart(mon)
          /\ IF outcome = "reject"
             THEN g' = Resp([g5 EXCEPT !.table = @ \ {s}, !.rejd = @ \cup {s}], rid, 401, <<>>)
             ELSE LET g6 == [g5 EXCEPT !.ss[s].conn = TRUE]
                      d == Drain(g6.ss[s].q)
                      g7 == DoDrain(g6, s)
                  IN g' = Resp(Delivered(g7, s, d.pk, "polling"), rid, 200, d.pk)
    /\ UNCHANGED <<now, polls, psleep, wsr, wsin, wsw, wsgone, joiners>>

\* GET without sid, transport=websocket with Upgrade header: a WebSocket opened without
\* prior polling is in WebSocket mode from its OPEN packet on.  Refusals of websocket-type
\* requests are recorded with the normalised status 499 (an ASGI websocket scope cannot carry
\* an HTTP status; the exact statuses are decided by EioHttp).
OpenWs(outcome, hsend) ==
    IF "websocket" \notin Transports THEN Refuse(499) ELSE
    /\ FreeSids # {}
    /\ LET s == NextFree
           rid == nreq + 1
           g0 == EnvStart(g)
           g1 == [g0 EXCEPT !.ss[s] = [FreshSess EXCEPT !.used = TRUE], !.table = @ \cup {s}]
           g2 == Put(g1, s, "OPEN")
           g3 == [g2 EXCEPT !.pstart[s] = @ + 1]
           g4 == Event(g3, s, "connect")
           g5 == IF hsend THEN AppSendG(g4, s) ELSE g4
       IN /\ nreq' = rid
          /\ mon' = MonStart(mon)
          /\ IF outcome = "reject"
             THEN /\ g' = Resp([g5 EXCEPT !.table = @ \ {s}, !.rejd = @ \cup {s}], rid, 499, <<>>)
                  /\ UNCHANGED <<wsr, wsw>>
             ELSE IF ~WsAvailable
             THEN /\ g' = Resp(g5, rid, 499, <<>>)
                  /\ UNCHANGED <<wsr, wsw>>
             ELSE /\ g' = Out([g5 EXCEPT !.ss[s].conn = TRUE, !.ss[s].upged = TRUE,
                                          !.hs[s] = "fresh"],
                              [k |-> "wsacc", s |-> s])
                  /\ wsr' = [wsr EXCEPT ![s] = [st |-> "read", rid |-> rid,
                                                dl |-> IF ImplWsReadTimeout
                                                       THEN now + PingInterval + PingTimeout
                                                       ELSE None]]
                  /\ wsw' = [wsw EXCEPT ![s] = "new"]
    /\ UNCHANGED <<now, polls, psleep, wsin, wsgone, joiners>>

\* GET ?sid=..&transport=polling
PollReq(s) ==
    IF "polling" \notin Transports THEN s \in UsedSids /\ Refuse(400) ELSE
    /\ s \in UsedSids
    /\ LET rid == nreq + 1
           g0 == EnvStart(g)
       IN /\ nreq' = rid
          /\ IF s \notin g0.table THEN
                 /\ g' = Resp(g0, rid, 400, <<>>) /\ UNCHANGED polls
             ELSE IF g0.ss[s].closed THEN
                 /\ g' = Resp([g0 EXCEPT !.table = @ \ {s}], rid, 400, <<>>) /\ UNCHANGED polls
             ELSE IF g0.ss[s].upged THEN      \* transport mismatch
                 /\ g' = Resp(g0, rid, 400, <<>>) /\ UNCHANGED polls
             ELSE IF g0.ss[s].upging THEN
                 /\ g' = Resp(g0, rid, 200, <<"NOOP">>) /\ UNCHANGED polls
             ELSE IF g0.ss[s].q # <<>> /\ ~\E i \in 1..Len(polls) : polls[i].s = s THEN
                 LET d == Drain(g0.ss[s].q)
                     g1 == DoDrain(g0, s)
                 IN /\ g' = ReapIfClosed(Resp(Delivered(g1, s, d.pk, "polling"), rid, 200, d.pk), s)
                    /\ UNCHANGED polls
             ELSE
                 /\ g' = g0
                 /\ polls' = Append(polls, [s |-> s, rid |-> rid,
                                            dl |-> now + PingInterval + PingTimeout,
                                            kind |-> "http"])
    /\ UNCHANGED <<now, psleep, wsr, wsin, wsw, wsgone, joiners, mon>>

\* server.disconnect(sid) reached from the error branch of a request, or from the API:
\* close(wait=True) then del.  Returns the new g and whether the caller blocks in join().
DisconnectG(gg, s) ==
    IF s \notin gg.table THEN [gn |-> gg, blocks |-> FALSE]
    ELSE IF gg.ss[s].closed THEN [gn |-> [gg EXCEPT !.table = @ \ {s}], blocks |-> FALSE]
    ELSE IF gg.ss[s].closing THEN [gn |-> [gg EXCEPT !.table = @ \ {s}], blocks |-> FALSE]
    ELSE LET g1 == Close(gg, s, FALSE, "server")
         IN IF g1.ss[s].unf > 0 THEN [gn |-> g1, blocks |-> TRUE]
            ELSE [gn |-> [g1 EXCEPT !.table = @ \ {s}], blocks |-> FALSE]

\* POST ?sid=..   body: sequence of client packet tokens, or one of the abnormal bodies
\*   <<"GARBAGE">> (undecodable / not UTF-8 / too many packets): 200, no effect
\*   <<"OVERSIZE">> (declared length above the limit): protocol error
Bodies(s) == {}  \* placeholder, the configuration supplies the body alphabet

PostReq(s, body) ==
    IF "polling" \notin Transports THEN s \in UsedSids /\ Refuse(400) ELSE
    /\ s \in UsedSids
    /\ LET rid == nreq + 1
           g0 == EnvStart(g)
       IN /\ nreq' = rid
          /\ IF s \notin g0.table THEN
                 /\ g' = Resp(g0, rid, 400, <<>>) /\ UNCHANGED joiners
             ELSE IF g0.ss[s].closed THEN
                 \* _get_socket() outside the try block: KeyError escapes (defect F5)
                 IF "PostClosedKeyError" \in Deviations
                 THEN /\ g' = Resp([g0 EXCEPT !.table = @ \ {s},
                                              !.dev = @ \cup {"PostClosedKeyError"}],
                                   rid, 500, <<>>)
                      /\ UNCHANGED joiners
                 ELSE /\ g' = Resp([g0 EXCEPT !.table = @ \ {s}], rid, 400, <<>>)
                      /\ UNCHANGED joiners
             ELSE IF (Len(body) = 1 /\ Len(body[1]) >= 7 /\ SubSeq(body[1], 1, 7) = "GARBAGE")
                     \/ body = <<"EMPTYBODY">>
                     \/ (Len(body) = 1 /\ Len(body[1]) > 7 /\ SubSeq(body[1], 1, 7) = "TOOMANY") THEN
                 \* undecodable, empty, or more packets than the per-payload limit: refused as a
                 \* whole, no packet is acted upon
                 /\ g' = Resp(g0, rid, 200, <<>>) /\ UNCHANGED joiners
             ELSE
                 LET g1 == IF body = <<"OVERSIZE">> THEN [g0 EXCEPT !.exc = "toolong"]
                           ELSE ReceiveAll(BeginInput(g0, s), s, body)
                 IN IF g1.exc = "none" THEN
                        /\ g' = Resp(g1, rid, 200, <<>>) /\ UNCHANGED joiners
                    ELSE IF g1.exc = "index" THEN   \* F7: swallowed by the bare except
                        /\ g' = Resp([g1 EXCEPT !.exc = "none"], rid, 200, <<>>)
                        /\ UNCHANGED joiners
                    ELSE
                        \* protocol error: close without waiting, remove from the table, 400
                        LET g2 == [g1 EXCEPT !.exc = "none"]
                            g3 == IF s \in g2.table
                                  THEN [Close(g2, s, FALSE, "server") EXCEPT !.table = @ \ {s}]
                                  ELSE g2
                        IN /\ g' = Resp(g3, rid, 400, <<>>)
                           /\ UNCHANGED joiners
    /\ UNCHANGED <<now, polls, psleep, wsr, wsin, wsw, wsgone, mon>>

\* GET ?sid=..&transport=websocket with Upgrade headers
UpgradeReq(s) ==
    IF "websocket" \notin Transports THEN s \in UsedSids /\ Refuse(499) ELSE
    /\ s \in UsedSids
    /\ wsr[s].st = "none" \/ g.ss[s].upged   \* environment: one upgrade socket at a time
    /\ LET rid == nreq + 1
           g0 == EnvStart(g)
       IN /\ nreq' = rid
          /\ IF s \notin g0.table THEN
                 /\ g' = Resp(g0, rid, 499, <<>>) /\ UNCHANGED <<wsr, wsin, wsgone>>
             ELSE IF g0.ss[s].closed THEN
                 /\ g' = Resp([g0 EXCEPT !.table = @ \ {s}], rid, 499, <<>>)
                 /\ UNCHANGED <<wsr, wsin, wsgone>>
             ELSE IF g0.ss[s].upged THEN      \* refused: OSError, established socket untouched
                 /\ g' = Resp(g0, rid, 499, <<>>) /\ UNCHANGED <<wsr, wsin, wsgone>>
             ELSE IF ~WsAvailable THEN
                 /\ g' = Resp(g0, rid, 499, <<>>) /\ UNCHANGED <<wsr, wsin, wsgone>>
             ELSE
                 /\ g' = Out([g0 EXCEPT !.ss[s].upging = TRUE, !.hs[s] = "none"],
                             [k |-> "wsacc", s |-> s])
                 /\ wsr' = [wsr EXCEPT ![s] = [st |-> "probe", rid |-> rid, dl |-> None]]
                 /\ wsin' = [wsin EXCEPT ![s] = <<>>]
                 /\ wsgone' = [wsgone EXCEPT ![s] = FALSE]
    /\ UNCHANGED <<now, polls, psleep, wsw, joiners, mon>>

\* a frame arrives on the websocket of session s
WsFrame(s, f) ==
    /\ wsr[s].st \in {"probe", "upg", "read"}
    /\ ~wsgone[s]
    /\ wsin' = [wsin EXCEPT ![s] = Append(@, f)]
    /\ g' = EnvStart(g)
    /\ UNCHANGED <<now, polls, psleep, wsr, wsw, wsgone, joiners, mon, nreq>>

\* several frames arrive back to back (they are all buffered before the handler runs)
WsFrames(s, fs) ==
    /\ wsr[s].st \in {"probe", "upg", "read"}
    /\ ~wsgone[s]
    /\ wsin' = [wsin EXCEPT ![s] = @ \o fs]
    /\ g' = EnvStart(g)
    /\ UNCHANGED <<now, polls, psleep, wsr, wsw, wsgone, joiners, mon, nreq>>

\* the peer closes / loses the websocket
WsDrop(s) ==
    /\ wsr[s].st \in {"probe", "upg", "read", "dead"}
    /\ ~wsgone[s]
    /\ wsgone' = [wsgone EXCEPT ![s] = TRUE]
    /\ g' = EnvStart(g)
    /\ UNCHANGED <<now, polls, psleep, wsr, wsin, wsw, joiners, mon, nreq>>

AppSend(s) ==
    /\ s \in UsedSids
    /\ g' = AppSendG(EnvStart(g), s)
    /\ UNCHANGED <<now, polls, psleep, wsr, wsin, wsw, wsgone, joiners, mon, nreq>>

AppDisconnect(s) ==
    /\ s \in UsedSids
    /\ LET cid == nreq + 1
           d == DisconnectG(EnvStart(g), s)
       IN /\ nreq' = cid
          /\ IF d.blocks
             THEN /\ g' = [d.gn EXCEPT !.jzero[s] = FALSE]
                  /\ joiners' = Append(joiners, [s |-> s, kind |-> "api", id |-> cid, rest |-> <<>>])
             ELSE /\ g' = Out(d.gn, [k |-> "ret", cid |-> cid])
                  /\ UNCHANGED joiners
    /\ UNCHANGED <<now, polls, psleep, wsr, wsin, wsw, wsgone, mon>>

(* server.disconnect() without a sid: every client in the table is closed, then the
   table is replaced by an empty one.  The threaded server closes the clients one after
   the other in insertion order, each close(wait=True) possibly blocking in join(); the
   asyncio server starts all the close() coroutines together and waits for all of them. *)
ImplConcurrentCloseAll == ImplJoinLatch        \* both are what asyncio does

RECURSIVE SortedSeq(_)
SortedSeq(S) == IF S = {} THEN <<>>
                ELSE LET m == CHOOSE x \in S : \A y \in S : x <= y IN <<m>> \o SortedSeq(S \ {m})

\* sequential: close in order up to the first close that blocks
RECURSIVE CloseAllSeq(_, _)
CloseAllSeq(gg, ss) ==
    IF ss = <<>> THEN [gn |-> gg, blk |-> None, rest |-> <<>>]
    ELSE LET s == Head(ss)
         IN IF gg.ss[s].closed \/ gg.ss[s].closing THEN CloseAllSeq(gg, Tail(ss))
            ELSE LET g1 == Close(gg, s, FALSE, "server")
                 IN IF g1.ss[s].unf > 0 THEN [gn |-> g1, blk |-> s, rest |-> Tail(ss)]
                    ELSE CloseAllSeq(g1, Tail(ss))

\* concurrent: all are closed now; blk is the sequence of those whose join() blocks
RECURSIVE CloseAllPar(_, _)
CloseAllPar(gg, ss) ==
    IF ss = <<>> THEN [gn |-> gg, blk |-> <<>>]
    ELSE LET s == Head(ss)
         IN IF gg.ss[s].closed \/ gg.ss[s].closing THEN CloseAllPar(gg, Tail(ss))
            ELSE LET g1 == Close(gg, s, FALSE, "server")
                     r == CloseAllPar(g1, Tail(ss))
                 IN IF g1.ss[s].unf > 0 THEN [gn |-> r.gn, blk |-> <<s>> \o r.blk] ELSE r

RECURSIVE ClearJzero(_, _)
ClearJzero(gg, ss) == IF ss = <<>> THEN gg
                      ELSE ClearJzero([gg EXCEPT !.jzero[Head(ss)] = FALSE], Tail(ss))

AppDisconnectAll ==
    /\ LET cid == nreq + 1
           g0 == EnvStart(g)
           order == SortedSeq(g0.table)
       IN /\ nreq' = cid
          /\ IF ImplConcurrentCloseAll
             THEN LET r == CloseAllPar(g0, order)
                  IN IF r.blk = <<>>
                     THEN /\ g' = Out([r.gn EXCEPT !.table = {}], [k |-> "ret", cid |-> cid])
                          /\ UNCHANGED joiners
                     ELSE /\ g' = ClearJzero(r.gn, r.blk)
                          /\ joiners' = joiners \o [i \in 1..Len(r.blk) |->
                                  [s |-> r.blk[i], kind |-> "allc", id |-> cid, rest |-> <<>>]]
             ELSE LET r == CloseAllSeq(g0, order)
                  IN IF r.blk = None
                     THEN /\ g' = Out([r.gn EXCEPT !.table = {}], [k |-> "ret", cid |-> cid])
                          /\ UNCHANGED joiners
                     ELSE /\ g' = [r.gn EXCEPT !.jzero[r.blk] = FALSE]
                          /\ joiners' = Append(joiners, [s |-> r.blk, kind |-> "all", id |-> cid,
                                                         rest |-> r.rest])
    /\ UNCHANGED <<now, polls, psleep, wsr, wsin, wsw, wsgone, mon>>

\* server.transport(sid)
AppTransport(s) ==
    /\ s \in UsedSids
    /\ LET g0 == EnvStart(g)
       IN IF s \notin g0.table THEN g' = Out(g0, [k |-> "keyerr", s |-> s])
          ELSE IF g0.ss[s].closed
          THEN g' = Out([g0 EXCEPT !.table = @ \ {s}], [k |-> "keyerr", s |-> s])
          ELSE g' = Out(g0, [k |-> "transport", s |-> s,
                             v |-> IF g0.ss[s].upged THEN "websocket" ELSE "polling"])
    /\ UNCHANGED <<now, polls, psleep, wsr, wsin, wsw, wsgone, joiners, mon, nreq>>

\* user session data: save a fresh token / read it back
AppSaveSession(s, tok) ==
    /\ s \in UsedSids
    /\ LET g0 == EnvStart(g)
       IN IF s \notin g0.table THEN g' = Out(g0, [k |-> "keyerr", s |-> s])
          ELSE IF g0.ss[s].closed
          THEN g' = Out([g0 EXCEPT !.table = @ \ {s}], [k |-> "keyerr", s |-> s])
          ELSE g' = [g0 EXCEPT !.ss[s].ud = tok]
    /\ UNCHANGED <<now, polls, psleep, wsr, wsin, wsw, wsgone, joiners, mon, nreq>>

AppGetSession(s) ==
    /\ s \in UsedSids
    /\ LET g0 == EnvStart(g)
       IN IF s \notin g0.table THEN g' = Out(g0, [k |-> "keyerr", s |-> s])
          ELSE IF g0.ss[s].closed
          THEN g' = Out([g0 EXCEPT !.table = @ \ {s}], [k |-> "keyerr", s |-> s])
          ELSE g' = Out(g0, [k |-> "sess", s |-> s, ud |-> g0.ss[s].ud])
    /\ UNCHANGED <<now, polls, psleep, wsr, wsin, wsw, wsgone, joiners, mon, nreq>>

\* with server.session(sid) as d: read, then store tok  (get_session at entry, save_session
\* at exit; KeyError at entry leaves the block unexecuted)
AppSessionCtx(s, tok) ==
    /\ s \in UsedSids
    /\ LET g0 == EnvStart(g)
       IN IF s \notin g0.table THEN g' = Out(g0, [k |-> "keyerr", s |-> s])
          ELSE IF g0.ss[s].closed
          THEN g' = Out([g0 EXCEPT !.table = @ \ {s}], [k |-> "keyerr", s |-> s])
          ELSE g' = [Out(g0, [k |-> "sess", s |-> s, ud |-> g0.ss[s].ud]) EXCEPT !.ss[s].ud = tok]
    /\ UNCHANGED <<now, polls, psleep, wsr, wsin, wsw, wsgone, joiners, mon, nreq>>

\* server.shutdown(): stops the service task (if it runs); nothing restarts it afterwards
\* (start_service_task is consumed by the first request).  Called at most once (a second call
\* finds service_task_handle = None and raises; outside every listed property, see DESIGN).
AppShutdown ==
    /\ mon.st # "stopped"
    /\ nreq' = nreq + 1
    /\ g' = Out(EnvStart(g), [k |-> "ret", cid |-> nreq + 1])
    /\ mon' = IF mon.st \in {"new", "wait", "sweep"}
              THEN [mon EXCEPT !.st = "stopped", !.todo = <<>>] ELSE mon
    /\ UNCHANGED <<now, polls, psleep, wsr, wsin, wsw, wsgone, joiners>>

\* an API call naming an id that no session has (never issued, or a near miss of a live one:
\* prefix, case variant, extension): send is a silent no-op, disconnect returns, the
\* others raise KeyError; nothing else changes
ApiCalls == {"send", "get", "save", "transport", "sessctx", "disconnect"}
AppUnknown(call) ==
    /\ call \in ApiCalls
    /\ LET g0 == EnvStart(g)
       IN CASE call = "send" -> g' = g0 /\ UNCHANGED nreq
            [] call = "disconnect" -> /\ nreq' = nreq + 1
                                      /\ g' = Out(g0, [k |-> "ret", cid |-> nreq + 1])
            [] OTHER -> g' = Out(g0, [k |-> "keyerr", s |-> 0]) /\ UNCHANGED nreq
    /\ UNCHANGED <<now, polls, psleep, wsr, wsin, wsw, wsgone, joiners, mon>>

-----------------------------------------------------------------------------
(* Internal actions *)

\* a blocked poll is woken by a put.  Which of several waiters of one queue gets the item is
\* not fixed: a waiter that was woken and found the queue empty again re-queues behind the others
PollWake(i) ==
    /\ i \in 1..Len(polls)
    /\ LET p == polls[i]
           s == p.s
       IN /\ g.ss[s].q # <<>>
          /\ p.kind = "http"
          /\ LET d == Drain(g.ss[s].q)
                 g1 == DoDrain(g, s)
             IN g' = ReapIfClosed(Resp(Delivered(g1, s, d.pk, "polling"), p.rid, 200, d.pk), s)
          /\ polls' = RemoveAt(polls, i)
    /\ UNCHANGED <<now, psleep, wsr, wsin, wsw, wsgone, joiners, mon, nreq>>

\* a long poll got nothing for I+T: transport error, 400
PollTimeout(i) ==
    /\ i \in 1..Len(polls)
    /\ LET p == polls[i]
           s == p.s
       IN /\ p.kind = "http"
          /\ p.dl <= now   \* at the deadline instant the timeout may win over a simultaneous put
          /\ LET g1 == Close(g, s, FALSE, "terror")
                 \* EngineIOError branch: disconnect(sid): _get_socket reaps the closed session
                 g2 == IF s \in g1.table /\ g1.ss[s].closed
                       THEN [g1 EXCEPT !.table = @ \ {s}] ELSE g1
             IN g' = Resp(g2, p.rid, 400, <<>>)
          /\ polls' = RemoveAt(polls, i)
    /\ UNCHANGED <<now, psleep, wsr, wsin, wsw, wsgone, joiners, mon, nreq>>

\* a background message handler runs
RunHandler ==
    /\ g.hq # <<>>
    /\ LET h == Head(g.hq)
       IN g' = RunMsgHandler([g EXCEPT !.hq = Tail(@), !.late = h.late], h.s, h.tok)
    /\ UNCHANGED <<now, polls, psleep, wsr, wsin, wsw, wsgone, joiners, mon, nreq>>

PingStart(s) ==
    /\ g.pstart[s] > 0
    /\ g' = [g EXCEPT !.pstart[s] = @ - 1, !.ss[s].lp = None]
    /\ psleep' = Append(psleep, [s |-> s, wake |-> now + PingInterval])
    /\ UNCHANGED <<now, polls, wsr, wsin, wsw, wsgone, joiners, mon, nreq>>

PingFire(i) ==
    /\ i \in 1..Len(psleep)
    /\ psleep[i].wake <= now
    /\ LET s == psleep[i].s
       IN IF g.ss[s].closing \/ g.ss[s].closed THEN g' = g
          ELSE g' = Send([g EXCEPT !.ss[s].lp = now], s, "PING")
    /\ psleep' = RemoveAt(psleep, i)
    /\ UNCHANGED <<now, polls, wsr, wsin, wsw, wsgone, joiners, mon, nreq>>

\* queue.join() returns
JoinReturnWith(i, latch) ==
    /\ i \in 1..Len(joiners)
    /\ LET j == joiners[i]
           ret == [k |-> "ret", cid |-> j.id]
       IN \* threading: join() re-checks the counter when it runs; asyncio: join() returns once
          \* the counter has reached zero, even if something was put since
          /\ g.ss[j.s].unf = 0 \/ (latch /\ g.jzero[j.s])
          /\ CASE j.kind = "req" ->
                    /\ g' = Resp([g EXCEPT !.table = @ \ {j.s}], j.id, 400, <<>>)
                    /\ joiners' = RemoveAt(joiners, i)
               [] j.kind = "api" ->
                    /\ g' = Out([g EXCEPT !.table = @ \ {j.s}], ret)
                    /\ joiners' = RemoveAt(joiners, i)
               [] j.kind = "all" ->
                    \* the loop of disconnect() goes on with the next client of its snapshot
                    LET r == CloseAllSeq(g, j.rest)
                    IN IF r.blk = None
                       THEN /\ g' = Out([r.gn EXCEPT !.table = {}], ret)
                            /\ joiners' = RemoveAt(joiners, i)
                       ELSE /\ g' = [r.gn EXCEPT !.jzero[r.blk] = FALSE]
                            /\ joiners' = Append(RemoveAt(joiners, i),
                                                 [s |-> r.blk, kind |-> "all", id |-> j.id,
                                                  rest |-> r.rest])
               [] j.kind = "allc" ->
                    /\ joiners' = RemoveAt(joiners, i)
                    /\ g' = IF \E k \in 1..Len(joiners) :
                                  k # i /\ joiners[k].kind = "allc" /\ joiners[k].id = j.id
                            THEN g ELSE Out([g EXCEPT !.table = {}], ret)
    /\ UNCHANGED <<now, polls, psleep, wsr, wsin, wsw, wsgone, mon, nreq>>

JoinReturn(i) == JoinReturnWith(i, ImplJoinLatch)

(* ---- websocket handler (reader) and writer ---- *)

WsEnd(gg, s) == Out(gg, [k |-> "wsend", s |-> s])
WsOut(gg, s, f) == Out(gg, [k |-> "ws", s |-> s, f |-> f])

ReadDl == IF ImplWsReadTimeout THEN now + PingInterval + PingTimeout ELSE None

\* frames that cannot be decoded (oversize, empty text, garbage)
Undecodable(f) == f \in {"OVERSIZE", "EMPTY", "GARBAGE"}

\* handshake step 1: waiting for PING probe
ReaderProbe(s) ==
    /\ wsr[s].st = "probe"
    /\ wsin[s] # <<>> \/ wsgone[s]
    /\ LET f == IF wsin[s] # <<>> THEN Head(wsin[s]) ELSE "DROP"
       IN /\ wsin' = [wsin EXCEPT ![s] = IF @ # <<>> THEN Tail(@) ELSE @]
          /\ IF f = "PINGprobe" THEN
                 /\ g' = Put(WsOut([g EXCEPT !.hs[s] = "probed"], s, "PONGprobe"), s, "NOOP")
                 /\ wsr' = [wsr EXCEPT ![s].st = "upg"]
             ELSE IF f = "DROP" /\ "AsyncProbeVanishLeavesUpgrading" \in Deviations THEN
                 /\ g' = ReapIfClosed(
                            WsEnd([g EXCEPT !.dev = @ \cup {"AsyncProbeVanishLeavesUpgrading"}], s), s)
                 /\ wsr' = [wsr EXCEPT ![s] = NoWs]
             ELSE IF Undecodable(f) /\ "HandshakeGarbageLeavesUpgrading" \in Deviations THEN
                 /\ g' = WsEnd([g EXCEPT !.dev = @ \cup {"HandshakeGarbageLeavesUpgrading"}], s)
                 /\ wsr' = [wsr EXCEPT ![s] = NoWs]
             ELSE IF Undecodable(f) THEN
                 \* the decoding error escapes the request (no reaping); the flag is reset
                 /\ g' = WsEnd([g EXCEPT !.ss[s].upging = FALSE], s)
                 /\ wsr' = [wsr EXCEPT ![s] = NoWs]
             ELSE
                 \* handshake failed: the request returns; a closed session is reaped
                 /\ g' = ReapIfClosed(WsEnd([g EXCEPT !.ss[s].upging = FALSE], s), s)
                 /\ wsr' = [wsr EXCEPT ![s] = NoWs]
    /\ UNCHANGED <<now, polls, psleep, wsw, wsgone, joiners, mon, nreq>>

\* handshake step 2: waiting for UPGRADE
ReaderUpg(s) ==
    /\ wsr[s].st = "upg"
    /\ wsin[s] # <<>> \/ wsgone[s]
    /\ LET f == IF wsin[s] # <<>> THEN Head(wsin[s]) ELSE "DROP"
       IN /\ wsin' = [wsin EXCEPT ![s] = IF @ # <<>> THEN Tail(@) ELSE @]
          /\ IF f = "UPGRADE" THEN
                 /\ g' = [g EXCEPT !.ss[s].upged = TRUE, !.ss[s].upging = FALSE,
                                   !.hs[s] = IF @ = "probed" THEN "upgraded" ELSE "BROKEN"]
                 /\ wsr' = [wsr EXCEPT ![s].st = "read", ![s].dl = ReadDl]
                 /\ wsw' = [wsw EXCEPT ![s] = "new"]
             ELSE IF Undecodable(f) /\ "HandshakeGarbageLeavesUpgrading" \in Deviations THEN
                 /\ g' = WsEnd([g EXCEPT !.dev = @ \cup {"HandshakeGarbageLeavesUpgrading"}], s)
                 /\ wsr' = [wsr EXCEPT ![s] = NoWs]
                 /\ UNCHANGED wsw
             ELSE IF Undecodable(f) THEN
                 /\ g' = WsEnd([g EXCEPT !.ss[s].upging = FALSE], s)
                 /\ wsr' = [wsr EXCEPT ![s] = NoWs]
                 /\ UNCHANGED wsw
             ELSE
                 /\ g' = ReapIfClosed(WsEnd([g EXCEPT !.ss[s].upging = FALSE], s), s)
                 /\ wsr' = [wsr EXCEPT ![s] = NoWs]
                 /\ UNCHANGED wsw
    /\ UNCHANGED <<now, polls, psleep, wsgone, joiners, mon, nreq>>

\* the read loop ends: unlock the writer, wait for it
ReaderEndG(gg, s) == Put(gg, s, NIL)

\* steady state: one frame
ReaderFrame(s) ==
    /\ wsr[s].st = "read"
    /\ wsin[s] # <<>> \/ wsgone[s]
    /\ LET f == IF wsin[s] # <<>> THEN Head(wsin[s]) ELSE "DROP"
       IN /\ wsin' = [wsin EXCEPT ![s] = IF @ # <<>> THEN Tail(@) ELSE @]
          /\ IF f \in {"DROP", "OVERSIZE"} THEN
                 /\ g' = ReaderEndG(g, s)
                 /\ wsr' = [wsr EXCEPT ![s].st = "joinw", ![s].dl = None]
             ELSE IF f \in {"EMPTY", "GARBAGE"} THEN
                 \* decode is outside the try block: the handler task dies, the session stays
                 /\ g' = WsEnd(g, s)
                 /\ wsr' = [wsr EXCEPT ![s].st = "dead", ![s].dl = None]
             ELSE
                 LET g1 == Receive(BeginInput(g, s), s, f)
                 IN IF g1.exc = "closed"
                       \/ (g1.ss[s].closed /\ "ReaderContinuesAfterClose" \notin Deviations) THEN
                        \* the session ended (CLOSE frame, or closed by another task): the loop
                        \* ends; nothing else received on this socket is processed
                        /\ g' = ReaderEndG([g1 EXCEPT !.exc = "none"], s)
                        /\ wsr' = [wsr EXCEPT ![s].st = "joinw", ![s].dl = None]
                    ELSE
                        /\ g' = [g1 EXCEPT !.exc = "none"]
                        /\ wsr' = [wsr EXCEPT ![s].dl = ReadDl]
    /\ UNCHANGED <<now, polls, psleep, wsw, wsgone, joiners, mon, nreq>>

\* asyncio only: no frame for I+T
ReaderTimeout(s) ==
    /\ wsr[s].st = "read"
    /\ wsr[s].dl # None /\ wsr[s].dl <= now
    /\ wsin[s] = <<>> /\ ~wsgone[s]
    /\ g' = ReaderEndG(g, s)
    /\ wsr' = [wsr EXCEPT ![s].st = "joinw", ![s].dl = None]
    /\ UNCHANGED <<now, polls, psleep, wsin, wsw, wsgone, joiners, mon, nreq>>

\* the writer finished: the handler closes the session and the request ends
ReaderFinish(s) ==
    /\ wsr[s].st = "joinw"
    /\ wsw[s] = "done"
    /\ g' = ReapIfClosed(WsEnd(Close(g, s, TRUE, "tclose"), s), s)
    /\ wsr' = [wsr EXCEPT ![s] = NoWs]
    /\ wsw' = [wsw EXCEPT ![s] = "none"]
    /\ UNCHANGED <<now, polls, psleep, wsin, wsgone, joiners, mon, nreq>>

\* writer task: poll(), write every packet, again - until poll() would block (queue empty),
\* returns [] (sentinel) or a write fails (socket gone).  Returns the new g and whether the
\* writer leaves its loop.
RECURSIVE EmitAll(_, _, _)
EmitAll(gg, s, pk) == IF pk = <<>> THEN gg ELSE EmitAll(WsOut(gg, s, Head(pk)), s, Tail(pk))

RECURSIVE WLoop(_, _)
WLoop(gg, s) ==
    IF gg.ss[s].q = <<>> THEN [gn |-> gg, exit |-> FALSE]
    ELSE LET d == Drain(gg.ss[s].q)
             g1 == DoDrain(gg, s)
         IN IF d.pk = <<>> \/ wsgone[s] THEN [gn |-> g1, exit |-> TRUE]
            ELSE WLoop(Delivered(EmitAll(g1, s, d.pk), s, d.pk, "ws"), s)

WriterRun(s, rest) ==
    LET r == WLoop(g, s)
    IN IF r.exit
       THEN /\ g' = Out(r.gn, [k |-> "wsclose", s |-> s])
            /\ wsw' = [wsw EXCEPT ![s] = "done"]
            /\ wsgone' = [wsgone EXCEPT ![s] = TRUE]
            /\ polls' = rest
       ELSE /\ g' = r.gn
            /\ wsw' = [wsw EXCEPT ![s] = "run"]
            /\ polls' = Append(rest, [s |-> s, rid |-> 0,
                                      dl |-> now + PingInterval + PingTimeout,
                                      kind |-> "writer"])
            /\ UNCHANGED wsgone

WriterStart(s) ==
    /\ wsw[s] = "new"
    /\ WriterRun(s, polls)
    /\ UNCHANGED <<now, psleep, wsr, wsin, joiners, mon, nreq>>

WriterWake(i) ==
    /\ i \in 1..Len(polls)
    /\ polls[i].kind = "writer"
    /\ LET s == polls[i].s
       IN /\ g.ss[s].q # <<>>
          /\ WriterRun(s, RemoveAt(polls, i))
    /\ UNCHANGED <<now, psleep, wsr, wsin, joiners, mon, nreq>>

\* the writer's poll() got nothing for I+T: it leaves and closes the websocket
WriterTimeout(i) ==
    /\ i \in 1..Len(polls)
    /\ polls[i].kind = "writer"
    /\ polls[i].dl <= now
    /\ LET s == polls[i].s
       IN /\ g' = Out(g, [k |-> "wsclose", s |-> s])
          /\ wsw' = [wsw EXCEPT ![s] = "done"]
          /\ wsgone' = [wsgone EXCEPT ![s] = TRUE]
    /\ polls' = RemoveAt(polls, i)
    /\ UNCHANGED <<now, psleep, wsr, wsin, joiners, mon, nreq>>

(* ---- service task ---- *)
\* mon.st: "disabled" | "off" (not started) | "new" | "wait" (sleeping) | "sweep" | "stopped"
\* A sweep visits a copy of the table in insertion order, sleeping PingTimeout / len(table)
\* after each visit; with an empty table the task sleeps PingTimeout.  The time unit is chosen
\* by the configuration so that the division is exact.
MonBegin(m, gg) ==
    IF gg.table = {} THEN [m EXCEPT !.st = "wait", !.wake = now + PingTimeout, !.todo = <<>>]
    ELSE LET n == Cardinality(gg.table)
             order == CHOOSE sq \in [1..n -> gg.table] :
                         \A i, j \in 1..n : i < j => sq[i] < sq[j]
         IN [m EXCEPT !.st = "sweep", !.todo = order, !.step = PingTimeout \div n,
                      !.wake = now]

MonVisit(gg, s) ==
    IF gg.ss[s].closed THEN [gg EXCEPT !.table = @ \ {s}]
    ELSE IF ~gg.ss[s].closing THEN CheckPing(gg, s) ELSE gg

MonitorRun ==
    /\ mon.st \in {"new", "wait", "sweep"}
    /\ mon.st = "new" \/ mon.wake <= now
    /\ LET m1 == IF mon.st \in {"new", "wait"} \/ mon.todo = <<>> THEN MonBegin(mon, g) ELSE mon
       IN IF m1.st = "wait" THEN /\ mon' = m1 /\ g' = g
          ELSE LET s == Head(m1.todo)
               IN /\ g' = [MonVisit(g, s) EXCEPT !.exc = "none"]
                  /\ mon' = [m1 EXCEPT !.todo = Tail(@), !.wake = now + m1.step]
    /\ UNCHANGED <<now, polls, psleep, wsr, wsin, wsw, wsgone, joiners, nreq>>

-----------------------------------------------------------------------------
Internal ==
    \/ \E i \in 1..Len(polls) : PollWake(i) \/ PollTimeout(i) \/ WriterWake(i) \/ WriterTimeout(i)
    \/ RunHandler
    \/ \E s \in Sid : PingStart(s)
    \/ \E i \in 1..Len(psleep) : PingFire(i)
    \/ \E i \in 1..Len(joiners) : JoinReturn(i)
    \/ \E s \in Sid : ReaderProbe(s) \/ ReaderUpg(s) \/ ReaderFrame(s) \/ ReaderTimeout(s)
                      \/ ReaderFinish(s) \/ WriterStart(s)
    \/ MonitorRun

\* deadlines pending
Deadlines ==
    {polls[i].dl : i \in 1..Len(polls)} \cup {psleep[i].wake : i \in 1..Len(psleep)}
    \cup {wsr[s].dl : s \in {t \in Sid : wsr[t].st = "read" /\ wsr[t].dl # None}}
    \cup (IF mon.st \in {"wait", "sweep"} THEN {mon.wake} ELSE {})

Quiescent == ~ENABLED Internal

\* time advances to t, not beyond the next deadline
TickTo(t) ==
    /\ Quiescent
    /\ t > now
    /\ t <= Horizon
    /\ \A d \in Deadlines : d > now => t <= d
    /\ now' = t
    /\ g' = EnvStart(g)
    /\ UNCHANGED <<polls, psleep, wsr, wsin, wsw, wsgone, joiners, mon, nreq>>

=============================================================================
