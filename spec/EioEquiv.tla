------------------------------ MODULE EioEquiv ------------------------------
(***************************************************************************)
(* C18: the threaded and the asyncio server are observationally            *)
(* equivalent.  A trace is the step-by-step pairing of the observations    *)
(* of both implementations under the same environment script (same         *)
(* virtual clock): per step k                                              *)
(*   sy, as : [ev     per session: application events so far,              *)
(*             deliv  per session: messages handed to the client (+ via),  *)
(*             alive  per session: in the table and not closed,            *)
(*             ws     per session: on the websocket transport,             *)
(*             status status of the request issued in this step if it was  *)
(*                    answered within the step, else 0]                    *)
(*   tgt    : the session the step addressed (0 if none)                   *)
(* Sessions whose end was caused by silence (ping timeout, websocket read  *)
(* timeout, transport error) may be detected at different moments: such a  *)
(* session is quarantined from the first difference on, and both servers   *)
(* must have ended it by the end of the trace (the script ends with a      *)
(* clock advance beyond the heartbeat bound).                              *)
(***************************************************************************)
EXTENDS Naturals, Sequences, FiniteSets, TLC, Json, IOUtils, TLCExt

Tr == JsonDeserialize(IOEnv.TRACE_FILE)

VARIABLES tid, l, quar
evars == <<tid, l, quar>>

Silence == {"disc:pingto", "disc:tclose", "disc:terror"}
IsPrefix(a, b) == Len(a) <= Len(b) /\ SubSeq(b, 1, Len(a)) = a

N(t) == Len(Tr[t][1].sy.ev)

Same(o1, o2, s) ==
    /\ o1.ev[s] = o2.ev[s]
    /\ o1.deliv[s] = o2.deliv[s]
    /\ o1.alive[s] = o2.alive[s]
    /\ o1.ws[s] = o2.ws[s]

\* the only tolerated difference: one side has (just) ended the session for silence, the
\* other has not yet, or both did with different silence reasons
SilenceDiff(o1, o2, s) ==
    LET a == o1.ev[s]
        b == o2.ev[s]
        la == Len(a)
        lb == Len(b)
    IN \/ (la > 0 /\ a[la] \in Silence /\ IsPrefix(SubSeq(a, 1, la - 1), b))
       \/ (lb > 0 /\ b[lb] \in Silence /\ IsPrefix(SubSeq(b, 1, lb - 1), a))

Init == tid \in 1..Len(Tr) /\ l = 1 /\ quar = {}

Step ==
    /\ l <= Len(Tr[tid])
    /\ LET e == Tr[tid][l]
           bad == {s \in (1..N(tid)) \ quar : ~Same(e.sy, e.as, s)}
       IN /\ \A s \in bad : SilenceDiff(e.sy, e.as, s)
          /\ quar' = quar \cup bad
          /\ (e.tgt \notin quar' \/ e.tgt = 0) => e.sy.status = e.as.status
    /\ l' = l + 1
    /\ UNCHANGED tid

Finish ==
    /\ l = Len(Tr[tid]) + 1
    /\ LET e == Tr[tid][l - 1]
       IN \A s \in quar : ~e.sy.alive[s] /\ ~e.as.alive[s]
    /\ PrintT(<<"ACC", tid>>)
    /\ l' = l + 1
    /\ UNCHANGED <<tid, quar>>

TraceNext == Step \/ Finish
TraceSpec == Init /\ [][TraceNext]_evars
=============================================================================
