"""Helpers shared by the EioHttp table checks (C11, C12, C13, C19)."""
import json

from .. import tlc, tracecheck
from ..common import MachineryError
from ..harness import world as W

TABLE_INVS = ['C13_NeverOverGrant', 'C13_EmptyListDisablesAll', 'C13_NoOriginUnaffected',
              'C13_DefaultOnlyOwnHost', 'C12_RefusedHasNoEffect', 'C12_MethodGate',
              'C12_OpenNeedsV4', 'C12_DeadSidRefused', 'C11_UpgradesOnlyIfAcceptable',
              'C19_EncodingOnlyIfOffered']


def tlc_tables(ck, what):
    r = tlc.run('MC_EioHttp', tlc.cfg_text(spec='Spec', invariants=TABLE_INVS), coverage=False)
    tlc.must_pass(r, 'MC_EioHttp')
    ck.add_tlc(r, what)
    # the single state stands for the complete enumeration of the tables' cells
    ck.cov['table_cells'] = {'OriginGate': 7 * 2 * 7 * 2, 'Admit': 4 * 5 * 4 * 7 * 2 * 3 * 3,
                             'OpenReply': 2 * 3 * 2 * 2 * 9}
    ck.cov['states'] += sum(ck.cov['table_cells'].values())
    ck.cov['transitions'] += sum(ck.cov['table_cells'].values())
    if r.violated:
        ck.violation('EioHttp table fact %s violated' % r.violated, {'tlc': r.out[-4000:]})


def state_digest(w):
    """Everything a refused request must leave untouched."""
    d = {'table': sorted(w.slots.get(s, s) for s in w.server.sockets),
         'events': json.dumps(w.events, sort_keys=True), 'nsids': len(w.slots)}
    socks = {}
    for slot, so in w.socks.items():
        if so is None:
            continue
        socks[slot] = (so.connected, so.upgrading, so.upgraded, so.closing, so.closed,
                       len(w._queue_items(so)), w._unfinished(so))
    d['socks'] = socks
    return d


def validate(ck, records, what, meta=None, batch=400):
    traces = [records[i:i + batch] for i in range(0, len(records), batch)]
    v = tracecheck.validate('EioHttpTrace', traces, constants={}, batch=50)
    ck.cov['states'] += v.states
    ck.cov['transitions'] += v.generated
    ck.add_conformance(what, len(records), sum(len(traces[i]) for i in v.accepted))
    return traces, v


def header(resp_headers, name):
    vals = [v for k, v in (resp_headers or []) if k.lower() == name.lower()]
    return vals


def run_request(w, method, query, headers=None, body=b'', ws=False, slot=None):
    """Issue one request, run to quiescence, return the Req."""
    if ws:
        rid = w.ws_request(query, headers=headers, slot=slot)
    else:
        rid = w.http(method, query, headers=headers, body=body, slot=slot)
    w.quiesce()
    return w.reqs[rid]


def status_of(r):
    if r.kind == 'ws':
        if r.conn.accepted:
            return 101
        return 499
    if r.exc is not None or r.status is None:
        return 500
    return int(str(r.status).split(' ')[0])
