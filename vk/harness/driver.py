"""Executes environment scripts on a world and records the trace for EioServerTrace."""
import json

from . import world as W
from . import hub as hubmod


def q_open(s, extra=''):
    return 'transport=polling&EIO=4' + extra


def run_script(impl, cfg, script, nslots, seed=0, preempt=False):
    """Returns (trace lines, world facts).  `script` is a list of op dicts."""
    w = W.make_world(impl, cfg, seed=seed, preempt=preempt)
    w.max_slots = nslots
    lines = []
    facts = {'impl': impl, 'cfg': w.cfg}
    try:
        for opi, op in enumerate(script):
            k = op['op']
            if k == 'tick':
                target = hubmod.EPOCH + op['t'] * W.TICK
                while w.now() < target - 1e-9:
                    nd = w.next_deadline()
                    t = target if nd is None or nd > target else nd
                    w.out = []
                    w.set_time(t)
                    lines.append({'ev': 'tick', 'a': {'t': w.ticks()}, 'st': w.snapshot(nslots),
                                  'i': opi})
                continue
            if not can(w, op):
                continue
            w.out = []
            a = {x: op[x] for x in op if x != 'op'}
            if k == 'open':
                w.connect_plan = [(op.get('outcome', 'accept'), op.get('hsend', False))]
                w.http('GET', 'transport=polling&EIO=4')
                a = {'outcome': op.get('outcome', 'accept'), 'hsend': op.get('hsend', False)}
            elif k == 'openws':
                w.connect_plan = [(op.get('outcome', 'accept'), op.get('hsend', False))]
                w.ws_request('transport=websocket&EIO=4')
                a = {'outcome': op.get('outcome', 'accept'), 'hsend': op.get('hsend', False)}
            elif k == 'poll':
                w.http('GET', 'transport=polling&EIO=4&sid=' + sid_of(w, op['s']), slot=op['s'])
            elif k == 'post':
                body, declared = encode_body(op['body'], w.cfg['max_buf'])
                w.http('POST', 'transport=polling&EIO=4&sid=' + sid_of(w, op['s']), body=body,
                       declared=declared, slot=op['s'])
            elif k in ('postsz', 'posttrunc', 'postlong', 'postdecl', 'wsframesz', 'postform', 'postnolen'):
                k, a = size_op(w, op)
            elif k == 'upgrade':
                w.ws_request('transport=websocket&EIO=4&sid=' + sid_of(w, op['s']), slot=op['s'])
            elif k == 'wsframe':
                raw = frame_raw(op['f'], w.cfg['max_buf'])
                w.ws_frame(op['s'], raw)
                # with a very small limit even a protocol frame ('2probe') is oversize
                a = {'s': op['s'], 'f': 'OVERSIZE' if len(raw) > w.cfg['max_buf'] else op['f']}
            elif k == 'wsframes':
                fs = []
                for f in op['fs']:
                    raw = frame_raw(f, w.cfg['max_buf'])
                    w.ws_frame(op['s'], raw)
                    fs.append('OVERSIZE' if len(raw) > w.cfg['max_buf'] else f)
                a = {'s': op['s'], 'fs': fs}
            elif k == 'wsdrop':
                w.ws_drop(op['s'])
            elif k == 'anyreq':
                st = any_request(w, op['kind'], op.get('s'))
                if st is None:
                    continue
                a = {'status': st}
            elif k == 'send':
                w.app_send(op['s'])
            elif k == 'disconnect':
                w.nreq += 1
                w.app_disconnect_with_id(op['s'], w.nreq)
            elif k == 'disconnectall':
                w.nreq += 1
                w.app_disconnect_with_id(None, w.nreq)
            elif k == 'shutdown':
                w.nreq += 1
                w.app_shutdown(w.nreq)
            elif k == 'transport':
                w.app_transport(op['s'])
            elif k == 'sessctx':
                w.app_session_ctx(op['s'], op['tok'])
            elif k == 'apiunknown':
                if op['call'] == 'disconnect':
                    w.nreq += 1
                w.app_unknown(op['call'], op.get('variant', 0), w.nreq)
                a = {'call': op['call']}
            elif k == 'save':
                w.app_save_session(op['s'], op['tok'])
            elif k == 'get':
                w.app_get_session(op['s'])
            else:
                raise ValueError(k)
            w.quiesce()
            lines.append({'ev': k, 'a': a, 'st': w.snapshot(nslots), 'i': opi,
                          'rid': w.nreq if k in ('open', 'openws', 'poll', 'post', 'upgrade',
                                                 'anyreq') else 0})
        facts['blocked'] = sorted((
            rid for rid, r in w.reqs.items()
            if (isinstance(r, dict) and not r['done']) or
            (not isinstance(r, dict) and r.kind == 'http' and not r.done)), key=str)
        facts['reqs'] = {rid: summarize(r) for rid, r in w.reqs.items()}
        facts['blocked_sig'] = {str(rid): W.blocked_signature(w, w.reqs[rid])
                                for rid in facts['blocked']}
    finally:
        w.close()
    return lines, facts


def summarize(r):
    if isinstance(r, dict):
        return {'api': True, 'done': r['done'], 'exc': repr(r['exc']) if r['exc'] else None}
    return {'kind': r.kind, 'done': r.done, 'status': r.status,
            'exc': repr(r.exc) if r.exc else None, 'gw': [list(map(str, g))[:2] for g in r.gw],
            'reads': getattr(r.stream, 'reads', None), 't': [r.t_start, r.t_end]}


def sid_of(w, slot):
    return w.sids.get(slot, 'unknown-sid-%d' % slot)


def encode_body(toks, max_buf):
    """-> (bytes, declared length or None)"""
    if len(toks) == 1 and toks[0].startswith('GARBAGE'):
        return {'GARBAGE': b'\xff\xfe\xfd', 'GARBAGE1': b'x1', 'GARBAGE2': b'4ok\x1e\xc3(',
                'GARBAGE3': b'4' + b'[' * 100000, 'GARBAGE4': b'4a\x1e\x1e4b',
                'GARBAGE5': b'4a\x1e+1', 'GARBAGE6': b'd=', 'GARBAGE7': b'4a\x1e'
                }[toks[0]], None
    if toks == ['OVERSIZE']:
        return b'4' + b'x' * max_buf, None
    if toks == ['EMPTYBODY']:
        return b'', None
    if len(toks) == 1 and toks[0].startswith('TOOMANY'):
        k = int(toks[0][7:])
        return '\x1e'.join('4' + W.cli_payload('m%d' % (3 * j + 1)) for j in range(k)).encode(), None
    parts = [W.encode_cli_packet(t, 'polling') for t in toks]
    return '\x1e'.join(parts).encode('utf-8'), None


def frame_raw(tok, max_buf):
    if tok == 'OVERSIZE':
        return '4' + 'x' * max_buf
    return W.encode_cli_packet(tok, 'ws')


# ---- preconditions of environment actions that are not input-enabled ------------------------

def ws_active(w, slot):
    c = w.wss.get(slot)
    return c is not None and c.accepted and not c.ended and not c.peer_gone and \
        not c.server_closed


def ws_handler_alive(w, slot):
    c = w.wss.get(slot)
    return c is not None and c.accepted and not c.ended


def can(w, op):
    k = op['op']
    if k in ('open', 'openws'):
        return len(w.slots) < w.max_slots
    if k == 'tick':
        return True
    if k == 'shutdown':
        return not getattr(w, 'shut', False)      # at most once (see EioServer!AppShutdown)
    s = op.get('s')
    if s is not None and s not in w.sids:
        return False
    if k in ('wsframe', 'wsframes', 'wsdrop', 'wsframesz'):
        return ws_active(w, s)
    if k == 'upgrade':
        so = w.socks.get(s)
        return (not ws_handler_alive(w, s)) or (so is not None and so.upgraded)
    return True


BODIES = [['PONG'], ['m1'], ['m2'], ['m3'], ['CLOSE'], ['UPGRADE'], ['BAD7'], ['BAD2'], ['GARBAGE'],
          ['OVERSIZE'], ['m1', 'm2'], ['m1', 'CLOSE'], ['CLOSE', 'm1'], ['CLOSE', 'UPGRADE'],
          ['mE1'], ['mX1', 'm2'], ['BAD7', 'm1'], ['m1', 'BAD7'], ['PONG', 'm3', 'PONG']]
FRAMES = ['PINGprobe', 'UPGRADE', 'PONG', 'm1', 'm3', 'mE1', 'CLOSE', 'BAD7', 'OVERSIZE', 'EMPTY',
          'GARBAGE', 'PINGx', 'm2']


def gen_script(rng, nslots, length, weights=None, horizon=200, tstep=(1, 24)):
    wts = {'open': 3, 'openrej': 1, 'openws': 1, 'poll': 6, 'post': 6, 'upgrade': 2,
           'wsframe': 8, 'wsframes': 2, 'wsdrop': 1, 'send': 6, 'disconnect': 1, 'save': 1, 'get': 1,
           'transport': 1, 'sessctx': 1, 'disconnectall': 0, 'apiunknown': 1, 'shutdown': 0, 'tick': 6}
    if weights:
        wts.update(weights)
    kinds = [k for k in wts if wts[k] > 0]
    script = [{'op': 'open'}] if wts.get('open', 0) > 0 else [{'op': 'openws'}]
    t = 0
    for _ in range(length):
        k = rng.choices(kinds, [wts[x] for x in kinds])[0]
        s = rng.randint(1, nslots)
        if k == 'open':
            script.append({'op': 'open', 'outcome': 'accept', 'hsend': rng.random() < 0.3})
        elif k == 'openrej':
            script.append({'op': 'open', 'outcome': 'reject', 'hsend': rng.random() < 0.3})
        elif k == 'openws':
            script.append({'op': 'openws', 'outcome': rng.choice(['accept'] * 4 + ['reject']),
                           'hsend': rng.random() < 0.3})
        elif k == 'post':
            script.append({'op': 'post', 's': s, 'body': rng.choice(BODIES)})
        elif k == 'wsframe':
            script.append({'op': 'wsframe', 's': s, 'f': rng.choice(FRAMES)})
        elif k == 'wsframes':
            script.append({'op': 'wsframes', 's': s,
                           'fs': [rng.choice(FRAMES) for _ in range(rng.choice([2, 2, 3]))]})
        elif k in ('save', 'sessctx'):
            script.append({'op': k, 's': s, 'tok': rng.randint(1, 9)})
        elif k == 'tick':
            t += rng.randint(*tstep)
            script.append({'op': 'tick', 't': t})
        elif k in ('disconnectall', 'shutdown'):
            script.append({'op': k})
        elif k == 'apiunknown':
            script.append({'op': 'apiunknown', 'variant': rng.randint(0, 5),
                           'call': rng.choice(['send', 'get', 'save', 'transport', 'sessctx',
                                               'disconnect'])})
        else:
            script.append({'op': k, 's': s})
    return script


# ---- size probes (C14): concrete sizes around the limit, mapped to spec-level actions --------

def fit(pfx, total, channel):
    """Smallest filler count k such that the wire form of the probe has at least `total`
    bytes / characters (exactly `total` whenever the form allows it)."""
    def size(k):
        e = W.encode_cli_packet(pfx + str(k), channel)
        return len(e.encode()) if isinstance(e, str) and channel == 'polling' else len(e)
    lo, hi = 0, max(total, 1)
    while lo < hi:
        mid = (lo + hi) // 2
        if size(mid) >= total:
            hi = mid
        else:
            lo = mid + 1
    return lo


def size_op(w, op):
    """Performs the request/frame; returns the spec-level (event name, arguments)."""
    L = w.cfg['max_buf']
    s = op['s']
    sid = sid_of(w, s)
    q = 'transport=polling&EIO=4&sid=' + sid
    kind = op['op']
    if kind == 'postsz':
        total = L + op['rel']
        if op.get('tiny'):
            # bodies of 1 and 2 bytes for very small limits
            body = b'3' if total <= 1 else b'z' * total
            toks = ['PONG'] if len(body) == 1 else ['GARBAGE']
            if len(body) > L:
                toks = ['OVERSIZE']
            w.http('POST', q, body=body, slot=s)
            return 'post', {'s': s, 'body': toks}
        pfx = 'mU' if op.get('mb') else 'mY' if op.get('bin') else 'mZ'
        # body = '4' + 'c:mZ<k>:' + 'x'*k  (text)   or   'b' + base64(...) (binary)   or, with 'mb',
        # k two-byte characters: the limit counts BYTES of the body, not characters
        tok = pfx + str(fit(pfx, total, 'polling'))
        body = W.encode_cli_packet(tok, 'polling').encode()
        w.http('POST', q, body=body, slot=s)
        return 'post', {'s': s, 'body': ['OVERSIZE'] if len(body) > L else [tok]}
    if kind == 'postform':
        import urllib.parse
        k = op['k']
        toks = ['m%d' % (3 * j + 1) for j in range(k)]       # text payloads
        plain = '\x1e'.join(W.encode_cli_packet(t, 'polling') for t in toks)
        body = ('d=' + urllib.parse.quote(plain, safe='')).encode()
        w.http('POST', q + '&j=0', body=body, slot=s)
        return 'post', {'s': s, 'body': toks if k <= 16 else ['TOOMANY%d' % k]}
    if kind == 'postnolen':
        # declared length 0 (or no Content-Length at all) with a non-empty body: nothing may be read
        w.http('POST', q, body=W.encode_cli_packet('m1', 'polling').encode(),
               declared=op.get('declared', 0), slot=s)
        return 'post', {'s': s, 'body': ['EMPTYBODY']}
    if kind == 'posttrunc':
        first = W.encode_cli_packet('m1', 'polling').encode()
        body = first + b'\x1e' + W.encode_cli_packet('m4', 'polling').encode()
        w.http('POST', q, body=body, declared=len(first), slot=s)
        return 'post', {'s': s, 'body': ['m1']}
    if kind == 'postlong':
        body = W.encode_cli_packet('m1', 'polling').encode()
        w.http('POST', q, body=body, declared=min(L, len(body) + 5), slot=s)
        return 'post', {'s': s, 'body': ['m1'] if len(body) <= L else ['OVERSIZE']}
    if kind == 'postdecl':
        w.http('POST', q, body=W.encode_cli_packet('m1', 'polling').encode(), declared=L + op.get('rel', 1),
               slot=s)
        return 'post', {'s': s, 'body': ['OVERSIZE']}
    if kind == 'wsframesz':
        total = L + op['rel']
        pfx = 'mY' if op.get('bin') else 'mZ'
        tok = pfx + str(fit(pfx, total, 'ws'))
        raw = W.encode_cli_packet(tok, 'ws')
        w.ws_frame(s, raw)
        return 'wsframe', {'s': s, 'f': 'OVERSIZE' if len(raw) > L else tok}
    raise ValueError(kind)


# ---- requests that must be refused without any effect (status decided by this table) --------
ANYREQ = {
    'put': ('PUT', 'transport=polling&EIO=4', 405),
    'delete': ('DELETE', 'transport=polling&EIO=4&sid={sid}', 405),
    'head': ('HEAD', 'transport=polling&EIO=4', 405),
    'patch': ('PATCH', 'transport=polling&EIO=4&sid={sid}', 405),
    'options': ('OPTIONS', 'transport=polling&EIO=4', 200),
    'options-sid': ('OPTIONS', 'transport=polling&EIO=4&sid={sid}', 200),
    'eio3': ('GET', 'transport=polling&EIO=3', 400),
    'eio-missing': ('GET', 'transport=polling', 400),
    'eio-dup': ('GET', 'transport=polling&EIO=4&EIO=4', 400),
    'transport-bogus': ('GET', 'transport=bogus&EIO=4', 400),
    'transport-bogus-sid': ('GET', 'transport=bogus&EIO=4&sid={sid}', 400),
    'jsonp-nonnumeric': ('GET', 'transport=polling&EIO=4&j=abc', 400),
    'jsonp-empty-sid': ('GET', 'transport=polling&EIO=4&j=x&sid={sid}', 400),
    'ws-no-upgrade-header': ('GET', 'transport=websocket&EIO=4', 400),
    'sid-unknown-get': ('GET', 'transport=polling&EIO=4&sid=nosuchsession', 400),
    'sid-unknown-post': ('POST', 'transport=polling&EIO=4&sid=nosuchsession', 400),
    'post-no-sid': ('POST', 'transport=polling&EIO=4', 400),
    'post-eio3-no-sid': ('POST', 'transport=polling&EIO=3', 400),
}


def any_request(w, kind, slot):
    method, q, status = ANYREQ[kind]
    if '{sid}' in q:
        if slot not in w.sids:
            return None
        q = q.replace('{sid}', w.sids[slot])
    tr = w.cfg.get('transports')
    if tr and 'polling' not in tr and 'transport=polling' in q and method in ('GET', 'POST'):
        status = 400
    w.http(method, q, body=b'4x' if method in ('POST', 'PUT', 'PATCH') else b'')
    return status
