---------------------------- MODULE EioE2ETrace ----------------------------
(***************************************************************************)
(* Validation of real client+server conversations against EioE2E.  A trace *)
(* is a sequence of steps; a step has the application call made (op, a),   *)
(* the application events both sides saw during it, in order (ev: records  *)
(* [e, n]), and the observed connection bits / transports at quiescence.   *)
(* Within a step the events are consumed one by one (index j); at the end  *)
(* of the step the quiescence conditions are checked.                      *)
(***************************************************************************)
EXTENDS EioE2E, Json, IOUtils, TLCExt, FiniteSets

Tr == JsonDeserialize(IOEnv.TRACE_FILE)
VARIABLES tid, l, j, asked
tvars == <<csent, ssent, crecv, srecv, cup, sup, cconns, sconns, cdiscs, sdiscs, tid, l, j, asked>>

TraceInit == Init /\ tid \in 1..Len(Tr) /\ l = 1 /\ j = 0 /\ asked = FALSE

St == Tr[tid][l]

\* the application call of the step
Begin ==
    /\ l <= Len(Tr[tid]) /\ j = 0
    /\ j' = 1
    /\ asked' = (asked \/ St.op \in {"cdisc", "sdisc", "csendcdisc", "ssendsdisc", "bothdisc"})
    /\ CASE St.op \in {"csend", "csendcdisc"} -> /\ csent' = csent + Len(St.a.acc)
                               /\ (Len(St.a.acc) > 0 => cup)
                               /\ UNCHANGED <<ssent, crecv, srecv, cup, sup, cconns, sconns, cdiscs, sdiscs>>
         [] St.op \in {"ssend", "ssendsdisc"} -> /\ ssent' = ssent + Len(St.a.acc)
                               /\ (Len(St.a.acc) > 0 => sup)
                               /\ UNCHANGED <<csent, crecv, srecv, cup, sup, cconns, sconns, cdiscs, sdiscs>>
         [] OTHER -> UNCHANGED evars
    /\ UNCHANGED <<tid, l>>

Ev == St.ev[j]
Event ==
    /\ l <= Len(Tr[tid]) /\ j >= 1 /\ j <= Len(St.ev)
    /\ CASE Ev.e = "sconnect" -> SConnect
         [] Ev.e = "cconnect" -> CConnect
         [] Ev.e = "smsg"     -> SDeliver(Ev.n)
         [] Ev.e = "cmsg"     -> CDeliver(Ev.n)
         [] Ev.e = "cdisc"    -> CDisc
         [] Ev.e = "sdisc"    -> SDisc
         [] OTHER -> FALSE
    /\ j' = j + 1
    /\ UNCHANGED <<tid, l, asked>>

\* quiescence at the end of a step
EndStep ==
    /\ l <= Len(Tr[tid]) /\ j = Len(St.ev) + 1
    /\ cup = St.cup /\ sup = St.sup
    \* both up: everything sent has been received, and both sides name the same transport
    \* (settled: nothing is on the wire)
    /\ (cup /\ sup /\ St.settled) => (crecv = ssent /\ srecv = csent /\ St.ctr = St.str)
    \* nobody ends the connection unasked (heartbeats keep an idle connection alive)
    /\ ~asked => (cdiscs = 0 /\ sdiscs = 0)
    /\ l' = l + 1 /\ j' = 0
    /\ UNCHANGED <<evars, tid, asked>>

Finish ==
    /\ l = Len(Tr[tid]) + 1 /\ j = 0
    \* when either side disconnected, both observed exactly one disconnect
    /\ (cdiscs + sdiscs > 0) => (cdiscs = 1 /\ sdiscs = 1)
    /\ PrintT(<<"ACC", tid>>)
    /\ l' = l + 1
    /\ UNCHANGED <<evars, tid, j, asked>>

TraceNext == Begin \/ Event \/ EndStep \/ Finish
TraceSpec == TraceInit /\ [][TraceNext]_tvars
=============================================================================
