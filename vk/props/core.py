"""Shared machinery of the server-core checks (C03-C07, C14-C16, C18).

Pipeline per property: (1) TLC exhaustive on EioServerProps with a property-specific
alphabet and bounds; negative controls (a known deviation enabled => the raw invariant must
fail); (2) spec -> code: TLC simulation prints environment scripts which are replayed on the
real Server and AsyncServer; (3) seeded random scripts (longer, nastier); (4) code -> spec:
every recorded execution is validated by TLC against EioServer with every invariant of
EioServerProps evaluated in every state; (5) per-property extra oracles on the recorded facts.
"""
import concurrent.futures as cf
import json
import random
import re

from .. import tlc, tracecheck
from ..common import Check, MachineryError, NCPU, load_known_findings
from ..harness import driver, servercheck

STATE_INVS = [
    'TypeOK', 'C03_InOrderOnce', 'C03_OnlyAccepted', 'C03_NoLoss', 'C03_Retrievable',
    'C04_MessageOnce', 'C05_EventShape',
    'C05_ReasonIsFirstCause', 'C05_ClosedHasDisc', 'C05_RejectedSilent',
    'C06_UpgradingOnlyDuringHandshake', 'C06_NeverBothFlags', 'C06_WsOnlyIfAvailable',
    'C07_PollBounded', 'C07_DetectionBound', 'C16_TableOnlyUsed', 'C16_ReapedInTime',
    'C16_DataIsolated',
]
ACTION_PROPS = ['C07_NoFalseTimeout']

BASE_CONSTS = dict(
    Sid='{1}', MaxMsg=2, PingInterval=2, PingTimeout=1, AsyncHandlers='FALSE', Monitor='FALSE',
    WsAvailable='TRUE', Transports='{"polling", "websocket"}', ImplSentinel='TRUE',
    ImplWsReadTimeout='FALSE', ImplJoinLatch='FALSE', Deviations='{}', Horizon=6, Alpha='{}', MaxQ=4, MaxReq=6,
    MaxPings=2, MaxEv=4, EnvAnytime='FALSE', BodyProfile='"msg"', FrameProfile='"handshake"')


def alpha(*names):
    return '{' + ', '.join('"%s"' % n for n in names) + '}'


def consts(**kw):
    c = dict(BASE_CONSTS)
    c.update(kw)
    return c


def run_tlc_jobs(ck, jobs, par=4, timeout=1500):
    """jobs: list of dict(name, consts, invariants, properties, expect=None|invariant name).
    expect != None marks a negative control: that invariant MUST be violated."""
    def one(j):
        cfg = tlc.cfg_text(spec='Spec', constants=j['consts'], constraints=['Bound'], view='View',
                           invariants=j.get('invariants', ()), properties=j.get('properties', ()))
        return j, tlc.run('EioServerProps', cfg, workers=max(2, NCPU // par), timeout=timeout,
                          coverage=j.get('coverage', False), constants=j['consts'])
    out = []
    with cf.ThreadPoolExecutor(max_workers=par) as ex:
        for j, r in ex.map(one, jobs):
            if r.error:
                raise MachineryError('TLC job %s failed: %s\n%s' % (j['name'], r.error,
                                                                     r.out[-2500:]))
            ck.add_tlc(r, j['name'])
            exp = j.get('expect')
            if exp:
                if r.violated != exp:
                    raise MachineryError('negative control %s: expected %s to be violated, got %r'
                                         % (j['name'], exp, r.violated))
                ck.cov.setdefault('negative_controls', []).append(
                    '%s: %s violated as expected' % (j['name'], exp))
            elif r.violated:
                handled = False
                if j.get('on_violation'):
                    handled = j['on_violation'](ck, j, r)
                if not handled:
                    ck.violation('TLC: %s violated in model %s' % (r.violated, j['name']),
                                 {'job': j['name'], 'constants': j['consts'],
                                  'counterexample': '\n'.join(r.trace)[-8000:] or r.out[-4000:]})
            elif r.distinct < j.get('min_states', 50):
                raise MachineryError('vacuity: model %s has only %d states' % (j['name'],
                                                                               r.distinct))
            out.append((j, r))
    return out


# ---- spec -> code --------------------------------------------------------------------------

def scripts_from_spec(c, n, depth, seed, limit=None):
    """TLC simulation of EioServerSim -> harness scripts (deduplicated)."""
    c = dict(c)
    c['SimDepth'] = depth
    cfg = tlc.cfg_text(spec='SimSpec', constants=c, constraints=['Bound', 'EmitScript'])
    r = tlc.run('EioServerSim', cfg, simulate='num=%d' % n, depth=depth, workers=4,
                seed=seed, timeout=300, constants=c)
    if r.error:
        raise MachineryError('simulation failed: %s\n%s' % (r.error, r.out[-2000:]))
    txt = r.out
    scripts, seen = [], set()
    i = 0
    while True:
        i = txt.find('<< "SCRIPT"', i)
        if i < 0:
            break
        j = _balanced(txt, i)
        key = txt[i:j]
        i = j
        if key in seen:
            continue
        seen.add(key)
        try:
            v = tlc.parse_tla_value(key)
        except Exception:
            continue
        sc = _to_script(v[1])
        if sc:
            scripts.append(sc)
        if limit and len(scripts) >= limit:
            break
    return scripts, r


def _balanced(txt, i):
    depth = 0
    j = i
    while j < len(txt):
        if txt.startswith('<<', j):
            depth += 1
            j += 2
        elif txt.startswith('>>', j):
            depth -= 1
            j += 2
            if depth == 0:
                return j
        elif txt[j] == '"':
            j = txt.index('"', j + 1) + 1
        else:
            j += 1
    return j


def _to_script(actions):
    sc = []
    for a in actions:
        if a['op'] == 'tick':
            if sc and sc[-1]['op'] == 'tick':
                sc[-1]['t'] = a['t']
            else:
                sc.append({'op': 'tick', 't': a['t']})
        else:
            sc.append(dict(a))
    return sc


# ---- conformance ---------------------------------------------------------------------------

def execute(impl, cfg, scripts, nslots, tail_tick=True, preempt=None):
    """Run scripts on one implementation -> (traces, facts list).
    preempt = base seed: the threaded server is run under pre-emptive seeded schedules (the hub
    switches tasks inside blocks, at every primitive, and picks the next task at random); the
    snapshots are marked "relax" (EioServerTrace: outputs compared as bags, two named windows)."""
    traces, facts = [], []
    for k, sc in enumerate(scripts):
        sc = list(sc)
        if tail_tick:
            last_t = max([o['t'] for o in sc if o['op'] == 'tick'] + [0])
            flush = cfg.get('ping_interval', 2) + 3 * cfg.get('ping_timeout', 1) + 2
            sc.append({'op': 'tick', 't': last_t + flush})
        if preempt is not None:
            ssd = preempt[k] if isinstance(preempt, list) else preempt * 100003 + k
            lines, f = driver.run_script(impl, cfg, sc, nslots, seed=ssd, preempt=True)
            f['schedule_seed'] = ssd
            for ln in lines:
                ln['st']['relax'] = True
        else:
            lines, f = driver.run_script(impl, cfg, sc, nslots)
        f['script'] = sc
        traces.append(lines)
        facts.append(f)
    return traces, facts


HISTORY_INVS = ['EventShape', 'ClosedHasDisconnect', 'DeliveredInOrderOnce']


def conform(ck, plans, invariants=STATE_INVS, par=4, on_reject=None):
    """plans: list of dict(what, impl, cfg, nslots, scripts).  Executes, validates, reports.
    Returns list of (plan, traces, facts, verdict)."""
    done = []
    for p in plans:
        traces, facts = execute(p['impl'], p['cfg'], p['scripts'], p['nslots'],
                                preempt=p.get('preempt'))
        if p.get('relax'):
            for t in traces:
                for ln in t:
                    ln['st']['relax'] = True
        done.append([p, traces, facts, None])

    def val(item):
        p, traces, facts, _ = item
        v = servercheck.validate(traces, p['impl'], facts[0]['cfg'] if facts else p['cfg'],
                                 p['nslots'], deviations=p.get('deviations', ()),
                                 invariants=invariants, workers=max(2, NCPU // par))
        return v
    with cf.ThreadPoolExecutor(max_workers=par) as ex:
        for item, v in zip(done, ex.map(val, done)):
            item[3] = v
    for p, traces, facts, v in done:
        ck.cov['states'] += v.states
        ck.cov['transitions'] += v.generated
        nlines = sum(len(t) for t in traces)
        ck.add_conformance(p['what'], len(traces), len(v.accepted), impl=p['impl'],
                           trace_lines=nlines, rejected=len(v.rejected),
                           invariant_violations=len(v.inv_violations))
        for t in traces:
            ck.distinct([[ln['ev'], ln['a']] for ln in t])
        rejected = list(v.rejected)
        if (p.get('preempt') is not None or p.get('relax')) and rejected:
            # a pre-emptive schedule the block-to-block specification cannot follow (a task
            # switch inside a block) is judged by the history contract alone
            hv = tracecheck.validate('EioServerHistory', [traces[i] for i in rejected],
                                     invariants=HISTORY_INVS, properties=['AppendOnly'])
            ck.cov['schedules_outside_block_spec'] = \
                ck.cov.get('schedules_outside_block_spec', 0) + len(hv.accepted)
            for k, inv, txt in hv.inv_violations[:3]:
                i = rejected[k]
                ck.violation('history contract %s violated under a pre-emptive schedule (%s)' % (
                    inv, p['what']),
                    {'impl': p['impl'], 'cfg': facts[i]['cfg'], 'nslots': p['nslots'],
                     'script': facts[i]['script'], 'tlc': txt,
                     'schedule_seed': facts[i].get('schedule_seed'), 'kind': 'server-trace'})
            for k in sorted(hv.accepted)[:2]:
                i = rejected[k]
                d = servercheck.diagnose(traces[i], p['impl'], facts[i]['cfg'], p['nslots'])
                ck.sample({'schedule_outside_block_spec': {
                    'schedule_seed': facts[i].get('schedule_seed'),
                    'stuck_after_line': d.get('stuck_after_line'),
                    'line': {'ev': (d.get('line') or {}).get('ev'),
                             'a': (d.get('line') or {}).get('a')}}}, limit=6)
            rejected = [rejected[k] for k in hv.rejected]
        for i in rejected[:3]:
            cfg = facts[i]['cfg']
            d = servercheck.diagnose(traces[i], p['impl'], cfg, p['nslots'],
                                     deviations=p.get('deviations', ()))
            what = 'trace rejected by EioServer (%s, %s): stuck after line %s: %s' % (
                p['impl'], p['what'], d.get('stuck_after_line'),
                json.dumps({'ev': (d.get('line') or {}).get('ev'),
                            'a': (d.get('line') or {}).get('a')}))
            if on_reject and on_reject(ck, p, traces[i], facts[i], d):
                continue
            ck.violation(what, {'impl': p['impl'], 'cfg': cfg, 'nslots': p['nslots'],
                                'script': facts[i]['script'], 'diagnosis': d,
                                'schedule_seed': facts[i].get('schedule_seed'),
                                'kind': 'server-trace'})
        for i, inv, txt in v.inv_violations[:3]:
            ck.violation('invariant %s violated on a real execution (%s, %s)' % (
                inv, p['impl'], p['what']),
                {'impl': p['impl'], 'cfg': facts[i]['cfg'], 'nslots': p['nslots'],
                 'script': facts[i]['script'], 'tlc': txt,
                 'schedule_seed': facts[i].get('schedule_seed'), 'kind': 'server-trace'})
        # an application-facing call (send, disconnect, session calls; KeyError is caught and
        # recorded by the harness where the API documents it) must not raise
        nexc = 0
        for f in facts:
            for rid, r in f.get('reqs', {}).items():
                if r.get('api') and r.get('exc') and nexc < 2:
                    nexc += 1
                    ck.violation('application call %s raised %s (%s, %s)' % (
                        rid, r['exc'], p['impl'], p['what']),
                        {'impl': p['impl'], 'cfg': f['cfg'], 'nslots': p['nslots'],
                         'script': f['script'], 'call': rid, 'exc': r['exc'],
                         'kind': 'api-exception'})
        if traces and traces[0]:
            ck.sample({'impl': p['impl'], 'what': p['what'],
                       'script': facts[0]['script'][:12],
                       'first_lines': [{'ev': ln['ev'], 'a': ln['a'], 'out': ln['st']['out']}
                                       for ln in traces[0][:4]]}, limit=4)
    return done


def preempt_plan(seed, n, length, nslots, weights, cfg, what, tstep=(1, 10)):
    """The threaded server under pre-emptive seeded schedules (see execute())."""
    return dict(what='threaded server under pre-emptive schedules (task switches inside blocks, '
                     'random choice of the next task): ' + what, impl='sync', cfg=cfg,
                nslots=nslots, preempt=seed,
                scripts=random_scripts(seed + 77, n, length, nslots, weights, tstep=tstep))


def random_scripts(seed, n, length, nslots, weights=None, tstep=(1, 24)):
    rng = random.Random(seed)
    return [driver.gen_script(rng, nslots, length, weights, tstep=tstep) for _ in range(n)]


def burst_scripts(seed, n, nslots=1):
    """Bursts of 1..40 sends queued back to back, collected by polling, by an upgraded
    websocket or by a websocket-only session."""
    rng = random.Random(seed)
    out = []
    for i in range(n):
        mode = ('poll', 'upgrade', 'ws', 'pollpending')[i % 4]
        k = rng.choice([1, 2, 15, 16, 17, 18, 19, 25, 33, 40])
        sc = [{'op': 'openws'}] if mode == 'ws' else [{'op': 'open'}]
        if mode == 'upgrade':
            sc += [{'op': 'upgrade', 's': 1}, {'op': 'wsframe', 's': 1, 'f': 'PINGprobe'},
                   {'op': 'poll', 's': 1}]
            sc += [{'op': 'send', 's': 1}] * rng.randint(0, 3)
            sc += [{'op': 'wsframe', 's': 1, 'f': 'UPGRADE'}]
        if mode == 'pollpending':
            sc += [{'op': 'poll', 's': 1}]
        sc += [{'op': 'send', 's': 1}] * k
        if mode in ('poll', 'pollpending'):
            sc += [{'op': 'poll', 's': 1}, {'op': 'poll', 's': 1}]
        sc += [{'op': 'tick', 't': 2}, {'op': 'send', 's': 1}]
        if mode in ('poll', 'pollpending'):
            sc += [{'op': 'poll', 's': 1}]
        out.append(sc)
    return out


def replay_server_trace(pid, path):
    """--replay for violations of kind 'server-trace': re-run the script, re-validate."""
    with open(path) as f:
        rp = json.load(f)
    if rp.get('kind') == 'l2-trace':
        rc = replay_l2(pid, rp)
        if rc:
            print('VIOLATION property=%s replay=%s' % (pid, path))
        return rc
    if rp.get('kind') not in ('server-trace', 'api-exception'):
        print('replay file is not a server trace; content:\n' + json.dumps(rp, indent=1)[:3000])
        return 1
    if rp.get('schedule_seed') is not None:
        lines, facts = driver.run_script(rp['impl'], rp['cfg'], rp['script'], rp['nslots'],
                                         seed=rp['schedule_seed'], preempt=True)
        for ln in lines:
            ln['st']['relax'] = True
    else:
        lines, facts = driver.run_script(rp['impl'], rp['cfg'], rp['script'], rp['nslots'])
    raised = {rid: r['exc'] for rid, r in facts['reqs'].items() if r.get('api') and r.get('exc')}
    if raised:
        print('replay: application calls raised: %r' % raised)
        print('VIOLATION property=%s replay=%s' % (pid, path))
        return 1
    v = servercheck.validate([lines], rp['impl'], facts['cfg'], rp['nslots'],
                             invariants=STATE_INVS)
    if v.accepted and not v.inv_violations:
        print('replay: trace accepted, all invariants hold')
        return 0
    if v.inv_violations:
        print('replay: invariant %s violated' % v.inv_violations[0][1])
        print(v.inv_violations[0][2][-3000:])
    else:
        d = servercheck.diagnose(lines, rp['impl'], facts['cfg'], rp['nslots'])
        print('replay: trace rejected; diagnosis:')
        print(json.dumps(d, indent=1)[:6000])
    print('VIOLATION property=%s replay=%s' % (pid, path))
    return 1


# ---- L2: one queue primitive per step (EioQueueFine) -------------------------------------------

L2_INVS = ['TypeOK', 'OneDisconnect', 'ClosedHasDisconnect', 'NoLossNoDup', 'DeliveredInOrder',
           'CounterSound']
L2_KINDS = '{"poll", "send", "disc", "postclose"}'


def l2_consts(nproc, **kw):
    c = dict(Proc='{' + ', '.join(str(i) for i in range(1, nproc + 1)) + '}', Kinds=L2_KINDS,
             MaxMsg=2, Cap=2, SerialPolls='TRUE', Timeouts='TRUE')
    c.update(kw)
    return c


def l2_models(ck, th, liveness=False):
    """TLC on EioQueueFine: every interleaving of a few tasks at the grain of one queue
    primitive per step.  liveness: also the join / poll termination properties (C15)."""
    jobs = [dict(name='L2 (one queue primitive per step): %d tasks of kinds poll / send / '
                      'disconnect(sid) / POST CLOSE, poll timeouts, one GET at a time'
                      % (5 if th else 4),
                 spec='Spec', consts=l2_consts(5 if th else 4), invariants=L2_INVS),
            dict(name='L2: concurrent GETs on one session (3 tasks polling among %d)'
                      % (5 if th else 4), spec='Spec',
                 consts=l2_consts(5 if th else 4, SerialPolls='FALSE'), invariants=L2_INVS)]
    if liveness:
        jobs.append(dict(name='L2 liveness under fair scheduling: every GET returns (timeouts on)',
                         spec='FairSpec', consts=l2_consts(3, MaxMsg=1),
                         properties=['PollReturns', 'PollAnswers']))
        jobs.append(dict(name='L2 liveness: disconnect(sid) returns - expected to fail (finding F6)',
                         spec='FairSpec', consts=l2_consts(3, MaxMsg=1, Kinds='{"poll", "send", "disc"}'),
                         properties=['DisconnectReturns'], f6=True))

    wsc = dict(l2_consts(5 if th else 4), Kinds='{"send", "disc"}', Timeouts='FALSE',
               WsEnv='{"close", "gone"}')
    jobs.append(dict(name='L2 websocket session: reader + writer + %d short tasks (send / '
                          'disconnect(sid)), client CLOSE frame and client gone at any point'
                          % (3 if th else 2), module='EioQueueFineWs', spec='WsSpec', consts=wsc,
                     invariants=['WsTypeOK', 'OneDisconnect', 'ClosedHasDisconnect', 'WsNoLossNoDup',
                                 'WsInOrder', 'CounterSound']))
    if liveness:
        wl = dict(l2_consts(3, MaxMsg=1), Kinds='{"send", "disc"}', Timeouts='FALSE', WsEnv='{}')
        jobs.append(dict(name='L2 websocket liveness: once closed, reader and writer end',
                         module='EioQueueFineWs', spec='WsFairSpec',
                         consts=dict(wl, WsEnv='{"close", "gone"}', Proc='{1, 2, 3, 4}'),
                         properties=['WsTasksEnd'], min_states=100))
        jobs.append(dict(name='L2 websocket liveness: disconnect(sid) returns - expected to fail '
                              '(finding F6b: the joiner misses the instant the counter is zero)',
                         module='EioQueueFineWs', spec='WsFairSpec', consts=wl,
                         properties=['WsDisconnectReturns'], f6='F6b'))

    def one(j):
        cfg = tlc.cfg_text(spec=j['spec'], constants=j['consts'], invariants=j.get('invariants', ()),
                           properties=j.get('properties', ()))
        return j, tlc.run(j.get('module', 'EioQueueFine'), cfg, workers=max(2, NCPU // 2),
                          timeout=1500, constants=j['consts'])
    with cf.ThreadPoolExecutor(max_workers=2) as ex:
        for j, r in ex.map(one, jobs):
            if r.error:
                raise MachineryError('TLC job %s failed: %s\n%s' % (j['name'], r.error, r.out[-2000:]))
            ck.add_tlc(r, j['name'])
            if j.get('f6'):
                fid = j['f6'] if isinstance(j['f6'], str) else 'F6'
                opn, _ = load_known_findings(ck.pid)
                f6 = [e for e in opn if e['id'] == fid]
                txt = '\n'.join(r.trace)
                # the counterexample must be the listed finding: the joiner waits in d_join while
                # everything left in the queue can no longer be consumed (polls are refused)
                if r.violated and f6 and '"d_join"' in txt:
                    ck.known_finding(fid, f6[0]['what'])
                    ck.cov.setdefault('known_finding_counterexamples', []).append(
                        {'model': j['name'], 'length': len(r.trace)})
                elif r.violated:
                    ck.violation('EioQueueFine: %s violated (%s)' % (r.violated, j['name']),
                                 {'job': j['name'], 'counterexample': txt[-6000:]})
                continue
            if r.violated:
                ck.violation('EioQueueFine: %s violated (%s)' % (r.violated, j['name']),
                             {'job': j['name'], 'constants': j['consts'],
                              'counterexample': '\n'.join(r.trace)[-8000:] or r.out[-3000:]})
            elif r.distinct < j.get('min_states', 500):
                raise MachineryError('vacuity: %s has only %d states' % (j['name'], r.distinct))


def l2_conform(ck, seed, n):
    """Pre-emptive executions of the real threaded server (one polling session, several requests
    and application calls in flight), logged primitive by primitive and validated by TLC."""
    from ..harness import l2
    traces, facts = [], []
    for i, sc in enumerate(l2.scripts(seed + 31, n)):
        t, f = l2.run(sc, seed=seed * 100003 + i)
        traces.append(t)
        facts.append(f)
        ck.distinct(['l2', sc, f['schedule_seed']])
    consts = l2_consts(12, MaxMsg=99, Cap=16, SerialPolls='FALSE', Timeouts='FALSE')
    v = tracecheck.validate('EioQueueFineTrace', traces, constants=consts,
                            invariants=[i for i in L2_INVS if i != 'DeliveredInOrder'])
    ck.cov['states'] += v.states
    ck.cov['transitions'] += v.generated
    ck.add_conformance('threaded server, one polling session, groups of concurrent GET / send() / '
                       'disconnect(sid) / POST CLOSE under pre-emptive schedules: every queue '
                       'primitive that took effect (put, get call, get, task_done, join return, task '
                       'return) is one step of EioQueueFine; final queue, counter, flags, table, '
                       'events, deliveries must match', len(traces), len(v.accepted),
                       primitive_records=sum(len(t['log']) for t in traces))
    for i in v.rejected[:3]:
        ck.violation('primitive-level trace rejected by EioQueueFine (schedule seed %s)'
                     % facts[i]['schedule_seed'],
                     {'script': facts[i]['script'], 'schedule_seed': facts[i]['schedule_seed'],
                      'trace': traces[i], 'kind': 'l2-trace'})
    for i, inv, txt in v.inv_violations[:3]:
        ck.violation('EioQueueFine invariant %s violated on a real execution' % inv,
                     {'script': facts[i]['script'], 'schedule_seed': facts[i]['schedule_seed'],
                      'tlc': txt, 'kind': 'l2-trace'})
    # ---- spec -> code at L2: TLC schedules of EioQueueFineSim replayed on the real Server ------
    sconsts = l2_consts(4, MaxMsg=9, Cap=16, SerialPolls='FALSE', Timeouts='FALSE')
    cfg = tlc.cfg_text(spec='SimSpec', constants=sconsts, constraints=['EmitSchedule'])
    r = tlc.run('EioQueueFineSim', cfg, simulate='num=%d' % (n * 2), depth=80, workers=1,
                seed=seed + 5, timeout=600, constants=sconsts)
    if r.error:
        raise MachineryError('EioQueueFineSim simulation failed: %s\n%s' % (r.error, r.out[-1500:]))
    ck.add_tlc(r, 'simulation of EioQueueFineSim: behaviours run until nothing can move, with schedule')
    seen, i, txt = {}, 0, r.out
    while True:
        i = txt.find('<< "SCHEDULE"', i)
        if i < 0:
            break
        j = _balanced(txt, i)
        key, i = txt[i:j], j
        if key not in seen:
            seen[key] = tlc.parse_tla_value(key)
    nrep = nsame = 0
    for key, vv in seen.items():
        sched, mq, munf, mclosed, mclosing, mintable, mev, mdeliv, msent, mpc = vv[1:11]
        nrep += 1
        try:
            f = l2.replay_server_schedule(sched)
        except RuntimeError as e:
            ck.violation('the real Server cannot follow a TLC schedule of EioQueueFine: %s' % e,
                         {'schedule': sched, 'kind': 'l2-schedule'})
            continue
        pcs = mpc if isinstance(mpc, list) else [mpc[k] for k in sorted(mpc)]
        same = (f['q'], f['unf'], f['closed'], f['closing'], f['intable'], f['ev'], f['deliv'],
                f['sent']) == (mq, munf, mclosed, mclosing, mintable, mev, mdeliv, msent) and \
            all(f['done'].get(k + 1, False) == (pcs[k] == 'done') for k in range(len(pcs)))
        nsame += bool(same)
        if not same and nrep - nsame <= 3:
            ck.violation('under a TLC schedule the real Server ends in %r, EioQueueFine in %r' % (
                f, [mq, munf, mclosed, mclosing, mintable, mev, mdeliv, msent, pcs]),
                {'schedule': sched, 'kind': 'l2-schedule'})
        ck.distinct(['l2sched', [(e['p'], e['k']) for e in sched]])
    if nrep < 20:
        raise MachineryError('vacuity: only %d behaviours came out of the L2 simulation' % nrep)
    ck.add_conformance('spec -> code at L2: behaviours of EioQueueFine generated by TLC (4 tasks), each '
                       'replayed on the real threaded Server under exactly its schedule (hub in '
                       'scripted mode); final queue, counter, flags, table, events, deliveries and '
                       'which tasks returned must equal the model\'s', nrep, nsame)
    # ... and of EioQueueFineWsSim (websocket session); behaviours that end with disconnect(sid)
    # waiting in join() for ever reproduce finding F6b from the model's own schedules
    wsc = dict(l2_consts(4, MaxMsg=9, Cap=16, SerialPolls='FALSE', Timeouts='FALSE'),
               Kinds='{"send", "disc"}', WsEnv='{"close", "gone"}')
    cfg = tlc.cfg_text(spec='SimSpec', constants=wsc, constraints=['EmitSchedule'])
    r = tlc.run('EioQueueFineWsSim', cfg, simulate='num=%d' % (n * 2), depth=90, workers=1,
                seed=seed + 7, timeout=600, constants=wsc)
    if r.error:
        raise MachineryError('EioQueueFineWsSim simulation failed: %s\n%s' % (r.error, r.out[-1500:]))
    ck.add_tlc(r, 'simulation of EioQueueFineWsSim: behaviours run until nothing can move')
    seen, i, txt = {}, 0, r.out
    while True:
        i = txt.find('<< "SCHEDULE"', i)
        if i < 0:
            break
        j = _balanced(txt, i)
        key, i = txt[i:j], j
        if key not in seen:
            seen[key] = tlc.parse_tla_value(key)
    nrep = nsame = nstuck = 0
    opn, _ = load_known_findings(ck.pid)
    f6b = [e for e in opn if e['id'] == 'F6b']
    for key, vv in seen.items():
        sched, mq, munf, mclosed, mclosing, mintable, mev, mdeliv, msent, mpc = vv[1:11]
        nrep += 1
        try:
            f = l2.replay_ws_schedule(sched)
        except RuntimeError as e:
            ck.violation('the real Server cannot follow a TLC schedule of EioQueueFineWs: %s' % e,
                         {'schedule': sched, 'ws': True, 'kind': 'l2-schedule'})
            continue
        pcs = mpc if isinstance(mpc, list) else [mpc[k] for k in sorted(mpc)]
        same = (f['q'], f['unf'], f['closed'], f['closing'], f['intable'], f['ev'], f['deliv'],
                f['sent']) == (mq, munf, mclosed, mclosing, mintable, mev, mdeliv, msent) and \
            all(pcs[k] == 'idle' or f['done'].get(k + 1, False) == (pcs[k] == 'done')
                for k in range(len(pcs)))
        nsame += bool(same)
        if not same and nrep - nsame <= 3:
            ck.violation('under a TLC schedule the real Server (websocket session) ends in %r, '
                         'EioQueueFineWs in %r' % (f, [mq, munf, mclosed, mclosing, mintable, mev,
                                                       mdeliv, msent, pcs]),
                         {'schedule': sched, 'ws': True, 'kind': 'l2-schedule'})
        if same and any(x == 'd_join' for x in pcs):
            nstuck += 1
            if f6b:
                ck.known_finding('F6b', f6b[0]['what'])
    if nrep < 20:
        raise MachineryError('vacuity: only %d behaviours came out of the L2 ws simulation' % nrep)
    ck.add_conformance('spec -> code at L2, websocket session: behaviours of EioQueueFineWs generated '
                       'by TLC, each replayed on the real threaded Server under exactly its schedule; '
                       'the outcome must equal that of the model', nrep, nsame,
                       behaviours_with_disconnect_stuck_in_join=nstuck)
    # the same for one websocket session (reader + writer threads)
    wtraces, wfacts = [], []
    for i, sc in enumerate(l2.ws_scripts(seed + 37, n)):
        t, f = l2.run_ws(sc, seed=seed * 100019 + i)
        wtraces.append(t)
        wfacts.append(f)
        ck.distinct(['l2ws', sc, f['schedule_seed']])
    wconsts = dict(l2_consts(12, MaxMsg=99, Cap=16, SerialPolls='FALSE', Timeouts='FALSE'),
                   Kinds='{"send", "disc"}', WsEnv='{"close", "gone"}')
    wv = tracecheck.validate('EioQueueFineWsTrace', wtraces, constants=wconsts,
                             invariants=['WsTypeOK', 'OneDisconnect', 'ClosedHasDisconnect',
                                         'WsNoLossNoDup', 'WsInOrder', 'CounterSound'])
    ck.cov['states'] += wv.states
    ck.cov['transitions'] += wv.generated
    ck.add_conformance('threaded server, one websocket session (reader task + writer thread), groups '
                       'of concurrent send() / disconnect(sid), client CLOSE frame / client gone, '
                       'under pre-emptive schedules: every queue primitive, the writer closing the '
                       'socket and every task return is one step of EioQueueFineWs', len(wtraces),
                       len(wv.accepted), primitive_records=sum(len(t['log']) for t in wtraces))
    for i in wv.rejected[:3]:
        ck.violation('primitive-level trace rejected by EioQueueFineWs (schedule seed %s)'
                     % wfacts[i]['schedule_seed'],
                     {'script': wfacts[i]['script'], 'schedule_seed': wfacts[i]['schedule_seed'],
                      'trace': wtraces[i], 'ws': True, 'kind': 'l2-trace'})
    for i, inv, txt in wv.inv_violations[:3]:
        ck.violation('EioQueueFineWs invariant %s violated on a real execution' % inv,
                     {'script': wfacts[i]['script'], 'schedule_seed': wfacts[i]['schedule_seed'],
                      'tlc': txt, 'ws': True, 'kind': 'l2-trace'})


UP_INVS = ['UpTypeOK', 'UpgradedOnlyViaHandshake', 'FailedLeavesPolling', 'GateHeld', 'NoLossNoDupUp',
           'InOrderUp']


def up_consts(nproc, **kw):
    c = dict(l2_consts(nproc, MaxMsg=2, Cap=2, SerialPolls='TRUE', Timeouts='FALSE'),
             Kinds='{"poll", "send"}', BadFrames='TRUE', WellBehaved='TRUE', Deviation='"none"')
    c.update(kw)
    return c


def up_trace_consts(nproc, wb):
    b = 'TRUE' if wb else 'FALSE'
    return up_consts(nproc, MaxMsg=100, Cap=16, SerialPolls=b, WellBehaved=b)


def l2_upgrade(ck, th, seed):
    """L2 for the upgrade of a polling session of the threaded server (EioQueueFineUp): TLC over
    every interleaving of the upgrade request, the writer it starts, GETs, send() calls and the
    client's frames, with every write of the two flags a step of its own; then pre-emptive
    executions of the real Server validated primitive by primitive."""
    from ..harness import l2
    jobs = [dict(name='L2 upgrade: upgrade request + writer + %d GET / send() tasks, client sending '
                      'probe / UPGRADE / wrong frames / going away, one GET at a time and UPGRADE '
                      'only when none is outstanding: gate, handshake, no-loss and order invariants, '
                      'one transport' % (4 if th else 3),
                 spec='UpSpec', consts=up_consts(6 if th else 5), invariants=UP_INVS,
                 properties=['OneTransport']),
            dict(name='L2 upgrade: any client (overlapping GETs, UPGRADE at any time): gate, '
                      'handshake and no-loss invariants',
                 spec='UpSpec', consts=up_consts(6 if th else 5, SerialPolls='FALSE', WellBehaved='FALSE'),
                 invariants=['UpTypeOK', 'UpgradedOnlyViaHandshake', 'FailedLeavesPolling', 'GateHeld',
                             'NoLossNoDupUp']),
            dict(name='L2 upgrade liveness under fair scheduling: the NOOP ends the pending GET, so '
                      'a well-behaved client gets to send UPGRADE',
                 spec='UpFairSpec', consts=up_consts(5, MaxMsg=1, BadFrames='FALSE'),
                 properties=['ProbeAnswered']),
            dict(name='L2 upgrade negative control: without put(NOOP) after the probe the pending GET '
                      'never ends and the upgrade cannot complete',
                 spec='UpFairSpec', consts=up_consts(5, MaxMsg=1, BadFrames='FALSE', Deviation='"NoNoop"'),
                 properties=['ProbeAnswered'], must_fail=True),
            dict(name='L2 upgrade negative control: a GET that ignores the two flags lets messages '
                      'travel on polling after the upgrade',
                 spec='UpSpec', consts=up_consts(5, BadFrames='FALSE', Deviation='"PollIgnoresFlags"'),
                 invariants=['InOrderUp'], properties=['OneTransport'], must_fail=True),
            dict(name='L2 upgrade negative control: the gate reading upgraded before upgrading lets a '
                      'GET through between the two final writes',
                 spec='UpSpec', consts=up_consts(5, BadFrames='FALSE', Deviation='"GateReadsSwapped"'),
                 invariants=['InOrderUp'], properties=['OneTransport'], must_fail=True),
            dict(name='L2 upgrade negative control: upgrading = False written before upgraded = True '
                      'opens the gate for the width of one statement',
                 spec='UpSpec', consts=up_consts(5, BadFrames='FALSE', Deviation='"FlagWritesSwapped"'),
                 invariants=['InOrderUp', 'GateHeld'], properties=['OneTransport'], must_fail=True)]
    for j in jobs:
        cfg = tlc.cfg_text(spec=j['spec'], constants=j['consts'], invariants=j.get('invariants', ()),
                           properties=j.get('properties', ()))
        r = tlc.run('EioQueueFineUp', cfg, workers=max(2, NCPU // 2), timeout=2400,
                    constants=j['consts'])
        if r.error:
            raise MachineryError('TLC job %s failed: %s\n%s' % (j['name'], r.error, r.out[-2000:]))
        ck.add_tlc(r, j['name'])
        if j.get('must_fail'):
            if not r.violated:
                raise MachineryError('negative control did not fail: %s' % j['name'])
            continue
        if r.violated:
            ck.violation('EioQueueFineUp: %s violated (%s)' % (r.violated, j['name']),
                         {'job': j['name'], 'counterexample': '\n'.join(r.trace)[-8000:]})
        elif r.distinct < 500:
            raise MachineryError('vacuity: %s has only %d states' % (j['name'], r.distinct))
    n = 1500 if th else 240
    rng = random.Random(seed + 91)
    groups = {True: [], False: []}
    for i in range(n):
        wb = i % 2 == 0
        sc = l2.gen_up_script(rng, wb)
        t, f = l2.run_up(sc, seed=seed * 100019 + i)
        groups[wb].append((t, f))
        ck.distinct(['l2up', sc, f['schedule_seed']])
    nacc = ntot = nup = 0
    for wb, items in groups.items():
        nproc = max(f['nproc'] for t, f in items)
        v = tracecheck.validate('EioQueueFineUpTrace', [x[0] for x in items],
                                constants=up_trace_consts(nproc, wb), invariants=UP_INVS)
        ck.cov['states'] += v.states
        ck.cov['transitions'] += v.generated
        nacc += len(v.accepted)
        ntot += len(items)
        nup += sum(1 for t, f in items if t['final']['upgraded'])
        for i in v.rejected[:3]:
            ck.violation('primitive-level upgrade trace rejected by EioQueueFineUp (schedule seed %s)'
                         % items[i][1]['schedule_seed'],
                         {'script': items[i][1]['script'], 'schedule_seed': items[i][1]['schedule_seed'],
                          'trace': items[i][0], 'up': True, 'kind': 'l2-trace'})
        for i, inv, txt in v.inv_violations[:3]:
            ck.violation('EioQueueFineUp invariant %s violated on a real execution' % inv,
                         {'script': items[i][1]['script'], 'schedule_seed': items[i][1]['schedule_seed'],
                          'tlc': txt, 'up': True, 'kind': 'l2-trace'})
    if nup < ntot // 6:
        raise MachineryError('vacuity: only %d of %d upgrade executions completed the upgrade' % (nup, ntot))
    ck.add_conformance('threaded server, one polling session being upgraded, under pre-emptive '
                       'schedules: the upgrade request (flag writes, wait() calls and returns, '
                       'put(NOOP)), the writer thread, concurrent GETs and send() calls, the client '
                       'sending probe / UPGRADE / wrong frames or going away: every primitive is one '
                       'step of EioQueueFineUp; final queue, counter, flags, deliveries per transport '
                       'must match', ntot, nacc, completed_upgrades=nup)
    # ---- spec -> code: TLC schedules of EioQueueFineUpSim replayed on the real Server ----------
    sconsts = up_consts(4, MaxMsg=9, Cap=16, SerialPolls='FALSE', WellBehaved='FALSE')
    cfg = tlc.cfg_text(spec='SimSpec', constants=sconsts, constraints=['EmitSchedule'])
    r = tlc.run('EioQueueFineUpSim', cfg, simulate='num=%d' % (800 if th else 200), depth=140,
                workers=1, seed=seed + 9, timeout=900, constants=sconsts)
    if r.error:
        raise MachineryError('EioQueueFineUpSim simulation failed: %s\n%s' % (r.error, r.out[-1500:]))
    ck.add_tlc(r, 'simulation of EioQueueFineUpSim: behaviours up to points where no task can move, '
                  'with schedule')
    seen, i, txt = {}, 0, r.out
    while True:
        i = txt.find('<< "SCHEDULE"', i)
        if i < 0:
            break
        j = _balanced(txt, i)
        key, i = txt[i:j], j
        if key not in seen:
            seen[key] = tlc.parse_tla_value(key)
    nrep = nsame = nupg = 0
    for key, vv in seen.items():
        sched, mq, munf, mug, mud, mpd, mwd, msent, mpc = vv[1:10]
        nrep += 1
        try:
            f = l2.replay_up_schedule(sched)
        except RuntimeError as e:
            ck.violation('the real Server cannot follow a TLC schedule of EioQueueFineUp: %s' % e,
                         {'schedule': sched, 'kind': 'l2-up-schedule'})
            continue
        pcs = mpc if isinstance(mpc, list) else [mpc[k] for k in sorted(mpc)]
        same = (f['q'], f['unf'], f['upgrading'], f['upgraded'], f['pdeliv'], f['wdeliv'], f['sent']) == \
            (list(mq), munf, mug, mud, list(mpd), list(mwd), msent) and \
            all(f['done'].get(k + 1, False) == (pcs[k] == 'done') for k in range(len(pcs)))
        nsame += bool(same)
        nupg += bool(mud)
        if not same and nrep - nsame <= 3:
            ck.violation('under a TLC schedule of the upgrade the real Server ends with %r, '
                         'EioQueueFineUp with queue %r counter %r flags %r/%r polling %r websocket %r '
                         'sent %r pcs %r' % (f, mq, munf, mug, mud, mpd, mwd, msent, pcs),
                         {'schedule': sched, 'kind': 'l2-up-schedule'})
        ck.distinct(['l2upsched', [(e['p'], e['k']) for e in sched]])
    if nrep < 20:
        raise MachineryError('vacuity: only %d behaviours came out of the upgrade simulation' % nrep)
    ck.add_conformance('spec -> code at L2 (upgrade): behaviours of EioQueueFineUp generated by TLC, '
                       'each replayed on the real threaded Server under exactly its schedule (scripted '
                       'hub; the frames of the client delivered where the schedule says, also between '
                       'two steps of the upgrade request); queue, counter, both flags, deliveries per '
                       'transport, accepted sends and the set of finished tasks must equal the model',
                       nrep, nsame, behaviours_with_completed_upgrade=nupg)


def replay_l2(pid, rp):
    from ..harness import l2
    if rp.get('up'):
        t, f = l2.run_up(rp['script'], seed=rp['schedule_seed'])
        v = tracecheck.validate('EioQueueFineUpTrace', [t],
                                constants=up_trace_consts(max(3, f['nproc']), rp['script']['wb']),
                                invariants=UP_INVS)
    elif rp.get('ws'):
        t, f = l2.run_ws(rp['script'], seed=rp['schedule_seed'])
        consts = dict(l2_consts(12, MaxMsg=99, Cap=16, SerialPolls='FALSE', Timeouts='FALSE'),
                      Kinds='{"send", "disc"}', WsEnv='{"close", "gone"}')
        v = tracecheck.validate('EioQueueFineWsTrace', [t], constants=consts,
                                invariants=['WsTypeOK', 'OneDisconnect', 'WsNoLossNoDup'])
    else:
        t, f = l2.run(rp['script'], seed=rp['schedule_seed'])
        consts = l2_consts(12, MaxMsg=99, Cap=16, SerialPolls='FALSE', Timeouts='FALSE')
        v = tracecheck.validate('EioQueueFineTrace', [t], constants=consts,
                                invariants=[i for i in L2_INVS if i != 'DeliveredInOrder'])
    if v.accepted and not v.inv_violations:
        print('replay: primitive-level trace accepted by EioQueueFine')
        return 0
    print(json.dumps(t)[:4000])
    return 1


# ---- known finding: disconnect() blocked in queue.join() (F6 / F13) --------------------------

def blocked_findings(ck, pid, plan, facts, fid='F6'):
    """Requests / API calls still blocked at the end of an execution.  A call blocked in
    queue.join() on behalf of disconnect(sid) for a session on polling is the known finding;
    anything else still blocked is a violation."""
    opn, _ = load_known_findings(pid)
    listed = {e['id']: e for e in opn}
    nviol = 0
    for f in facts:
        for rid in f.get('blocked', []):
            info = f['reqs'].get(rid) or f['reqs'].get(str(rid))
            sig = f.get('blocked_sig', {}).get(str(rid), {})
            if sig.get('in') == 'queue.join' and sig.get('transport') == 'polling' and \
                    fid in listed:
                ck.known_finding(fid, listed[fid]['what'])
                continue
            # F6b: threaded server, websocket session, needs a particular thread schedule
            if sig.get('in') == 'queue.join' and sig.get('transport') == 'websocket' and \
                    plan['impl'] == 'sync' and plan.get('preempt') is not None and \
                    (info or {}).get('api') and 'F6b' in listed:
                ck.known_finding('F6b', listed['F6b']['what'])
                ck.cov['f6b_schedules'] = ck.cov.get('f6b_schedules', 0) + 1
                continue
            nviol += 1
            if nviol <= 3:
                ck.violation('request/call %s never completed (%s, %s): %r' % (
                    rid, plan['impl'], plan['what'], sig or info),
                    {'impl': plan['impl'], 'cfg': f['cfg'], 'script': f['script'],
                     'blocked': rid, 'sig': sig, 'kind': 'blocked'})
    return nviol
