"""A real engineio client talking to a real engineio server in one deterministic world.

Any of the four implementation pairs: the threaded pieces run on the greenlet hub, the asyncio
pieces on the virtual-time loop, both on one virtual clock; quiescence alternates between the
two schedulers until neither has work.  The "network" hands a request or frame over as soon
as it is written; the client's fake transport objects call the server's real gateway
(WSGIApp / ASGIApp) and vice versa.
"""
import asyncio
import urllib.parse

from . import hub as hubmod
from . import vloop
from . import world as W
from . import cworld as CW

TICK = W.TICK


class E2E:
    def __init__(self, cimpl, simpl, scfg=None, ccfg=None, seed=0, latency=0, http_latency=0,
                 preempt=False):
        self.cimpl, self.simpl = cimpl, simpl
        self.latency = latency        # ticks a websocket frame spends on the wire
        self.http_latency = http_latency   # ticks an HTTP request / response spends on the wire
        self.wire = []                # (due time, n, fn)
        self._n = 0
        self.hub = hubmod.Hub(seed=seed, preempt=preempt)
        hubmod.set_hub(self.hub)
        self.loop = vloop.VLoop()
        self.log = []
        self.sw = W.make_world(simpl, scfg, hub=self.hub, loop=self.loop)
        ccfg = dict(ccfg or {})
        ccfg.setdefault('url', 'http://test')
        if cimpl == 'sync':
            self.cw = _SyncClient(self, ccfg)
        else:
            self.cw = _AsyncClient(self, ccfg)
        # one ordered log of application-level events of both sides
        e2e = self
        sw_ev = self.sw._ev
        cw_ev = self.cw._ev

        def s_ev(slot, e):
            sw_ev(slot, e)
            e2e.log.append('s' + e)

        # The client runs its message handlers as background tasks (run_async=True): a message
        # event *fires* when the read loop triggers it, the handler may run later (e.g. after
        # the disconnect event of a CLOSE that arrived right behind).  The ordered log records
        # message events where they fire; the handler runs are counted and must catch up.
        self.c_fired = self.c_ran = 0

        def c_ev(e):
            cw_ev(e)
            if e.startswith('msg:'):
                e2e.c_ran += 1
            else:
                e2e.log.append('c' + e)
        self.sw._ev = s_ev
        self.cw._ev = c_ev
        cl = self.cw.client
        trig0 = cl._trigger_event

        def fired(event, args):
            if event == 'message':
                e2e.c_fired += 1
                e2e.log.append('cmsg:' + W.srv_token(1, args[0]))
        if cimpl == 'sync':
            def trig(event, *args, **kw):
                fired(event, args)
                return trig0(event, *args, **kw)
        else:
            async def trig(event, *args, **kw):
                fired(event, args)
                return await trig0(event, *args, **kw)
        cl._trigger_event = trig

    # ---- clock / scheduling ------------------------------------------------------------------
    def now(self):
        return self.hub.now

    def ticks(self):
        t = (self.now() - hubmod.EPOCH) / TICK
        return int(round(t))

    def quiesce(self):
        for _ in range(10000):
            self.hub.run()
            n = self.loop.quiesce()
            if not self.hub.ready and not n and not self.loop._ready:
                return
        raise RuntimeError('e2e world does not quiesce')

    def later(self, fn, lat=None):
        """Put something on the wire: delivered after `latency` ticks (at once if 0)."""
        lat = self.latency if lat is None else lat
        if not lat:
            fn()
            return
        import heapq
        self._n += 1
        heapq.heappush(self.wire, (self.now() + lat * TICK, self._n, fn))

    def next_deadline(self):
        a, b = self.hub.next_deadline(), self.loop.next_deadline()
        ds = [x for x in (a, b) if x is not None]
        if self.wire:
            ds.append(self.wire[0][0])
        return min(ds) if ds else None

    def advance_to(self, target):
        while self.now() < target - 1e-9:
            nd = self.next_deadline()
            t = target if nd is None or nd > target else nd
            self.hub.now = t
            self.loop.vnow = t
            self.hub.fire_due()
            import heapq
            while self.wire and self.wire[0][0] <= t + 1e-9:
                heapq.heappop(self.wire)[2]()
            self.quiesce()

    def close(self):
        try:
            self.cw.close()
        finally:
            try:
                self.sw.close()
            finally:
                self.hub.kill_all()
                self.loop.shutdown()

    # ---- network: client -> server -------------------------------------------------------------
    def net_http(self, method, url, headers, data, on_done):
        u = urllib.parse.urlparse(url)
        body = data.encode('utf-8') if isinstance(data, str) else (data or b'')
        hdrs = {k: v for k, v in (headers or {}).items()}
        hl = self.http_latency

        def deliver():
            rid = self.sw.http(method, u.query, headers=hdrs, body=body, slot=self._slot())
            r = self.sw.reqs[rid]

            def back(r_):
                self.later(lambda: on_done(r_), hl)     # the response travels too
            if r.done:
                back(r)
            else:
                r.on_done = back
        self.later(deliver, hl)

    def _slot(self):
        sid = getattr(self.cw.client, 'sid', None)
        return self.sw.slots.get(sid)

    def net_ws(self, url, on_accept, on_refuse, on_frame, on_close):
        u = urllib.parse.urlparse(url)
        rid = self.sw.ws_request(u.query, slot=self._slot())
        r = self.sw.reqs[rid]
        conn = r.conn
        conn.on_accept = lambda c: on_accept()
        conn.on_out = on_frame
        conn.on_close = lambda c: on_close()

        def ended(c):
            if not c.accepted:
                on_refuse()
            else:
                on_close()
        conn.on_end = ended
        return conn


# ---- client-side transports wired to the server ---------------------------------------------

class _SyncClient(CW.SyncClientWorld):
    def __init__(self, e2e, cfg):
        self.e2e = e2e
        super().__init__(cfg, hub=e2e.hub)

    def _http(self, method, url, headers, data, timeout):
        rec = self._new_request(method, url, headers, data, timeout)
        ev = hubmod.Event()
        box = {}

        def done(r):
            box['r'] = r
            ev.set()
        self.e2e.net_http(method, url, headers, data, done)
        ok = ev.wait(timeout)
        rec['done'] = True
        if not ok:
            raise CW._RequestException('timeout')
        r = box['r']
        if r.exc is not None or r.status is None:
            return CW._Resp(500, b'')
        return CW._Resp(int(str(r.status).split(' ')[0]), r.body or b'')

    def _create_connection(self, url, opts):
        conn = {'id': len(self.conns) + 1, 'url': url, 'opts': opts, 'state': 'connecting',
                'inq': hubmod.Queue(), 'out': [], 'timeout': opts.get('timeout'), 'accept': None}
        self.conns.append(conn)
        ev = hubmod.Event()

        def acc():
            conn['accept'] = True
            ev.set()

        def ref():
            conn['accept'] = False
            ev.set()

        def frame(msg):
            self.e2e.later(lambda: conn['inq'].put(msg))

        def closed_now():
            if conn['state'] == 'open':
                conn['state'] = 'closed'
                conn['inq'].put(CW._CLOSED)

        def closed():
            self.e2e.later(closed_now)
        sconn = self.e2e.net_ws(url, acc, ref, frame, closed)
        ok = ev.wait(opts.get('timeout'))
        if not ok or not conn['accept']:
            conn['state'] = 'refused'
            raise ConnectionError('websocket connection failed')
        conn['state'] = 'open'
        ws = _SyncWsE2E(self, conn, sconn)
        return ws


class _SyncWsE2E(CW._SyncWs):
    def __init__(self, w, conn, sconn):
        super().__init__(w, conn)
        self.sconn = sconn

    def send(self, data):
        if self.conn['state'] != 'open':
            raise CW._WsClosed('closed')
        e, sc = self.w.e2e, self.sconn
        e.later(lambda: e.sw.ws_frame_conn(sc, data))

    def send_binary(self, data):
        if self.conn['state'] != 'open':
            raise CW._WsClosed('closed')
        e, sc, b = self.w.e2e, self.sconn, bytes(data)
        e.later(lambda: e.sw.ws_frame_conn(sc, b))

    def close(self):
        if self.conn['state'] == 'open':
            self.conn['state'] = 'closedbyclient'
            self.connected = False
            self.conn['inq'].put(CW._CLOSED)
            e, sc = self.w.e2e, self.sconn
            # the closure travels behind the frames already written (one ordered connection)
            e.later(lambda: None if sc.peer_gone else e.sw.ws_drop_conn(sc))


class _AsyncClient(CW.AsyncClientWorld):
    def __init__(self, e2e, cfg):
        self.e2e = e2e
        super().__init__(cfg, loop=e2e.loop)

    async def _http(self, method, url, headers, data, timeout):
        import aiohttp
        rec = self._new_request(method, url, headers, data, timeout)
        fut = self.loop.create_future()

        def done(r):
            if not fut.done():
                fut.set_result(r)
        self.e2e.net_http(method, url, headers, data, done)
        try:
            r = await asyncio.wait_for(fut, timeout) if timeout else await fut
        except asyncio.TimeoutError:
            rec['done'] = True
            raise
        rec['done'] = True
        if r.exc is not None or r.status is None:
            return CW._AioResp(500, b'')
        return CW._AioResp(int(str(r.status).split(' ')[0]), r.body or b'')

    async def _ws_connect(self, url, opts):
        import aiohttp
        conn = {'id': len(self.conns) + 1, 'url': url, 'opts': opts, 'state': 'connecting',
                'inq': asyncio.Queue(), 'out': [], 'timeout': opts.get('timeout'), 'accept': None}
        self.conns.append(conn)
        fut = self.loop.create_future()

        def acc():
            conn['accept'] = True
            if not fut.done():
                fut.set_result(True)

        def ref():
            conn['accept'] = False
            if not fut.done():
                fut.set_result(False)

        def frame(msg):
            self.e2e.later(lambda: conn['inq'].put_nowait(msg))

        def closed_now():
            if conn['state'] == 'open':
                conn['state'] = 'closed'
                conn['inq'].put_nowait(CW._CLOSED)

        def closed():
            self.e2e.later(closed_now)
        sconn = self.e2e.net_ws(url, acc, ref, frame, closed)
        try:
            await asyncio.wait_for(fut, opts.get('timeout'))
        except asyncio.TimeoutError:
            conn['state'] = 'refused'
            raise aiohttp.client_exceptions.ServerConnectionError('timeout')
        if not conn['accept']:
            conn['state'] = 'refused'
            raise aiohttp.client_exceptions.ClientConnectionError('refused')
        conn['state'] = 'open'
        return _AioWsE2E(self, conn, sconn)


class _AioWsE2E(CW._AioWs):
    def __init__(self, w, conn, sconn):
        super().__init__(w, conn)
        self.sconn = sconn

    async def send_str(self, data):
        if self.conn['state'] != 'open':
            raise OSError('closed')
        e, sc = self.w.e2e, self.sconn
        e.later(lambda: e.sw.ws_frame_conn(sc, data))

    async def send_bytes(self, data):
        if self.conn['state'] != 'open':
            raise OSError('closed')
        e, sc, b = self.w.e2e, self.sconn, bytes(data)
        e.later(lambda: e.sw.ws_frame_conn(sc, b))

    async def close(self):
        if self.conn['state'] == 'open':
            self.conn['state'] = 'closedbyclient'
            self.conn['inq'].put_nowait(CW._CLOSED)
            e, sc = self.w.e2e, self.sconn
            e.later(lambda: None if sc.peer_gone else e.sw.ws_drop_conn(sc))


# ---- conversation driver ---------------------------------------------------------------------

def run_conversation(cimpl, simpl, scfg, script, seed=0, latency=0, http_latency=0, preempt=False,
                     time_yield=False):
    """script ops: connect(tr) csend(k) ssend(k) cdisc sdisc tick(t).  Returns the E2E trace:
    a list of steps [{'op', 'ev': [application events of both sides, in order]}] + facts."""
    e = E2E(cimpl, simpl, scfg, seed=seed, latency=latency, http_latency=http_latency,
            preempt=preempt)
    unpatch = None
    if time_yield:
        # time.time() is a switch point; inside Socket.check_ping_timeout() the service task may
        # even be pre-empted for a few ticks: that delays no protocol step, so a live peer must
        # survive it
        e.hub.time_yield = TICK
        import engineio.socket as ES
        orig = ES.Socket.check_ping_timeout

        import engineio.server as ESV
        orig_service = ESV.Server._service_task

        def checker(self_):
            # only the service task's sweep: the ping thread and application sends also pass
            # through the checker (inside send()), but delaying those delays the PING / the
            # message itself, which is not the situation of interest
            t = e.hub.current
            ok = t is not None and getattr(t, 'is_service', False)
            if ok:
                t.long_ok = getattr(t, 'long_ok', 0) + 1
            try:
                return orig(self_)
            finally:
                if ok:
                    t.long_ok -= 1

        def service(self_):
            if e.hub.current is not None:
                e.hub.current.is_service = True
            return orig_service(self_)
        ES.Socket.check_ping_timeout = checker
        ESV.Server._service_task = service

        def unpatch():
            ES.Socket.check_ping_timeout = orig
            ESV.Server._service_task = orig_service
    steps = []
    facts = {'pair': cimpl + '-client/' + simpl + '-server', 'scfg': dict(e.sw.cfg)}
    nc = ns = 0
    try:
        for op in script:
            e.log = []
            k = op['op']
            a = {}
            if k == 'connect':
                e.cw.app_connect(op['tr'])
                a = {'tr': op['tr']}
            elif k == 'csend':
                acc = []
                if op.get('spaced'):
                    for _ in range(op['k']):
                        if e.cw.client.state != 'connected':
                            # send() on a client that is not connected is a no-op; it is
                            # exercised by C08, here only accepted messages are numbered
                            continue
                        nc += 1
                        acc.append(nc)
                        e.cw.app_send('m%d' % nc)
                        e.quiesce()
                else:
                    # one application thread sends them in a row
                    e.cw.app_burst(op['k'], nc + 1, acc)
                    e.quiesce()
                    nc += len(acc)
                a = {'k': op['k'], 'acc': acc}
            elif k == 'ssend':
                slot = max(e.sw.sids) if e.sw.sids else None
                acc = []
                for _ in range(op['k']):
                    if slot is None:
                        break
                    before = e.sw.sent.get(slot, 0)
                    e.sw.app_send(slot)
                    e.quiesce()
                    if e.sw.sent.get(slot, 0) > before:
                        acc.append(e.sw.sent[slot])
                a = {'k': op['k'], 'acc': acc}
            elif k == 'ssendburst':
                # k sends queued back to back (no scheduling in between)
                slot = max(e.sw.sids) if e.sw.sids else None
                acc = []
                if slot is not None:
                    before = e.sw.sent.get(slot, 0)
                    for _ in range(op['k']):
                        e.sw.app_send(slot)
                    e.quiesce()
                    acc = list(range(before + 1, e.sw.sent.get(slot, 0) + 1))
                a = {'k': op['k'], 'acc': acc}
                k = 'ssend'
            elif k == 'csendcdisc':
                # one application thread: k sends, then disconnect(); the write loop may be busy
                # with a request when disconnect() runs (on a pre-emptive hub they overlap)
                acc = []
                e.cw.app_burst(op['k'], nc + 1, acc, then_disconnect=True)
                e.quiesce()
                nc += len(acc)
                a = {'k': op['k'], 'acc': acc}
            elif k == 'cdisc':
                e.cw.app_disconnect()
            elif k == 'ssendsdisc':
                # one server-side application thread: k sends, then disconnect(sid)
                slot = max(e.sw.sids) if e.sw.sids else None
                acc = []
                if slot is not None:
                    before = len(e.sw.accepted.get(slot, []))
                    e.sw.app_burst(slot, op['k'], then_disconnect=True)
                    e.quiesce()
                    acc = list(e.sw.accepted.get(slot, []))[before:]
                a = {'k': op['k'], 'acc': acc}
            elif k == 'bothdisc':
                # both applications disconnect at the same moment
                slot = max(e.sw.sids) if e.sw.sids else None
                e.cw.app_disconnect()
                if slot is not None:
                    e.sw.nreq += 1
                    e.sw.app_disconnect_with_id(slot, e.sw.nreq)
            elif k == 'sdisc':
                slot = max(e.sw.sids) if e.sw.sids else None
                if slot is not None:
                    e.sw.nreq += 1
                    e.sw.app_disconnect_with_id(slot, e.sw.nreq)
            elif k == 'tick':
                e.advance_to(hubmod.EPOCH + op['t'] * TICK)
                a = {'t': op['t']}
            elif k == 'tsend':
                # an application send() issued at the very moment the clock advances: it runs
                # concurrently with whatever the timers start (ping threads, the service task)
                slot = max(e.sw.sids) if e.sw.sids else None
                acc = []
                if slot is not None:
                    before = e.sw.sent.get(slot, 0)
                    e.sw.app_send(slot)
                e.advance_to(hubmod.EPOCH + op['t'] * TICK)
                e.quiesce()
                if slot is not None and e.sw.sent.get(slot, 0) > before:
                    acc.append(e.sw.sent[slot])
                a = {'k': 1, 'acc': acc}
                k = 'ssend'
            else:
                raise ValueError(k)
            e.quiesce()
            slot = max(e.sw.sids) if e.sw.sids else None
            so = e.sw.socks.get(slot) if slot else None
            steps.append({'op': k, 'a': a, 'ev': list(e.log), 'settled': not e.wire,
                          'cup': e.cw.client.state == 'connected',
                          'sup': bool(so is not None and not so.closed and so.connected and
                                      e.sw.sids[slot] in e.sw.server.sockets),
                          'ctr': e.cw.client.current_transport or 'none',
                          'str': ('websocket' if so is not None and so.upgraded else 'polling')})
        facts['client_calls_blocked'] = [c['name'] for c in e.cw.calls.values() if not c['done']]
        facts['client_handlers_not_run'] = e.c_fired - e.c_ran
        facts['server_api_exceptions'] = [
            '%s: %s' % (type(r['exc']).__name__, r['exc']) for k_, r in e.sw.reqs.items()
            if isinstance(r, dict) and r.get('exc') is not None]
    finally:
        e.close()
        if unpatch:
            unpatch()
    return steps, facts
