"""C01 - packet encoding is the Engine.IO v4 wire form and decoding inverts it."""
import itertools
import random

from .. import tlc, tracecheck
from ..common import Check, MachineryError
from . import codec as R

ALPHA = ['0', '4', '7', '9', 'b', '"', '[', ']', 'A', '=', '٤', '{', '-', ' ']


def payloads(rng, n):
    texts = ['', 'hello', 'b64?', 'bAAA=', '123', '-5', '1.5', 'null', 'true', 'NaN', 'Infinity',
             '{"a":1}', '[1,2]', '"s"', ' {"a":1}', '\t[1]', '{"a":', 'x\x1ey', '\x00\x01\x7f',
             '  ', '\U0001F600', 'café', '9' * 100, '9' * 101, '-' + '9' * 101,
             '[' + '9' * 101 + ']', '1e400', '\ud800', '4', '٤٢']
    for _ in range(n):
        L = rng.choice([1, 2, 3, 8, 40])
        texts.append(''.join(rng.choice(['a', '1', '"', '{', '}', '[', ']', ':', ',', ' ', '\x1e',
                                         '\\', '\n', 'é', '中', 'b', '=', '.', 'e', '-'])
                             for _ in range(L)))
    jsons = [{}, [], {'a': 1}, [1, 2, {'b': [None, True, 1.5, 'x']}], {'k': 'v\x1e"\\'}, [[]],
             {'n': None}, {'u': ' '}, [10 ** 30], {'nested': {'deep': [1, [2, [3]]]}}]
    bins = [b'', b'\x00', b'\x01\x02\x03', bytes(range(256)), b'b', b'4', bytearray(b'ba'),
            bytearray(b''), b'\xff' * 33]
    for _ in range(n // 4 + 1):
        bins.append(bytes(rng.randrange(256) for _ in range(rng.choice([1, 2, 3, 4, 5, 63, 64]))))
    return texts, jsons, bins


def safe_text(s):
    try:
        s.encode('utf-8')
        return True
    except UnicodeEncodeError:
        return False


def run(tier):
    from engineio import packet as P
    ck = Check('C01', tier)
    th = tier == 'thorough'
    # ---- TLC on the specification -------------------------------------------------------
    c = {'Deviations': '{}', 'MaxPackets': 3}
    r = tlc.run('MC_EioCodec', tlc.cfg_text(
        spec='PSpec', constants=c,
        invariants=['BinaryOnlyMessage', 'BinaryDecodesToMessage', 'IntAndPlainStayText',
                    'RoundTrip', 'AllOrNothing'],
        properties=['EncodeRight'], constraints=['CallBound']), constants=c, coverage=True)
    tlc.must_pass(r, 'EioCodec')
    ck.add_tlc(r, 'Packet object: all encode-call sequences (<= 4 calls) for every (type, kind); '
                  'decode / round-trip / payload tables')
    if r.violated:
        ck.violation('EioCodec: %s violated' % r.violated, {'tlc': r.out[-4000:]})
    cn = {'Deviations': '{"CacheIgnoresChannel"}', 'MaxPackets': 3}
    rn = tlc.run('EioCodec', tlc.cfg_text(spec='PSpec', constants=cn, properties=['EncodeRight'],
                                          constraints=['CallBound']))
    if rn.violated != 'EncodeRight':
        raise MachineryError('negative control (cache ignores channel) not detected')
    ck.cov['negative_controls'] = ['encode cache ignoring the channel (repaired defect F1): '
                                   'EncodeRight violated as expected']

    # ---- real Packet: constructor, encode sequences, decode -------------------------------
    rng = random.Random(ck.seed)
    texts, jsons, bins = payloads(rng, 400 if th else 80)
    traces = []
    cur = []

    def emit(rec):
        cur.append(rec)
        if len(cur) >= 400:
            traces.append(list(cur))
            cur.clear()

    seqs = [s for L in range(1, 4) for s in itertools.product(['bin', 'txt'], repeat=L)]
    seqs_bin = [s for L in range(1, 5 if th else 4) for s in itertools.product(['bin', 'txt'], repeat=L)]
    npk = 0
    for t in range(7):
        for data in [None] + texts + jsons + bins:
            k = R.kind_of(data)
            if k == 'text' and not safe_text(data):
                continue
            try:
                P.Packet(t, data)
                ok = True
            except ValueError:
                ok = False
            emit({'k': 'ctor', 'type': t, 'kind': k, 'ok': ok})
            if not ok:
                continue
            npk += 1
            use = seqs_bin if k == 'bytes' else (seqs if npk % 7 == 0 or t == 4 else seqs[:2])
            for sq in use:
                pkt = P.Packet(t, data)
                calls = []
                for ch in sq:
                    enc = pkt.encode(b64=(ch == 'txt'))
                    ref = R.ref_encode(t, data, ch == 'txt')
                    if isinstance(ref, bytes):
                        exact = isinstance(enc, (bytes, bytearray)) and bytes(enc) == ref
                    else:
                        exact = isinstance(enc, str) and enc == ref
                    calls.append({'c': ch, 'form': R.form_of(enc), 'exact': bool(exact)})
                emit({'k': 'enc', 'type': t, 'kind': k, 'calls': calls})
                ck.distinct(['enc', t, k, sq])
            for ch in ('bin', 'txt'):
                wire = R.ref_encode(t, data, ch == 'txt')
                emit(decode_record(P, wire))
            ck.distinct(['pkt', t, k, repr(data)[:60]])
    # ---- decode of adversarial strings: exhaustive up to a length bound -------------------
    L = 4 if th else 3
    nstr = 0
    for n in range(0, L + 1):
        for tup in itertools.product(ALPHA, repeat=n):
            s = ''.join(tup)
            emit(decode_record(P, s))
            nstr += 1
    for data in bins + [b'4abc', bytearray(b'\x04')]:
        emit(decode_record(P, data))
    deep = '4' + '[' * 100000
    emit(decode_record(P, deep))
    for s in texts:
        if safe_text(s):
            for d in '0123456789':
                emit(decode_record(P, d + s))
            emit(decode_record(P, 'b' + s))
    if cur:
        traces.append(list(cur))
    nrec = sum(len(t) for t in traces)
    v = tracecheck.validate('EioCodecTrace', traces, constants={'Deviations': '{}', 'MaxPackets': 16},
                            batch=400)
    ck.cov['states'] += v.states
    ck.cov['transitions'] += v.generated
    ck.add_conformance('constructor / encode-call sequences / decode observations of the real Packet, '
                       '%d records (%d exhaustive strings up to length %d over a 14-symbol alphabet)'
                       % (nrec, nstr, L), nrec, sum(len(traces[i]) for i in v.accepted))
    for i in v.rejected[:3]:
        bad = first_bad(traces[i])
        ck.violation('Packet observation contradicts EioCodec: %r' % (bad,), {'record': bad})
    ck.sample({'enc': next(r for t in traces for r in t if r['k'] == 'enc' and r['kind'] == 'bytes')})
    ck.sample({'dec': next(r for t in traces for r in t if r['k'] == 'dec' and r['first'] == 'd4')})
    ck.cov['rule'] = ('case = one observation of the real Packet class: a constructor call, a sequence '
                      'of encode() calls on one object (all sequences up to length 3-4 over both '
                      'channels), or one decode(); distinct by (type, payload kind, call sequence) and '
                      'by payload')
    ck.assume('byte-level equality is decided by the reference functions in vk/props/codec.py '
              '(stdlib json / base64); which form is due and what each input class decodes to is '
              'decided by EioCodec through TLC')
    ck.assume('integers of more than 100 digits anywhere in the text make it non-JSON (json.py '
              '"sane defaults"); JSON nested beyond the recursion limit is a decoding error')
    return ck.finish()


def decode_record(P, wire):
    first, rest, ref = R.classify(wire)
    rec = {'k': 'dec', 'first': first, 'rest': rest, 'err': False, 'type': 0, 'kind': 'none',
           'eq': False, 'wire': repr(wire)[:60]}
    try:
        pkt = P.Packet(encoded_packet=wire)
    except RecursionError:
        rec['err'] = True
        return rec
    except Exception:
        rec['err'] = True
        return rec
    rec['type'] = pkt.packet_type
    if ref != ('err',):
        rec['eq'] = bool(R.same_value(pkt.data, ref[2]) and
                         bool(pkt.binary) == (ref[1] == 'bytes'))
    if isinstance(pkt.data, (bytes, bytearray)):
        rec['kind'] = 'bytes'
    elif isinstance(pkt.data, str):
        # a str is "json" only when it is the value of a JSON string literal, i.e. it is
        # not the text after the type digit
        rec['kind'] = 'text' if (not isinstance(wire, str) or pkt.data == wire[1:]) and \
            not (rest == 'str' and rec['eq']) else 'json'
    else:
        rec['kind'] = 'json'
    return rec


def first_bad(trace):
    # re-evaluate the table in Python to point at the offending record
    from . import c01tab
    for r in trace:
        if not c01tab.ok(r):
            return r
    return trace[0]


def replay(path):
    import json
    print(open(path).read()[:2000])
    return 1
