"""C18 - threaded and asyncio servers are observationally equivalent."""
from . import core
from .. import tracecheck
from ..common import Check
from . import c03, c05, c06, c07, c14


def observations(lines, nslots, nops):
    """Per script-op observation (after the last trace line of that op)."""
    by_op = {}
    for ln in lines:
        by_op[ln['i']] = ln
    out = []
    last = None
    for k in range(nops):
        ln = by_op.get(k)
        if ln is None:
            out.append(None if last is None else dict(last, status=0, skipped=True))
            continue
        st = ln['st']
        status = 0
        if ln['ev'] not in ('tick',):
            for o in st['out']:
                if o.get('k') == 'resp' and o.get('rid') == ln.get('rid'):
                    status = o['status']
                    break
        obs = {'ev': st['ev'], 'deliv': st['deliv'],
               'alive': [(i + 1) in st['table'] and not s['closed'] for i, s in enumerate(st['ss'])],
               'ws': [bool(s['upged']) and not s['closed'] for s in st['ss']],
               'status': status}
        last = obs
        out.append(obs)
    return out


def pair(script, sy_lines, as_lines, nslots):
    n = len(script)
    a = observations(sy_lines, nslots, n)
    b = observations(as_lines, nslots, n)
    tr = []
    for k in range(n):
        if a[k] is None or b[k] is None:
            if (a[k] is None) != (b[k] is None):
                # an operation was executable on one implementation only: record as difference
                tr.append({'sy': a[k] or _empty(nslots), 'as': b[k] or _empty(nslots),
                           'tgt': script[k].get('s', 0) or 0})
            continue
        tr.append({'sy': {x: a[k][x] for x in ('ev', 'deliv', 'alive', 'ws', 'status')},
                   'as': {x: b[k][x] for x in ('ev', 'deliv', 'alive', 'ws', 'status')},
                   'tgt': script[k].get('s', 0) or 0})
    return tr


def _empty(n):
    return {'ev': [[] for _ in range(n)], 'deliv': [[] for _ in range(n)],
            'alive': [False] * n, 'ws': [False] * n, 'status': -1}


def run(tier):
    ck = Check('C18', tier)
    th = tier == 'thorough'
    seed = ck.seed
    n = 300 if th else 100
    fams = []
    cfgA = {'ping_interval': 8, 'ping_timeout': 4}
    w_all = {}
    w_upg = {'send': 10, 'poll': 6, 'upgrade': 4, 'wsframe': 12, 'wsdrop': 2, 'openws': 1}
    w_end = {'post': 10, 'disconnect': 0, 'tick': 10, 'poll': 5, 'wsframe': 10, 'wsdrop': 3,
             'upgrade': 3, 'openws': 2, 'openrej': 2, 'send': 4}
    fams.append(('union alphabet, 2 sessions', cfgA, 2, core.random_scripts(seed + 1, n, 30, 2, w_all)))
    fams.append(('upgrade / websocket heavy', cfgA, 2, core.random_scripts(seed + 2, n, 30, 2, w_upg)))
    fams.append(('end causes and clock, monitor on', dict(cfgA, monitor=True), 2,
                 core.random_scripts(seed + 3, n, 30, 2, w_end, tstep=(1, 8))))
    fams.append(('background handlers, 3 sessions, monitor', {'ping_interval': 12, 'ping_timeout': 6,
                                                             'monitor': True, 'async_handlers': True},
                 3, core.random_scripts(seed + 4, n, 36, 3, w_upg)))
    fams.append(('heartbeat timing scripts', {'ping_interval': 8, 'ping_timeout': 4, 'monitor': True},
                 2, c07.timing_scripts(seed, 8, 4, 40 if th else 16)))
    fams.append(('handshake frame sequences', cfgA, 1, c06.handshake_scripts(2)[::3 if th else 7]))
    fams.append(('simultaneous end causes', dict(cfgA, monitor=True), 1, c05.race_scripts()[::2 if th else 5]))
    fams.append(('bursts', cfgA, 1, core.burst_scripts(seed + 5, 24)))
    # the size limit must be the same quantity in both servers (bytes of the body): probes around
    # a 100-byte limit, ASCII, binary and multi-byte text
    fams.append(('size probes around a 100-byte limit', dict(cfgA, max_buf=100), 2,
                 c14.size_scripts(seed, 100)))
    pairs, meta = [], []
    plans = []
    # Silence is detected "within the heartbeat bound" only with client monitoring on, and
    # otherwise at the first send after the deadline: every script therefore ends with one send
    # to each session after the clock has run past the bound.
    for fi, (what, cfg, ns, scripts) in enumerate(fams):
        tailed = []
        for sc in scripts:
            last_t = max([o['t'] for o in sc if o['op'] == 'tick'] + [0])
            flush = cfg.get('ping_interval', 2) + 3 * cfg.get('ping_timeout', 1) + 2
            tailed.append(list(sc) + [{'op': 'tick', 't': last_t + flush}] +
                          [{'op': 'send', 's': k + 1} for k in range(ns)])
        fams[fi] = (what, cfg, ns, tailed)
    for what, cfg, ns, scripts in fams:
        for impl in ('sync', 'async'):
            plans.append(dict(what=what, impl=impl, cfg=cfg, nslots=ns, scripts=scripts))
    done = core.conform(ck, plans)
    for i in range(0, len(done), 2):
        (p1, t1, f1, v1), (p2, t2, f2, v2) = done[i], done[i + 1]
        for k, sc in enumerate(f1 and [f['script'] for f in f1]):
            pr = pair(sc, t1[k], t2[k], p1['nslots'])
            if pr:
                pairs.append(pr)
                meta.append({'what': p1['what'], 'cfg': f1[k]['cfg'], 'nslots': p1['nslots'],
                             'script': sc})
    # group by nslots (the module reads the slot count from the trace)
    v = tracecheck.validate('EioEquiv', pairs, constants={}, spec='TraceSpec')
    ck.cov['states'] += v.states
    ck.cov['transitions'] += v.generated
    ck.add_conformance('paired executions (same script on Server and AsyncServer) validated '
                       'against EioEquiv', len(pairs), len(v.accepted))
    for i in v.rejected[:4]:
        where = first_difference(pairs[i])
        ck.violation('threaded and asyncio server differ (%s): %s' % (meta[i]['what'], where),
                     {'cfg': meta[i]['cfg'], 'nslots': meta[i]['nslots'], 'script': meta[i]['script'],
                      'difference': where, 'kind': 'pair'})
    if pairs:
        ck.sample({'what': meta[0]['what'], 'script': meta[0]['script'][:10],
                   'paired_steps': pairs[0][:3]})
    for pr in pairs:
        ck.distinct(pr)
    ck.cov['rule'] = ('case = one environment script executed on both servers; both executions are '
                      'validated against EioServer, the step-wise pairing against EioEquiv; '
                      'distinct by paired observation sequence')
    ck.assume('responses of requests that were already pending (a long poll released by close) are '
              'not part of the compared observations: the statement lists events, delivered '
              'messages, admission decisions, liveness and transport')
    return ck.finish()


def first_difference(pr):
    quar = set()
    for k, e in enumerate(pr):
        for s in range(len(e['sy']['ev'])):
            if s + 1 in quar:
                continue
            for key in ('ev', 'deliv', 'alive', 'ws'):
                if e['sy'][key][s] != e['as'][key][s]:
                    ev_s, ev_a = e['sy']['ev'][s], e['as']['ev'][s]
                    sil = {'disc:pingto', 'disc:tclose', 'disc:terror'}
                    if (ev_s and ev_s[-1] in sil) or (ev_a and ev_a[-1] in sil):
                        quar.add(s + 1)
                        break
                    return 'step %d session %d %s: threaded %r / asyncio %r' % (
                        k, s + 1, key, e['sy'][key][s], e['as'][key][s])
        if e['sy']['status'] != e['as']['status'] and e['tgt'] not in quar:
            return 'step %d status: threaded %s / asyncio %s' % (k, e['sy']['status'],
                                                                 e['as']['status'])
    return 'a quarantined (silence-ended) session is still alive in one implementation at the end'


def replay(path):
    import json
    rp = json.load(open(path))
    if rp.get('kind') != 'pair':
        return core.replay_server_trace('C18', path)
    from ..harness import driver
    t = {}
    for impl in ('sync', 'async'):
        t[impl], _ = driver.run_script(impl, rp['cfg'], rp['script'], rp['nslots'])
    pr = pair(rp['script'], t['sync'], t['async'], rp['nslots'])
    v = tracecheck.validate('EioEquiv', [pr], constants={}, spec='TraceSpec')
    if v.accepted:
        print('replay: equivalent')
        return 0
    print('replay: %s' % first_difference(pr))
    print('VIOLATION property=C18 replay=%s' % path)
    return 1
