"""Deterministic cooperative scheduler on greenlets with a virtual clock.

Provides drop-in replacements for the primitives the threaded engineio server/client use:
Thread, Queue/Empty, Event, sleep, time.  One task runs at a time; a task runs until it
blocks in one of these primitives (L1, block-to-block) - or, with `preempt` set, the
scheduler may switch at every primitive call (L2).  Time only moves in advance()/
advance_to(), deadline by deadline.  Nothing here consults wall-clock time.
"""
import heapq
import itertools
import random

import greenlet

EPOCH = 1000000.0


class Empty(Exception):
    pass


class Task:
    _ids = itertools.count(1)

    def __init__(self, hub, fn, args=(), kwargs=None, name=None):
        self.hub = hub
        self.id = next(Task._ids)
        self.name = name or getattr(fn, '__qualname__', repr(fn))
        self.fn, self.args, self.kwargs = fn, args, kwargs or {}
        self.g = greenlet.greenlet(self._run, parent=hub.main)
        self.done = False
        self.exc = None
        self.result = None
        self.blocked_on = None       # ('queue', q) / ('sleep',) / ('join', t) / ('event', e) ...
        self.deadline = None
        self.joiners = []
        self.timer = None

    def _run(self, _first=None):
        try:
            self.result = self.fn(*self.args, **self.kwargs)
        except greenlet.GreenletExit:
            pass
        except BaseException as e:   # noqa
            self.exc = e
        self.done = True
        self.blocked_on = None
        if self.hub.primlog is not None and getattr(self, 'proc', None) is not None:
            self.hub.primlog.append({'t': self.proc, 'op': 'ret', 'item': None, 'q': None})
        for t in self.joiners:
            self.hub._make_ready(t, True)
        self.joiners = []

    def __repr__(self):
        return '<Task %d %s%s>' % (self.id, self.name, ' done' if self.done else '')


class Hub:
    def __init__(self, seed=0, preempt=False):
        self.main = greenlet.getcurrent()
        self.now = EPOCH
        self.ready = []              # list of (task, value)
        self.timers = []             # heap of (when, n, task, tag)
        self._n = itertools.count()
        self.current = None
        self.tasks = []
        self.preempt = preempt
        self.rng = random.Random(seed)
        self.switches = 0
        self.primlog = None          # list: one record per queue primitive / task return (L2)
        self.scripted = None         # scripted mode (spec -> code at L2): the watched queue; a
                                     # task stops right after every logged primitive on it

    # ---- task management -----------------------------------------------------------
    def spawn(self, fn, *args, name=None, **kwargs):
        t = Task(self, fn, args, kwargs, name=name)
        cp = getattr(self, 'child_proc', None)
        key = (getattr(self.current, 'proc', None), getattr(fn, '__name__', ''))
        if cp and key in cp:
            t.proc = cp.pop(key)      # L2: the thread of that name started by that task
        self.tasks.append(t)
        self.ready.append((t, None))
        return t

    def _make_ready(self, task, value=None):
        if task.timer is not None:
            task.timer[3] = None     # cancel
            task.timer = None
        task.blocked_on = None
        task.deadline = None
        self.ready.append((task, value))

    def _block(self, what, timeout=None):
        """Park the current task; returns the value it is woken with (TIMEOUT on timeout)."""
        if getattr(self, 'dying', False):
            raise greenlet.GreenletExit()
        t = self.current
        assert t is not None, 'blocking primitive called outside a hub task'
        t.blocked_on = what
        if timeout is not None:
            when = self.now + timeout
            t.deadline = when
            ent = [when, next(self._n), t, 'timeout']
            t.timer = ent
            heapq.heappush(self.timers, ent)
        return self.main.switch()

    def after_log(self, rec):
        """Scripted mode: the task that made a primitive on the watched queue / websocket stops
        here; the driver decides who runs next (spec -> code replay of a TLC schedule)."""
        if self.scripted is not None and self.current is not None and \
                getattr(self.current, 'proc', None) is not None and \
                (rec['q'] is self.scripted or rec['q'] in getattr(self, 'script_kinds', ('ws',))) and \
                rec['op'] not in getattr(self, 'script_skip', ('task_done',)):
            self.yield_now()

    def step(self, task):
        """Scripted mode: run one task until it stops again (next primitive, block, or end)."""
        for k, (t, v) in enumerate(self.ready):
            if t is task:
                self.ready.pop(k)
                break
        else:
            raise RuntimeError('task %s is not runnable' % task.name)
        if task.done:
            return
        self.current = task
        task.g.switch(v)
        self.current = None

    def yield_point(self, hold=False):
        """A schedule point that does not block (L2 only).  hold: with probability 1/4 the task
        is not only switched out but held back until every other task is blocked or finished -
        the schedule in which a thread is descheduled for long at exactly this point."""
        if self.scripted is not None:
            return
        if self.preempt and self.current is not None:
            r = self.rng.random()
            if hold and r < 0.25:
                t = self.current
                t.held = True
                self.ready.append((t, None))
                self.main.switch()
            elif r < 0.35 + (0.25 if hold else 0.0):
                t = self.current
                self.ready.append((t, None))
                self.main.switch()

    def yield_now(self):
        """Unconditional schedule point (for harness-side tasks that poll for a condition)."""
        t = self.current
        self.ready.append((t, None))
        self.main.switch()

    def run(self):
        """Run until no task is runnable (quiescence)."""
        while self.ready:
            if self.preempt and len(self.ready) > 1:
                free = [k for k, (t, _) in enumerate(self.ready) if not getattr(t, 'held', False)]
                if not free:
                    for t, _ in self.ready:
                        t.held = False          # everybody else is blocked: release
                    free = list(range(len(self.ready)))
                i = free[self.rng.randrange(len(free))]
                task, val = self.ready.pop(i)
            else:
                task, val = self.ready.pop(0)
                task.held = False
            if task.done:
                continue
            self.current = task
            self.switches += 1
            task.g.switch(val)
            self.current = None

    # ---- time ----------------------------------------------------------------------
    def next_deadline(self):
        while self.timers and self.timers[0][3] is None:
            heapq.heappop(self.timers)
        return self.timers[0][0] if self.timers else None

    def fire_due(self):
        fired = 0
        while self.timers and (self.timers[0][3] is None or self.timers[0][0] <= self.now):
            when, _, task, tag = heapq.heappop(self.timers)
            if tag is None:
                continue
            task.timer = None
            task.blocked_on_was = task.blocked_on
            self._timeout_cleanup(task)
            task.blocked_on = None
            task.deadline = None
            self.ready.append((task, TIMEOUT))
            fired += 1
        return fired

    def _timeout_cleanup(self, task):
        b = task.blocked_on
        if b and b[0] in ('queue', 'event', 'wsq'):
            obj = b[1]
            try:
                obj.waiters.remove(task)
            except ValueError:
                pass
        elif b and b[0] == 'join':
            try:
                b[1].joiners.remove(task)
            except ValueError:
                pass
        elif b and b[0] == 'qjoin':
            try:
                b[1].join_waiters.remove(task)
            except ValueError:
                pass

    def kill_all(self):
        self.dying = True
        for t in self.tasks:
            if not t.done and t.g:
                try:
                    t.g.throw(greenlet.GreenletExit)
                except BaseException:  # noqa
                    pass
        self.tasks = []
        self.ready = []
        self.timers = []

    def blocked_tasks(self):
        return [t for t in self.tasks if not t.done and t.blocked_on is not None]


TIMEOUT = object()

_hub = None


def set_hub(h):
    global _hub
    _hub = h


def hub():
    return _hub


# ---- primitives (API-compatible with threading / queue / time) ---------------------------

class Thread:
    def __init__(self, group=None, target=None, name=None, args=(), kwargs=None, daemon=None):
        self._target, self._args, self._kwargs = target, args, kwargs or {}
        self.name = name
        self.daemon = daemon
        self.task = None

    def start(self):
        self.task = _hub.spawn(self._target, *self._args, name=self.name or getattr(
            self._target, '__qualname__', None), **self._kwargs)
        if not getattr(_hub, 'no_start_yield', False):
            _hub.yield_point()

    def join(self, timeout=None):
        t = self.task
        lg = _hub.primlog
        if lg is not None and getattr(_hub, 'log_joins', False) and \
                getattr(_hub.current, 'proc', None) is not None:
            # L2 (polling client): the call of Thread.join() is a primitive of its own
            rec = {'t': _hub.current.proc, 'op': 'tjoin_enter', 'item': '', 'q': 'thr'}
            lg.append(rec)
            _hub.after_log(rec)
            _hub.yield_point()
        if t is None or t.done:
            return
        t.joiners.append(_hub.current)
        _hub._block(('join', t), timeout)

    def is_alive(self):
        return self.task is not None and not self.task.done


class Queue:
    def __init__(self, maxsize=0):
        self.items = []
        self.waiters = []
        self.unfinished_tasks = 0
        self.join_waiters = []

    def qsize(self):
        return len(self.items)

    def empty(self):
        return not self.items

    def _log(self, op, item=None):
        lg = _hub.primlog
        if lg is not None:
            rec = {'t': getattr(_hub.current, 'proc', None), 'op': op, 'item': item, 'q': self}
            lg.append(rec)
            _hub.after_log(rec)

    def put(self, item, block=True, timeout=None):
        # the call of put() is a switch point of its own (CPython switches threads at calls):
        # what the caller wrote to shared flags just before is visible before the item is
        self._log('put_enter', item)
        _hub.yield_point(hold=True)
        self.items.append(item)
        self.unfinished_tasks += 1
        if self.waiters:
            w = self.waiters.pop(0)
            _hub._make_ready(w, None)
        self._log('put', item)
        # ... and so is the return of put(): a thread descheduled right after its put took
        # effect may stay so while the consumer and everything it triggers runs
        _hub.yield_point(hold=True)

    def put_quiet(self, item):
        """Harness-internal put: no log record, no schedule point (used for wake-ups that belong
        to another primitive, e.g. a websocket being closed)."""
        self.items.append(item)
        self.unfinished_tasks += 1
        if self.waiters:
            w = self.waiters.pop(0)
            _hub._make_ready(w, None)

    def put_nowait(self, item):
        self.put(item)

    def get(self, block=True, timeout=None):
        if block:
            self._log('get_enter')
        _hub.yield_point()
        deadline = None if timeout is None else _hub.now + timeout
        while True:
            if self.items:
                x = self.items.pop(0)
                self._log('get', x)
                return x
            if not block:
                raise Empty()
            if deadline is not None and _hub.now >= deadline and timeout > 0:
                raise Empty()
            self.waiters.append(_hub.current)
            v = _hub._block(('queue', self),
                            None if deadline is None else max(0.0, deadline - _hub.now))
            if v is TIMEOUT:
                if self.items:
                    x = self.items.pop(0)
                    self._log('get', x)
                    return x
                raise Empty()
            # woken by a put; if another task took the item first, wait again

    def get_nowait(self):
        return self.get(block=False)

    def task_done(self):
        if self.unfinished_tasks <= 0:
            raise ValueError('task_done() called too many times')
        self.unfinished_tasks -= 1
        self._log('task_done')
        if self.unfinished_tasks == 0:
            ws, self.join_waiters = self.join_waiters, []
            for w in ws:
                _hub._make_ready(w, None)
        _hub.yield_point()

    def join(self):
        _hub.yield_point()
        while self.unfinished_tasks:
            self.join_waiters.append(_hub.current)
            _hub._block(('qjoin', self))
        self._log('join_ret')


class Event:
    def __init__(self):
        self.flag = False
        self.waiters = []

    def is_set(self):
        return self.flag

    def set(self):
        self.flag = True
        ws, self.waiters = self.waiters, []
        for w in ws:
            _hub._make_ready(w, True)

    def clear(self):
        self.flag = False

    def wait(self, timeout=None):
        if self.flag:
            return True
        self.waiters.append(_hub.current)
        v = _hub._block(('event', self), timeout)
        if v is TIMEOUT:
            return self.flag
        return True


def sleep(seconds=0):
    _hub._block(('sleep',), max(0.0, seconds))


class TimeShim:
    """Stands in for the `time` module inside engineio modules."""
    @staticmethod
    def time():
        # time.time() is a call, hence a point where CPython may switch threads.  Only drivers
        # that ask for it (hub.time_yield = length of a tick) get a switch point here: an ordinary
        # hold-back point, and - only where the driver allows it (task.long_ok, set while the
        # thread is inside a section whose delay postpones no protocol step, e.g. the heartbeat
        # checker) - with a small probability a long pre-emption of 1-3 ticks of virtual time.  The pre-emption
        # happens at the call boundary, before the clock is read: the value returned is the
        # time at which the thread got the processor back.
        h = _hub
        ty = getattr(h, 'time_yield', None)
        if ty and h.preempt and h.scripted is None and h.current is not None:
            if getattr(h.current, 'long_ok', 0) and h.rng.random() < 0.15:
                h._block(('preempted',), timeout=h.rng.choice((1, 2, 3)) * ty)
            else:
                h.yield_point(hold=True)
        return h.now

    @staticmethod
    def sleep(s=0):
        return sleep(s)

    @staticmethod
    def monotonic():
        return _hub.now
