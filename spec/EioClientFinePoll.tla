-------------------------- MODULE EioClientFinePoll --------------------------
(***************************************************************************)
(* L2 for the threaded client on the polling transport: the application    *)
(* thread (a burst of send() calls, then disconnect()), the write loop     *)
(* (queue -> POST) and the read loop (GET -> packets) of                   *)
(* engineio/client.py, at the grain of one primitive per step.  A          *)
(* primitive is an operation of the send queue (call of put, put, call of  *)
(* get, get), of the HTTP layer (a request leaving, a request returning)   *)
(* or of a thread (call of join).  The server is an environment that       *)
(* answers every request in flight, when it likes, with what it likes:     *)
(* a payload of up to two packets out of NOOP / MSG / PING / CLOSE, an     *)
(* error status, or a connection failure; once it has read or sent a CLOSE *)
(* the session is gone and it answers with the error status only.          *)
(*                                                                         *)
(* Same anchors as EioClientFine (client.py: _send_packet, disconnect,     *)
(* _write_loop) plus _read_loop_polling and _receive_packet.               *)
(* OneDisconnect FAILS here too: finding F27 does not depend on the        *)
(* transport.                                                              *)
(***************************************************************************)
EXTENDS Naturals, Sequences, FiniteSets, TLC

CONSTANTS MaxSend,       \* send() calls of the application before its disconnect()
          Cap,           \* packets the write loop takes per turn (16 in the code)
          MaxPolls,      \* GET requests the server answers with a payload
          Payloads,      \* the payloads it may choose from (sequences of packet names)
          AllowFail,     \* BOOLEAN: requests may fail / get an error status while the session lives
          Timeouts,      \* BOOLEAN: the write loop's queue.get() may time out when nothing comes
          Deviation      \* "none" | "NoStateCheckPerPacket" (the defect F24 repaired)

NIL == "NIL"
Procs == {"app", "wr", "rd"}
\* candidate values of Payloads (a configuration substitutes one of them)
Kinds == {"NOOP", "MSG", "PING", "CLOSE"}
PayloadsAll == {<<a>> : a \in Kinds} \cup {<<a, b>> : a \in Kinds, b \in Kinds}
PayloadsSmall == {<<"NOOP">>, <<"MSG">>, <<"PING", "MSG">>, <<"CLOSE">>, <<"CLOSE", "MSG">>,
                  <<"MSG", "CLOSE">>, <<"PING", "CLOSE">>}

VARIABLES
    st,        \* client.state: "connected" | "disconnecting" | "disconnected"
    q,         \* the send queue (items)
    ev,        \* disconnect events fired (reasons)
    rx,        \* message events fired
    late,      \* a message event fired after a disconnect event
    wlt,       \* client.write_loop_task is set (the write loop clears it when a POST fails)
    pc, it, nx,\* per task: program counter, item about to be put / just taken, continuation
    pk,        \* packets the write loop holds
    pend,      \* packets of the current GET response the read loop has not looked at yet
    nsent,     \* send() calls made by the application
    gst, gres, \* the read loop's GET: "idle" | "flight" | "ans", and the answer
    pst, pres, pbody,   \* the write loop's POST: same, the answer, the body
    posted,    \* packets the server accepted, in order
    sgone,     \* the session is gone at the server
    polls      \* payload answers given so far
vars == <<st, q, ev, rx, late, wlt, pc, it, nx, pk, pend, nsent, gst, gres, pst, pres, pbody,
          posted, sgone, polls>>
cvars == <<gst, gres, pst, pres, pbody, posted, sgone, polls>>      \* the HTTP / server side

Msg(n) == "m" \o ToString(n)

Init ==
    /\ st = "connected" /\ q = <<>> /\ ev = <<>> /\ rx = 0 /\ late = FALSE /\ wlt = TRUE
    /\ pc = [p \in Procs |-> CASE p = "app" -> "send" [] p = "wr" -> "w_wait" [] OTHER -> "r_get"]
    /\ it = [p \in Procs |-> NIL] /\ nx = [p \in Procs |-> "done"] /\ pk = <<>> /\ pend = <<>>
    /\ nsent = 0
    /\ gst = "flight" /\ gres = <<>> /\ pst = "idle" /\ pres = "none" /\ pbody = <<>>
    /\ posted = <<>> /\ sgone = FALSE /\ polls = 0
\* (the initial state is the one the harness starts recording in: connect() has returned, the
\*  write loop waits in queue.get(), the read loop's first GET is in flight)

Goto(p, l) == pc' = [pc EXCEPT ![p] = l]
PrePut(p, item, lnext) ==
    /\ it' = [it EXCEPT ![p] = item] /\ nx' = [nx EXCEPT ![p] = lnext] /\ Goto(p, "put")
DoPut(p) ==
    /\ pc[p] = "put"
    /\ q' = Append(q, it[p])
    /\ Goto(p, nx[p])
    /\ UNCHANGED <<st, ev, rx, late, wlt, it, nx, pk, pend, nsent, cvars>>

(* Every step ends with exactly one logged primitive (named in its comment); the one marked
   SILENT reads shared state but touches no primitive. *)

(* ---- application thread: send() x MaxSend, then disconnect() ---- *)
\* _send_packet(): only while connected.  [put_enter]; not connected: SILENT
AppSend ==
    /\ pc["app"] = "send" /\ nsent < MaxSend
    /\ nsent' = nsent + 1
    /\ IF st = "connected" THEN PrePut("app", Msg(nsent + 1), "send")
       ELSE UNCHANGED <<pc, it, nx>>
    /\ UNCHANGED <<st, q, ev, rx, late, wlt, pk, pend, cvars>>
\* disconnect(): `if self.state == 'connected'` ... `_send_packet(CLOSE)`.  [put_enter];
\* not connected: _reset() and return [ret]
AppDisc ==
    /\ pc["app"] = "send" /\ nsent = MaxSend
    /\ IF st = "connected"
       THEN PrePut("app", "CLOSE", "d_nil") /\ UNCHANGED st
       ELSE st' = "disconnected" /\ Goto("app", "done") /\ UNCHANGED <<it, nx>>
    /\ UNCHANGED <<q, ev, rx, late, wlt, pk, pend, nsent, cvars>>
\* the call of put(None)  [put_enter]
DiscNil(p) ==
    /\ pc[p] = "d_nil"
    /\ PrePut(p, NIL, "d_state")
    /\ UNCHANGED <<st, q, ev, rx, late, wlt, pk, pend, nsent, cvars>>
\* the application: state = 'disconnecting', the disconnect event (nothing to close on polling),
\* the call of read_loop_task.join()  [tjoin_enter]
AppDiscState ==
    /\ pc["app"] = "d_state"
    /\ st' = "disconnecting" /\ ev' = Append(ev, "client")
    /\ Goto("app", "d_join")
    /\ UNCHANGED <<q, rx, late, wlt, it, nx, pk, pend, nsent, cvars>>
\* the join returned: state = 'disconnected', _reset()  [ret]
AppDiscEnd ==
    /\ pc["app"] = "d_join" /\ pc["rd"] = "done"
    /\ st' = "disconnected"
    /\ Goto("app", "done")
    /\ UNCHANGED <<q, ev, rx, late, wlt, it, nx, pk, pend, nsent, cvars>>

(* ---- write loop ---- *)
\* `while self.state == 'connected' or not self.queue.empty()`: the call of get() [get_enter];
\* else the loop and the task end [ret]
WLoop(s) == IF s = "connected" \/ q # <<>> THEN Goto("wr", "w_wait") ELSE Goto("wr", "done")
\* the blocking get returns  [get]: the sentinel ends the loop, anything else starts a batch
WGet ==
    /\ pc["wr"] = "w_wait" /\ q # <<>>
    /\ it' = [it EXCEPT !["wr"] = Head(q)] /\ q' = Tail(q)
    /\ IF Head(q) = NIL THEN Goto("wr", "w_exit") /\ UNCHANGED pk
       ELSE pk' = <<Head(q)>> /\ Goto("wr", "w_more")
    /\ UNCHANGED <<st, ev, rx, late, wlt, nx, pend, nsent, cvars>>
WExit ==                                                                        \* [ret]
    /\ pc["wr"] = "w_exit"
    /\ Goto("wr", "done")
    /\ UNCHANGED <<st, q, ev, rx, late, wlt, it, nx, pk, pend, nsent, cvars>>
\* nothing came for max(ping_interval, ping_timeout) + 5 s: the loop ends  [ret]
WTimeout ==
    /\ Timeouts /\ pc["wr"] = "w_wait" /\ q = <<>>
    /\ Goto("wr", "done")
    /\ UNCHANGED <<st, q, ev, rx, late, wlt, it, nx, pk, pend, nsent, cvars>>
\* queue.get(block=False) while the batch is not full  [get]; a sentinel is dropped and ends
\* the filling
WMore ==
    /\ pc["wr"] = "w_more" /\ Len(pk) < Cap /\ q # <<>>
    /\ it' = [it EXCEPT !["wr"] = Head(q)] /\ q' = Tail(q)
    /\ IF Head(q) = NIL THEN Goto("wr", "w_post") /\ UNCHANGED pk
       ELSE pk' = Append(pk, Head(q)) /\ UNCHANGED pc
    /\ UNCHANGED <<st, ev, rx, late, wlt, nx, pend, nsent, cvars>>
\* the batch is complete (full, Empty raised, or sentinel met): the POST leaves  [http_enter]
WPost ==
    /\ \/ pc["wr"] = "w_post"
       \/ pc["wr"] = "w_more" /\ (Len(pk) >= Cap \/ q = <<>>)
    /\ pst = "idle"
    /\ pst' = "flight" /\ pbody' = pk
    /\ Goto("wr", "w_resp")
    /\ UNCHANGED <<st, q, ev, rx, late, wlt, it, nx, pk, pend, nsent, gst, gres, pres, posted,
                   sgone, polls>>
\* the POST returns  [http_ret]
WPostRet ==
    /\ pc["wr"] = "w_resp" /\ pst = "ans"
    /\ pst' = "idle"
    /\ Goto("wr", "w_after")
    /\ UNCHANGED <<st, q, ev, rx, late, wlt, it, nx, pk, pend, nsent, gst, gres, pres, pbody,
                   posted, sgone, polls>>
\* task_done() per packet; a failed or refused POST clears write_loop_task and ends the task
\* [ret]; otherwise back to the loop condition  [get_enter] / [ret]
WAfter ==
    /\ pc["wr"] = "w_after"
    /\ pk' = <<>>
    /\ IF pres = "ok" THEN WLoop(st) /\ UNCHANGED wlt
       ELSE wlt' = FALSE /\ Goto("wr", "done")
    /\ UNCHANGED <<st, q, ev, rx, late, it, nx, pend, nsent, cvars>>

(* ---- read loop ---- *)
\* what the rest of the read loop does from a point where state = s and the events are e, up
\* to its next primitive.  Epilogue: `if self.write_loop_task: join()` [tjoin_enter]; without it
\* straight to the end: still 'connected' -> disconnect event "transport error", _reset() [ret]
RdFinal(s, e) ==
    /\ Goto("rd", "done")
    /\ IF s = "connected" THEN st' = "disconnected" /\ ev' = Append(e, "terror")
       ELSE st' = s /\ ev' = e
RdEpilogue(s, e) ==
    IF wlt THEN st' = s /\ ev' = e /\ Goto("rd", "r_join")
    ELSE RdFinal(s, e)
\* `while self.state == 'connected' and self.write_loop_task`: the GET leaves [http_enter]
RdLoop(s, e) ==
    IF s = "connected" /\ wlt
    THEN st' = s /\ ev' = e /\ gst' = "flight" /\ Goto("rd", "r_get")
    ELSE RdEpilogue(s, e) /\ UNCHANGED gst

\* the GET returns  [http_ret]
RGetRet ==
    /\ pc["rd"] = "r_get" /\ gst = "ans"
    /\ gst' = "idle"
    /\ IF gres \in {<<"FAIL">>, <<"BAD">>} THEN Goto("rd", "r_nil") /\ pend' = <<>>
       ELSE Goto("rd", "r_proc") /\ pend' = gres
    /\ UNCHANGED <<st, q, ev, rx, late, wlt, it, nx, pk, nsent, gres, pst, pres, pbody, posted,
                   sgone, polls>>
\* request failed / error status / undecodable: the call of put(None) [put_enter], out of the loop
RNil ==
    /\ pc["rd"] = "r_nil"
    /\ PrePut("rd", NIL, "r_end")
    /\ UNCHANGED <<st, q, ev, rx, late, wlt, pk, pend, nsent, cvars>>
REnd ==
    /\ pc["rd"] = "r_end"
    /\ RdEpilogue(st, ev)
    /\ UNCHANGED <<q, rx, late, wlt, it, nx, pk, pend, nsent, cvars>>
\* write_loop_task.join() returned  [ret]
RJoinRet ==
    /\ pc["rd"] = "r_join" /\ pc["wr"] = "done"
    /\ RdFinal(st, ev)
    /\ UNCHANGED <<q, rx, late, wlt, it, nx, pk, pend, nsent, cvars>>

\* packets without a primitive (NOOP, MSG -> message event) up to the first PING / CLOSE
RECURSIVE Walk(_)
Walk(s) == IF s = <<>> THEN [k |-> "end", n |-> 0, rest |-> <<>>]
           ELSE IF Head(s) = "NOOP" THEN Walk(Tail(s))
           ELSE IF Head(s) = "MSG" THEN LET w == Walk(Tail(s)) IN [w EXCEPT !.n = @ + 1]
           ELSE [k |-> IF Head(s) = "PING" THEN "ping" ELSE "close", n |-> 0, rest |-> Tail(s)]
\* `for pkt in p.packets: if self.state != 'connected': break; self._receive_packet(pkt)`
\* PING -> _send_packet(PONG): the call of put [put_enter]; CLOSE -> disconnect(abort=True):
\* the call of put(CLOSE) [put_enter]; end of the payload -> loop condition
RProc ==
    /\ pc["rd"] = "r_proc"
    /\ IF st # "connected" /\ Deviation # "NoStateCheckPerPacket"
       THEN /\ RdLoop(st, ev) /\ pend' = <<>>
            /\ UNCHANGED <<rx, late, it, nx>>
       ELSE LET w == Walk(pend) IN
            /\ rx' = rx + w.n
            /\ late' = (late \/ (w.n > 0 /\ ev # <<>>))
            /\ pend' = w.rest
            /\ CASE w.k = "ping" ->
                      \* (_send_packet drops the PONG when not connected - only reachable with
                      \*  the deviation)
                      IF st = "connected"
                      THEN PrePut("rd", "PONG", "r_proc") /\ UNCHANGED <<st, ev, gst>>
                      ELSE UNCHANGED <<pc, it, nx, st, ev, gst>>
                 [] w.k = "close" ->
                      IF st = "connected"
                      THEN PrePut("rd", "CLOSE", "d_nil") /\ UNCHANGED <<st, ev, gst>>
                      ELSE st' = "disconnected" /\ UNCHANGED <<pc, it, nx, ev, gst>>
                 [] OTHER -> RdLoop(st, ev) /\ UNCHANGED <<it, nx>>
    /\ UNCHANGED <<q, wlt, pk, nsent, gres, pst, pres, pbody, posted, sgone, polls>>
\* the read loop inside disconnect(abort=True): state = 'disconnecting', the event, state =
\* 'disconnected', _reset(); back in the loops both conditions fail: epilogue
RdDiscState ==
    /\ pc["rd"] = "d_state"
    /\ RdEpilogue("disconnected", Append(ev, "server"))
    /\ pend' = <<>>
    /\ UNCHANGED <<q, rx, late, wlt, it, nx, pk, nsent, cvars>>

(* ---- the server ---- *)
Has(s, x) == \E i \in 1..Len(s) : s[i] = x
SrvAnswerGet ==
    /\ gst = "flight"
    /\ \/ /\ ~sgone /\ polls < MaxPolls
          /\ \E p \in Payloads :
                /\ gres' = p /\ polls' = polls + 1
                /\ sgone' = Has(p, "CLOSE")
       \/ /\ sgone \/ AllowFail
          /\ gres' \in {<<"BAD">>, <<"FAIL">>} /\ UNCHANGED <<polls, sgone>>
    /\ gst' = "ans"
    /\ UNCHANGED <<st, q, ev, rx, late, wlt, pc, it, nx, pk, pend, nsent, pst, pres, pbody, posted>>
SrvAnswerPost ==
    /\ pst = "flight"
    /\ \/ /\ ~sgone
          /\ pres' = "ok" /\ posted' = posted \o pbody
          /\ sgone' = Has(pbody, "CLOSE")
       \/ /\ sgone \/ AllowFail
          /\ pres' \in {"bad", "fail"} /\ UNCHANGED <<posted, sgone>>
    /\ pst' = "ans"
    /\ UNCHANGED <<st, q, ev, rx, late, wlt, pc, it, nx, pk, pend, nsent, gst, gres, pbody, polls>>

AppStep == DoPut("app") \/ AppSend \/ AppDisc \/ DiscNil("app") \/ AppDiscState \/ AppDiscEnd
WrStep == WGet \/ WExit \/ WTimeout \/ WMore \/ WPost \/ WPostRet \/ WAfter
RdStep == DoPut("rd") \/ RGetRet \/ RNil \/ REnd \/ RJoinRet \/ RProc \/ DiscNil("rd") \/ RdDiscState
SrvStep == SrvAnswerGet \/ SrvAnswerPost
Next == AppStep \/ WrStep \/ RdStep \/ SrvStep
Spec == Init /\ [][Next]_vars
FairSpec == Spec /\ WF_vars(AppStep) /\ WF_vars(WrStep) /\ WF_vars(RdStep) /\ WF_vars(SrvStep)

Labels == {"send", "put", "d_nil", "d_state", "d_join", "done", "w_wait", "w_exit", "w_more",
           "w_post", "w_resp", "w_after", "r_get", "r_proc", "r_nil", "r_end", "r_join"}
TypeOK == /\ st \in {"connected", "disconnecting", "disconnected"}
          /\ \A p \in Procs : pc[p] \in Labels
          /\ gst \in {"idle", "flight", "ans"} /\ pst \in {"idle", "flight", "ans"}
          /\ (gst = "flight" \/ gst = "ans") => pc["rd"] = "r_get"
          /\ (pst = "flight" \/ pst = "ans") => pc["wr"] = "w_resp"
\* C08: one connection, one disconnect event.  FAILS: finding F27
OneDisconnect == Len(ev) <= 1
\* what does hold: never more than two, and a second one only next to the application's own
AtMostOnePerCause ==
    /\ Len(ev) <= 2
    /\ \A i, j \in 1..Len(ev) : ev[i] = ev[j] => i = j
    /\ Len(ev) = 2 => Has(ev, "client")
\* C08: no message event after the disconnect event
NoLateMessage == ~late
\* C09: messages reach the server in the order they were sent, each at most once; a PONG per PING
PostedMsgs == SelectSeq(posted, LAMBDA f : f \notin {"CLOSE", "PONG"})
TxInOrder == \A i \in 1..Len(PostedMsgs) : PostedMsgs[i] = Msg(i)
\* the write loop is over whenever write_loop_task has been cleared (what the read loop's
\* epilogue relies on when it skips the join)
ClearedMeansOver == ~wlt => pc["wr"] = "done"
\* everything ends: the three tasks finish and the client is disconnected
Done == pc["app"] = "done" /\ pc["wr"] = "done" /\ pc["rd"] = "done"
AllEnd == <>[](Done /\ st = "disconnected")
\* C08: every connection ends with a disconnect event
EndsWithEvent == Done => Len(ev) >= 1
\* C10: with a server that answers properly, the application's disconnect() reaches it
CloseReaches == <>[](Has(ev, "client") => sgone)
=============================================================================
