----------------------------- MODULE EioSidNeg -----------------------------
(* Negative control for EioSid: a counter that wraps after P < M issues.   *)
EXTENDS EioSid
CONSTANT P
NegNext == \E r \in Rnd : ShortIssue(r, P)
NegSpec == seq = 0 /\ win = <<>> /\ [][NegNext]_vars
=============================================================================
