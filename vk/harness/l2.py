"""L2 executions: one polling session of the real threaded server, several requests / API calls
in flight at once, run by the hub under a pre-emptive seeded schedule, with one log record per
queue primitive that took effect (hub.primlog).  The log is validated, primitive by primitive,
against spec/EioQueueFine.tla (EioQueueFineTrace)."""
import random

from . import hub as hubmod
from . import world as W

KINDS = ('poll', 'send', 'disc', 'postclose')


def gen_script(rng, ngroups=None):
    """A script is a list of groups; the operations of a group are started together."""
    out = []
    n = 0
    for _ in range(ngroups or rng.randint(3, 6)):
        g = []
        for _ in range(rng.choice([1, 2, 2, 3, 3, 4])):
            if n >= 12:
                break
            g.append(rng.choice(['poll', 'poll', 'send', 'send', 'send', 'disc', 'postclose']))
            n += 1
        if g:
            out.append(g)
    return out


def run(script, seed):
    w = W.make_world('sync', {'ping_interval': 4000, 'ping_timeout': 2000, 'monitor': False},
                     seed=seed, preempt=True)
    facts = {'script': script, 'schedule_seed': seed}
    try:
        w.connect_plan = [('accept', False)]
        w.http('GET', 'transport=polling&EIO=4')
        w.quiesce()
        sid, so = w.sids[1], w.socks[1]
        q = 'transport=polling&EIO=4&sid=' + sid
        hub = w.hub
        hub.primlog = []
        p = 0
        for group in script:
            for k in group:
                p += 1
                if k == 'poll':
                    task = w.reqs[w.http('GET', q, slot=1)].task
                elif k == 'postclose':
                    task = w.reqs[w.http('POST', q, body=b'1', slot=1)].task
                elif k == 'send':
                    task = w.reqs[w.app_send(1)]['task']
                elif k == 'disc':
                    w.nreq += 1
                    task = w.reqs[w.app_disconnect_with_id(1, w.nreq)]['task']
                else:
                    raise ValueError(k)
                task.proc = p
                hub.primlog.append({'t': p, 'op': 'start', 'item': k, 'q': so.queue})
            w.quiesce()
        log = []
        for e in hub.primlog:
            if e['op'] == 'ret':
                log.append({'t': e['t'], 'op': 'ret', 'item': ''})
                continue
            if e['q'] is not so.queue:
                continue
            if e['t'] is None:
                raise RuntimeError('queue primitive by a task outside the script: %r' % e['op'])
            it = e['item']
            if e['op'] in ('put', 'get', 'put_enter'):
                it = 'NIL' if it is None else w._pkt_token(1, it)
            log.append({'t': e['t'], 'op': e['op'], 'item': it if it is not None else ''})
        hub.primlog = None
        snap = w.snapshot(1)
        final = {'q': snap['ss'][0]['q'], 'unf': snap['ss'][0]['unf'],
                 'closed': snap['ss'][0]['closed'], 'closing': snap['ss'][0]['closing'],
                 'intable': sid in w.server.sockets,
                 'ev': [e[5:] for e in snap['ev'][0] if e.startswith('disc:')],
                 'deliv': [d[0] for d in snap['deliv'][0]], 'sent': len(w.accepted.get(1, []))}
        facts['nproc'] = p
        return {'log': log, 'final': final}, facts
    finally:
        w.close()


# contention families: the same few tasks racing, under many schedules
FAMILIES = [
    [['poll', 'poll'], ['send', 'send', 'send']],          # two consumers, one burst
    [['poll', 'poll', 'send', 'send']],
    [['send', 'send'], ['poll', 'poll', 'send']],
    [['poll'], ['send', 'disc']],                          # close racing a send and a poll
    [['poll', 'disc', 'send']],
    [['poll', 'postclose', 'send']],
    [['send', 'send', 'poll', 'poll', 'disc']],
    [['poll', 'disc', 'postclose']],                       # two end causes and a consumer
    [['disc', 'disc', 'poll']],
]


def scripts(seed, n):
    """n random scripts plus every contention family (the two-consumer ones three times): each
    is run under its own schedule seed, so a family is explored under n/3 .. n schedules over
    a few runs."""
    rng = random.Random(seed)
    out = [gen_script(rng) for _ in range(n)]
    reps = max(1, n // 12)
    for i, fam in enumerate(FAMILIES):
        out += [fam] * (reps * (3 if i < 3 else 1))
    return out


# ---- websocket session (EioQueueFineWs) -------------------------------------------------------

def gen_ws_script(rng):
    out = []
    n = 2
    ended = False
    for _ in range(rng.randint(2, 5)):
        g = []
        for _ in range(rng.choice([1, 2, 2, 3])):
            if n >= 12:
                break
            k = rng.choice(['send', 'send', 'send', 'disc', 'wsclose', 'wsgone'])
            if k in ('wsclose', 'wsgone'):
                if ended:
                    continue
                ended = True
                g.append(k)
            else:
                g.append(k)
                n += 1
        if g:
            out.append(g)
    return out


def _ws_active(w):
    c = w.wss.get(1)
    return c is not None and c.accepted and not c.ended and not c.peer_gone and \
        not c.server_closed


def run_ws(script, seed):
    """One websocket-only session; reader = Proc 1 (the request task), writer = Proc 2 (the
    thread it starts).  The log starts once the session is up (OPEN sent, writer waiting)."""
    w = W.make_world('sync', {'ping_interval': 4000, 'ping_timeout': 2000, 'monitor': False},
                     seed=seed, preempt=True)
    facts = {'script': script, 'schedule_seed': seed}
    try:
        hub = w.hub
        hub.child_proc = {(1, 'writer'): 2}
        w.connect_plan = [('accept', False)]
        rid = w.ws_request('transport=websocket&EIO=4')
        w.reqs[rid].task.proc = 1
        w.quiesce()
        sid, so = w.sids[1], w.socks[1]
        conn_inq = w.reqs[rid].conn.inq
        hub.primlog = []
        p = 2
        for group in script:
            for k in group:
                if k in ('wsclose', 'wsgone') and not _ws_active(w):
                    continue          # the socket is closed already: nothing can be sent on it
                if k == 'wsclose':
                    hub.primlog.append({'t': 0, 'op': 'env', 'item': 'close', 'q': so.queue})
                    w.ws_frame(1, '1')
                    continue
                if k == 'wsgone':
                    hub.primlog.append({'t': 0, 'op': 'env', 'item': 'gone', 'q': so.queue})
                    w.ws_drop(1)
                    continue
                p += 1
                if k == 'send':
                    task = w.reqs[w.app_send(1)]['task']
                elif k == 'disc':
                    w.nreq += 1
                    task = w.reqs[w.app_disconnect_with_id(1, w.nreq)]['task']
                else:
                    raise ValueError(k)
                task.proc = p
                hub.primlog.append({'t': p, 'op': 'start', 'item': k, 'q': so.queue})
            w.quiesce()
        log = []
        for e in hub.primlog:
            if e['op'] == 'ret':
                log.append({'t': e['t'], 'op': 'ret', 'item': ''})
                continue
            if e['q'] is conn_inq:
                # the writer closing the websocket wakes the reader through its frame queue
                if e['op'] == 'put' and e['item'] is W._CLOSED and e['t'] == 2:
                    log.append({'t': 2, 'op': 'ws_close', 'item': ''})
                continue
            if e['q'] is not so.queue:
                continue
            if e['t'] is None:
                raise RuntimeError('queue primitive by a task outside the script: %r' % e['op'])
            it = e['item']
            if e['op'] in ('put', 'get', 'put_enter'):
                it = 'NIL' if it is None else w._pkt_token(1, it)
            log.append({'t': e['t'], 'op': e['op'], 'item': it if it is not None else ''})
        hub.primlog = None
        snap = w.snapshot(1)
        final = {'q': snap['ss'][0]['q'], 'unf': snap['ss'][0]['unf'],
                 'closed': snap['ss'][0]['closed'], 'closing': snap['ss'][0]['closing'],
                 'intable': sid in w.server.sockets,
                 'ev': [e[5:] for e in snap['ev'][0] if e.startswith('disc:')],
                 'deliv': [d[0] for d in snap['deliv'][0]], 'sent': len(w.accepted.get(1, []))}
        return {'log': log, 'final': final}, facts
    finally:
        w.close()


def ws_scripts(seed, n):
    rng = random.Random(seed)
    return [gen_ws_script(rng) for _ in range(n)]

