---------------------------- MODULE EioQueueFineUp ----------------------------
(***************************************************************************)
(* L2, upgrade half: one polling session of the threaded server while it   *)
(* is being upgraded to WebSocket (Socket._upgrade_websocket /             *)
(* _websocket_handler up to the start of the writer, handle_get_request's  *)
(* `if self.upgrading or self.upgraded` test), at the grain of one         *)
(* primitive per step.  Primitives: those of the send queue (EioQueueFine) *)
(* plus the call and the return of the upgrade socket's wait().            *)
(*                                                                         *)
(*   upgrader  the request task of the upgrade GET: upgrading = True, wait *)
(*             for PING probe, PONG probe out, put(NOOP) to end a pending  *)
(*             poll, wait for UPGRADE, upgraded = True / upgrading =       *)
(*             False, start the writer, then it is the reader (stays in    *)
(*             wait(): what follows is EioQueueFineWs).  Any other frame,  *)
(*             or the socket closing, fails the handshake: upgrading =     *)
(*             False, the request returns, the session stays on polling.   *)
(*   writer    the thread the upgrader starts: poll() in a loop, frames    *)
(*             out on the websocket                                        *)
(*   "poll"    GET: a session that is upgrading or upgraded answers NOOP   *)
(*             without touching the queue; otherwise Socket.poll()         *)
(*   "send"    server.send                                                 *)
(* The client: sends the probe once the socket is open, the UPGRADE frame  *)
(* once it has the PONG (a well-behaved one also waits until no GET of its *)
(* own is outstanding - that is what the NOOP is for), or goes away.       *)
(***************************************************************************)
EXTENDS EioQueueFine

CONSTANTS BadFrames,     \* BOOLEAN: the client may send a wrong frame instead of the probe / UPGRADE
          WellBehaved,   \* BOOLEAN: UPGRADE is sent only while no GET is outstanding
          Deviation      \* "none" | "NoNoop" (no put(NOOP) after the probe)
                         \*        | "PollIgnoresFlags" (GET reads the queue whatever the flags)
                         \*        | "GateReadsSwapped" (the gate reads upgraded before upgrading)
                         \*        | "FlagWritesSwapped" (at the end upgrading = False is written
                         \*          before upgraded = True)

VARIABLES upgrading, upgraded,   \* Socket flags
          wsin,       \* frames from the client the upgrader has not read yet
          wsout,      \* handshake frames the server wrote ("PONGprobe")
          wsdeliv,    \* packets the writer sent on the websocket
          read,       \* frames the upgrader has read
          stage,      \* frames the client has sent: 0, 1 (probe), 2 (UPGRADE)
          gone        \* the client closed the websocket
uvars == <<upgrading, upgraded, wsin, wsout, wsdeliv, read, stage, gone>>
allvars == <<vars, uvars>>
UpUnch == UNCHANGED uvars

U == CHOOSE p \in Proc : \A o \in Proc : p <= o
Wt == CHOOSE p \in Proc \ {U} : \A o \in Proc \ {U} : p <= o
Others == Proc \ {U, Wt}

UpInit == Init /\ upgrading = FALSE /\ upgraded = FALSE /\ wsin = <<>> /\ wsout = <<>>
          /\ wsdeliv = <<>> /\ read = <<>> /\ stage = 0 /\ gone = FALSE

(* ---- GET ---- *)
\* Every READ of one of the two flags by a request is a step of its own as well ("flagread" in
\* the logs).  A GET reads, in this order: `upgraded` (server.transport(sid): an upgraded
\* session refuses polling requests, 400), `upgrading`, `upgraded` (handle_get_request: either
\* one set -> [NOOP], the queue is not touched); only then Socket.poll() is called.
B(x) == IF x THEN "T" ELSE "F"
\* _get_socket, then the read of `upgraded` in transport(sid)
PollEnterUp(p) ==
    /\ kind[p] = "poll" /\ pc[p] = "begin"
    /\ IF Refused THEN ReapOnLookup /\ Ret(p, "400") /\ UNCHANGED it
       ELSE it' = [it EXCEPT ![p] = B(upgraded)] /\ Goto(p, "g1") /\ UNCHANGED intable
    /\ UNCHANGED <<q, unf, closing, closed, ev, deliv, sent, kind, pk, aux>>
\* upgraded: "Invalid transport", 400 [ret]; else the read of `upgrading`
PollGate1(p) ==
    /\ kind[p] = "poll" /\ pc[p] = "g1"
    /\ IF it[p] = "T" THEN Ret(p, "400") /\ UNCHANGED it
       ELSE IF Deviation = "PollIgnoresFlags" THEN Goto(p, "wait") /\ UNCHANGED it
       ELSE it' = [it EXCEPT ![p] = B(IF Deviation = "GateReadsSwapped" THEN upgraded ELSE upgrading)]
            /\ Goto(p, "g2")
    /\ UNCHANGED <<q, unf, closing, closed, intable, ev, deliv, sent, kind, pk, aux>>
\* upgrading: [NOOP] [ret]; else the second read of `upgraded`
PollGate2(p) ==
    /\ kind[p] = "poll" /\ pc[p] = "g2"
    /\ IF it[p] = "T" THEN deliv' = Append(deliv, "NOOP") /\ Ret(p, "200") /\ UNCHANGED it
       ELSE it' = [it EXCEPT ![p] = B(IF Deviation = "GateReadsSwapped" THEN upgrading ELSE upgraded)]
            /\ Goto(p, "g3") /\ UNCHANGED deliv
    /\ UNCHANGED <<q, unf, closing, closed, intable, ev, sent, kind, pk, aux>>
\* upgraded: [NOOP] [ret]; else Socket.poll(): the call of queue.get()  [get_enter]
PollGate3(p) ==
    /\ kind[p] = "poll" /\ pc[p] = "g3"
    /\ IF it[p] = "T" THEN deliv' = Append(deliv, "NOOP") /\ Ret(p, "200")
       ELSE Goto(p, "wait") /\ UNCHANGED deliv
    /\ UNCHANGED <<q, unf, closing, closed, intable, ev, sent, kind, pk, it, aux>>

ShortStep(p) ==
    /\ p \in Others
    /\ \/ DoPut(p) \/ SendBegin(p) \/ SendEnd(p)
       \/ PollEnterUp(p) \/ PollGate1(p) \/ PollGate2(p) \/ PollGate3(p) \/ PollGet(p) \/ PollTd1(p) \/ PollRespond(p) \/ PollMore(p)
       \/ PollTd2(p) \/ PollReput(p)
    /\ UpUnch
UpStart(p, k) == p \in Others /\ k \in {"poll", "send"} /\ Start(p, k) /\ UpUnch

(* ---- upgrader ---- *)
\* the client issues the upgrade request (once)
StartUpgrade ==
    /\ pc[U] = "idle"
    /\ kind' = [kind EXCEPT ![U] = "upg"] /\ pc' = [pc EXCEPT ![U] = "begin"]
    /\ UNCHANGED <<q, unf, closing, closed, intable, ev, deliv, sent, pk, it, resp, aux>> /\ UpUnch
\* Every write of one of the two flags is a step of its own (a primitive "flag" in the logs: the
\* harness turns the two attributes into logging descriptors), so that the ORDER of the writes
\* is part of the specification: a GET may run between any two of them.
\* _get_socket; _upgrade_websocket -> _websocket_handler: `self.upgrading = True`  [flag]
\* (before it the request reads `upgraded` twice: transport(sid) in handle_request and the
\*  "upgraded already" test of _upgrade_websocket  [flagread] x 2; one upgrade request only,
\*  so both read FALSE)
UBegin ==
    /\ kind[U] = "upg" /\ pc[U] = "begin"
    /\ IF Refused THEN ReapOnLookup /\ Ret(U, "400")
       ELSE ~upgraded /\ Goto(U, "u_r1") /\ UNCHANGED intable
    /\ UNCHANGED <<q, unf, closing, closed, ev, deliv, sent, kind, pk, it, aux>> /\ UpUnch
URead2 ==
    /\ pc[U] = "u_r1" /\ ~upgraded
    /\ Goto(U, "u_r2")
    /\ UNCHANGED <<q, unf, closing, closed, intable, ev, deliv, sent, kind, pk, it, aux>> /\ UpUnch
\* the call of wait()  [ws_wait_enter]
UCallWait(lfrom, lto) ==
    /\ pc[U] = lfrom
    /\ Goto(U, lto)
    /\ UNCHANGED <<q, unf, closing, closed, intable, ev, deliv, sent, kind, pk, it, aux>> /\ UpUnch
\* wait() returns a frame, or None when the client is gone  [ws_wait]
UFrame(lfrom, lto) ==
    /\ pc[U] = lfrom /\ (wsin # <<>> \/ gone)
    /\ LET f == IF wsin # <<>> THEN Head(wsin) ELSE "NONE" IN
       /\ it' = [it EXCEPT ![U] = f] /\ read' = Append(read, f)
       /\ wsin' = IF wsin # <<>> THEN Tail(wsin) ELSE wsin
    /\ Goto(U, lto)
    /\ UNCHANGED <<q, unf, closing, closed, intable, ev, deliv, sent, kind, pk, aux>>
    /\ UNCHANGED <<upgrading, upgraded, wsout, wsdeliv, stage, gone>>
\* one flag write  [flag]
USet(lfrom, lto, ug, ud) ==
    /\ pc[U] = lfrom
    /\ upgrading' = ug /\ upgraded' = ud
    /\ Goto(U, lto)
    /\ UNCHANGED <<q, unf, closing, closed, intable, ev, deliv, sent, kind, pk, it, aux>>
    /\ UNCHANGED <<wsin, wsout, wsdeliv, read, stage, gone>>
\* PING probe: PONG probe out, then the call of queue.put(NOOP)  [put_enter]; anything else:
\* `self.upgrading = False` [flag], return; _upgrade_websocket's finally writes it again
\* [flag]; the request returns [ret]
UAfter1 ==
    /\ pc[U] = "u_got1"
    /\ IF it[U] = "PINGprobe"
       THEN /\ wsout' = Append(wsout, "PONGprobe")
            /\ IF Deviation = "NoNoop"
               THEN Goto(U, "u_wait2") /\ UNCHANGED <<it, nx>>
               ELSE PrePut(U, "NOOP", "u_w2")
            /\ UNCHANGED <<q, unf, closing, closed, intable, ev, deliv, sent, kind, pk, alloc, putord>>
            /\ UNCHANGED <<upgrading, upgraded, wsin, wsdeliv, read, stage, gone>>
       ELSE USet("u_got1", "u_fin", FALSE, upgraded)
URet ==
    /\ pc[U] = "u_ret"
    /\ Ret(U, "fail")
    /\ UNCHANGED <<q, unf, closing, closed, intable, ev, deliv, sent, kind, pk, it, aux>> /\ UpUnch
\* UPGRADE: `self.upgraded = True` [flag], `self.upgrading = False` [flag], the writer thread is
\* started and the reader loop calls wait() [ws_wait_enter]; anything else: `self.upgraded =
\* False` [flag], `self.upgrading = False` [flag], return, the finally [flag], [ret]
UAfter2 ==
    IF it[U] = "UPGRADE"
    THEN IF Deviation = "FlagWritesSwapped" THEN USet("u_got2", "u_f2", FALSE, upgraded)
         ELSE USet("u_got2", "u_f2", upgrading, TRUE)
    ELSE USet("u_got2", "u_x1", upgrading, FALSE)
ULast ==
    IF Deviation = "FlagWritesSwapped" THEN USet("u_f2", "u_f3", upgrading, TRUE)
    ELSE USet("u_f2", "u_f3", FALSE, upgraded)
UStartWriter ==
    /\ pc[U] = "u_f3"
    /\ kind' = [kind EXCEPT ![Wt] = "writer"]
    /\ pc' = [pc EXCEPT ![U] = "r_wait", ![Wt] = "w_top"]
    /\ UNCHANGED <<q, unf, closing, closed, intable, ev, deliv, sent, pk, it, resp, aux>> /\ UpUnch
UpgraderStep ==
    \/ UBegin \/ URead2 \/ USet("u_r2", "u_b1", TRUE, upgraded) \/ UCallWait("u_b1", "u_wait1") \/ UFrame("u_wait1", "u_got1") \/ UAfter1
    \/ (DoPut(U) /\ UpUnch) \/ UCallWait("u_w2", "u_wait2") \/ UFrame("u_wait2", "u_got2")
    \/ UAfter2 \/ ULast \/ UStartWriter
    \/ USet("u_x1", "u_fin", FALSE, upgraded) \/ USet("u_fin", "u_ret", FALSE, upgraded) \/ URet

(* ---- writer: poll() in a loop, frames out ---- *)
WTop ==                                                         \* the call of queue.get()
    /\ pc[Wt] = "w_top" /\ Goto(Wt, "wait")
    /\ UNCHANGED <<q, unf, closing, closed, intable, ev, deliv, sent, kind, pk, it, aux>> /\ UpUnch
WGet ==
    /\ pc[Wt] = "wait" /\ kind[Wt] = "writer" /\ q # <<>>
    /\ it' = [it EXCEPT ![Wt] = Head(q)] /\ q' = Tail(q)
    /\ Goto(Wt, "td1")
    /\ UNCHANGED <<unf, closing, closed, intable, ev, deliv, sent, kind, pk, aux>> /\ UpUnch
WTd1 ==
    /\ pc[Wt] = "td1"
    /\ TaskDone
    /\ pk' = [pk EXCEPT ![Wt] = IF it[Wt] = NIL THEN <<>> ELSE <<it[Wt]>>]
    /\ Goto(Wt, IF it[Wt] = NIL THEN "w_end" ELSE "more")
    /\ UNCHANGED <<closing, closed, intable, ev, deliv, sent, kind, it, aux>> /\ UpUnch
\* poll() returned: frames out (no queue primitive), next poll(): the call of queue.get()
WFlush ==
    /\ wsdeliv' = wsdeliv \o pk[Wt]
    /\ pk' = [pk EXCEPT ![Wt] = <<>>]
    /\ Goto(Wt, "wait")
WMore ==
    /\ pc[Wt] = "more"
    /\ IF Len(pk[Wt]) >= Cap \/ q = <<>>
       THEN WFlush /\ UNCHANGED <<q, it>>
       ELSE /\ it' = [it EXCEPT ![Wt] = Head(q)] /\ q' = Tail(q)
            /\ Goto(Wt, "td2")
            /\ UNCHANGED <<wsdeliv, pk>>
    /\ UNCHANGED <<unf, closing, closed, intable, ev, deliv, sent, kind, aux>>
    /\ UNCHANGED <<upgrading, upgraded, wsin, wsout, read, stage, gone>>
WTd2 ==
    /\ pc[Wt] = "td2"
    /\ TaskDone
    /\ pk' = [pk EXCEPT ![Wt] = Append(@, it[Wt])] /\ Goto(Wt, "more")
    /\ UNCHANGED <<closing, closed, intable, ev, deliv, sent, kind, it, aux>> /\ UpUnch
WriterStep == WTop \/ WGet \/ WTd1 \/ WMore \/ WTd2

(* ---- the client ---- *)
PollOutstanding == \E p \in Others : kind[p] = "poll" /\ pc[p] \notin {"idle", "done"}
Frames1 == IF BadFrames THEN {"PINGprobe", "BAD"} ELSE {"PINGprobe"}
Frames2 == IF BadFrames THEN {"UPGRADE", "BAD"} ELSE {"UPGRADE"}
EnvUnch == UNCHANGED <<vars, upgrading, upgraded, wsout, wsdeliv, read>>
ClientProbe ==
    /\ stage = 0 /\ ~gone /\ pc[U] \in {"u_wait1"}
    /\ \E f \in Frames1 : wsin' = Append(wsin, f)
    /\ stage' = 1 /\ UNCHANGED gone /\ EnvUnch
ClientUpgrade ==
    /\ stage = 1 /\ ~gone /\ wsout # <<>>          \* (possibly before the put(NOOP) took effect)
    /\ WellBehaved => ~PollOutstanding
    /\ \E f \in Frames2 : wsin' = Append(wsin, f)
    /\ stage' = 2 /\ UNCHANGED gone /\ EnvUnch
ClientGone ==
    /\ ~gone /\ stage < 2 /\ pc[U] \in {"u_wait1", "u_wait2"} /\ wsin = <<>>
    /\ gone' = TRUE /\ UNCHANGED <<wsin, stage>> /\ EnvUnch
ClientStep == ClientProbe \/ ClientUpgrade \/ ClientGone

UpNext ==
    \/ StartUpgrade \/ UpgraderStep \/ WriterStep \/ ClientStep
    \/ \E p \in Others : ShortStep(p) \/ \E k \in {"poll", "send"} : UpStart(p, k)
UpSpec == UpInit /\ [][UpNext]_allvars
UpFairSpec == UpSpec /\ WF_allvars(UpgraderStep) /\ WF_allvars(WriterStep)
              /\ WF_allvars(ClientProbe \/ ClientUpgrade)
              /\ \A p \in Others : WF_allvars(ShortStep(p))

-----------------------------------------------------------------------------
UpTypeOK == /\ unf \in Nat /\ Len(q) <= unf /\ stage \in 0..2
            /\ upgrading \in BOOLEAN /\ upgraded \in BOOLEAN
\* C06: the session is upgraded only through PING probe, UPGRADE - in that order, nothing else
UpgradedOnlyViaHandshake == upgraded => read = <<"PINGprobe", "UPGRADE">>
\* C06: a failed handshake does not leave polling disabled
FailedLeavesPolling == (pc[U] = "done" /\ ~upgraded) => ~upgrading
\* C03 / C06: from the first step of the handshake to its end the polling gate is closed - at
\* every instant at least one of the two flags is set (the order of the two writes at the end
\* matters: upgraded first, then upgrading)
GateHeld ==
    /\ pc[U] \in {"u_b1", "u_wait1", "u_got1", "put", "u_w2", "u_wait2", "u_got2"} => upgrading
    /\ pc[U] \in {"u_f2", "u_f3", "r_wait"} => (upgrading \/ upgraded)
\* C03 at this grain: every accepted message is, exactly once, delivered on polling, delivered on
\* the websocket, held by a task that has not answered yet, or still queued
EverywhereUp == MsgsOf(deliv) \o MsgsOf(wsdeliv) \o Held(Proc) \o MsgsOf(q)
NoLossNoDupUp ==
    /\ Len(EverywhereUp) = Len(putord) /\ Len(putord) = sent
    /\ \A i \in 1..Len(putord) : \E j \in 1..Len(EverywhereUp) : EverywhereUp[j] = putord[i]
    /\ \A i, j \in 1..Len(putord) : putord[i] = putord[j] => i = j
\* with a client that has one GET outstanding at a time and sends UPGRADE only when none is,
\* messages arrive in the order they were queued: first the polling ones, then the websocket ones
InOrderUp == (SerialPolls /\ WellBehaved) => EverywhereUp = putord
\* C03: one transport - once the session is upgraded no message travels on polling
OneTransport == [][(upgraded /\ WellBehaved) => MsgsOf(deliv') = MsgsOf(deliv)]_allvars
\* liveness: the NOOP ends the pending GET, so a well-behaved client gets to send UPGRADE
ProbeAnswered == (stage = 1 /\ read = <<"PINGprobe">>) ~> (stage = 2 \/ gone)
=============================================================================
