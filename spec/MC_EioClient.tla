----------------------------- MODULE MC_EioClient -----------------------------
(* Model-checking wrapper of EioClient: scripted-server alphabet, bounds.       *)
EXTENDS EioClientProps

CONSTANTS Alpha, MaxReq, MaxEv, MaxSend, PI, PT, Profile, MaxCycles

VARIABLE nsent
mvars == <<now, c, call, rd, wr, ws, dj, wj, hj, nid, nsent>>

Pks == IF Profile = "small" THEN {<<>>, <<"M1">>, <<"PING">>, <<"CLOSE">>}
       ELSE {<<>>, <<"M1">>, <<"PING">>, <<"PING:x", "M1">>, <<"CLOSE">>, <<"NOOP", "UNK8">>,
             <<"M1", "CLOSE">>}
OpenPks == IF Profile = "small" THEN {<<"OPEN0">>, <<"OPEN1">>, <<"OPEN1", "CLOSE">>, <<"M1">>, <<>>}
           ELSE {<<"OPEN0">>, <<"OPEN1">>, <<"OPEN1", "M1">>, <<"OPEN1", "CLOSE">>, <<"OPEN0", "PING">>,
                 <<"OPENbad">>, <<"M1">>, <<>>}
Frames == IF Profile = "small" THEN {"M1", "PING", "PONGprobe", "CLOSE", "GARBAGE", "OPEN0"}
          ELSE {"M1", "PING", "PING:y", "NOOP", "PONGprobe", "CLOSE", "GARBAGE", "UNK8", "OPEN0",
                "OPENbad"}
Statuses == {200, 400}
Raws == {"none", "garbage"}

MInit == Init /\ nsent = 0

EnvNext ==
    /\ Quiescent
    /\ \/ "connect" \in Alpha /\ \E t \in {"poll", "ws", "both"} :
            t \in Alpha /\ Connect(t) /\ UNCHANGED nsent
       \/ /\ "reply" \in Alpha
          /\ \/ \E pk \in OpenPks, st \in Statuses, rw \in Raws :
                    call.stage = "get" /\ ConnectReply(call.id, st, pk, rw, PI, PT)
             \/ \E pk \in Pks, st \in Statuses, rw \in Raws :
                    rd.st = "get" /\ ReadReply(rd.id, st, pk, rw)
             \/ \E st \in Statuses : wr.st = "post" /\ PostReply(wr.id, st)
          /\ UNCHANGED nsent
       \/ /\ "fail" \in Alpha
          /\ \/ (call.stage = "get" /\ ConnectFail(call.id))
             \/ (rd.st = "get" /\ ReadFail(rd.id, FALSE))
             \/ (wr.st = "post" /\ PostFail(wr.id, FALSE))
          /\ UNCHANGED nsent
       \/ "ws" \in Alpha /\ (\E ok \in BOOLEAN : WsAccept(ok)) /\ UNCHANGED nsent
       \/ "ws" \in Alpha /\ (\E f \in Frames :
              WsDeliver([f |-> f, pi |-> IF f = "OPEN0" THEN PI ELSE 0,
                         pt |-> IF f = "OPEN0" THEN PT ELSE 0])) /\ UNCHANGED nsent
       \/ "ws" \in Alpha /\ WsPeerClose /\ UNCHANGED nsent
       \/ /\ "send" \in Alpha /\ nsent < MaxSend
          /\ Send("m" \o ToString(nsent + 1)) /\ nsent' = nsent + 1
       \/ "disconnect" \in Alpha /\ Disconnect /\ UNCHANGED nsent
       \/ "wait" \in Alpha /\ WaitCall /\ UNCHANGED nsent

MNext == EnvNext \/ (Internal /\ UNCHANGED nsent)
         \/ ("tick" \in Alpha /\ (\E t \in (Deadlines \cup {now + 1}) : TickTo(t)) /\ UNCHANGED nsent)
MSpec == MInit /\ [][MNext]_mvars

Bound == /\ Cycles(c.ev) <= MaxCycles /\ nid <= MaxReq /\ Len(c.ev) <= MaxEv /\ c.nconn <= 2 /\ Len(ws.inq) <= 2
         /\ Len(c.q) <= 4 /\ Len(c.tx) <= MaxEv + 1 /\ Len(c.rx) <= MaxEv /\ dj <= 1 /\ wj <= 1 /\ Len(c.hq) <= 2
View == <<now, [c EXCEPT !.out = <<>>], call, rd, wr, ws, dj, wj, hj, nsent>>

\* C09: application messages are transmitted at most once and in order
IsCliMsg(p) == Len(p) >= 2 /\ SubSeq(p, 1, 1) = "m"
TxMsgs == SelectSeq(c.tx, IsCliMsg)
Idx(m) == IF \E n \in 1..MaxSend : "m" \o ToString(n) = m
          THEN CHOOSE n \in 1..MaxSend : "m" \o ToString(n) = m ELSE 0
C09_TxOnceInOrder ==
    \A i \in 1..(Len(TxMsgs) - 1) : Idx(TxMsgs[i]) < Idx(TxMsgs[i + 1])
\* C09: the transport is websocket only after the probe handshake (or a fresh websocket)
C09_WsOnlyAfterProbe ==
    c.tr = "websocket" => c.nconn >= 1
=============================================================================
