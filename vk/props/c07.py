"""C07 - heartbeat: periodic PING, dead peers dropped in bounded time, live peers never."""
import random

from . import core
from ..common import Check

INVS = ['TypeOK', 'C07_DetectionBound', 'C07_PollBounded', 'C07_PingOnlyWhenArmed',
        'C05_EventShape', 'C05_ReasonIsFirstCause', 'C16_ReapedInTime']
PROPS = ['C07_NoFalseTimeout', 'C07_PingCadence']


def run(tier):
    ck = Check('C07', tier)
    th = tier == 'thorough'
    A = core.alpha
    grid = [(1, 1), (2, 1), (1, 2), (2, 2), (3, 1), (3, 2)] if not th else \
        [(i, t) for i in (1, 2, 3, 4) for t in (1, 2, 3)]
    jobs = []
    for (i, t) in grid:
        for mon in ('TRUE', 'FALSE'):
            jobs.append(dict(
                name='polling, I=%d T=%d monitor=%s: PONG at any time, sends, polls' % (i, t, mon),
                consts=core.consts(Alpha=A('open', 'poll', 'post', 'send', 'tick'),
                                   BodyProfile='"pong"', PingInterval=i, PingTimeout=t, Monitor=mon,
                                   MaxMsg=1, Horizon=2 * i + 4 * t + 1, MaxReq=5, MaxQ=4, MaxPings=3),
                invariants=INVS, properties=PROPS, min_states=300))
    jobs.append(dict(
        name='websocket, I=2 T=1, asyncio read timeout, monitor on',
        consts=core.consts(Alpha=A('openws', 'wsio', 'send', 'tick'), FrameProfile='"steady"',
                           ImplWsReadTimeout='TRUE', ImplJoinLatch='TRUE', Monitor='TRUE', MaxMsg=1,
                           Horizon=8, MaxReq=2, MaxQ=4, MaxEv=2, MaxPings=3),
        invariants=INVS, properties=PROPS, min_states=300))
    jobs.append(dict(
        name='2 sessions, I=2 T=2, monitor sweep spacing (opens, PONG or silence, clock)',
        consts=core.consts(Sid='{1, 2}', Alpha=A('open', 'post', 'tick'), BodyProfile='"pong"',
                           PingInterval=2, PingTimeout=2, Monitor='TRUE', MaxMsg=0, Horizon=11,
                           MaxReq=4, MaxQ=3, MaxPings=4),
        invariants=INVS, properties=PROPS, min_states=300))
    if th:
        jobs.append(dict(
            name='3 sessions, I=3 T=6, monitor sweep spacing',
            consts=core.consts(Sid='{1, 2, 3}', Alpha=A('open', 'post', 'tick'),
                               BodyProfile='"pong"', PingInterval=3, PingTimeout=6, Monitor='TRUE',
                               MaxMsg=0, Horizon=24, MaxReq=4, MaxQ=3, MaxPings=6),
            invariants=INVS, properties=PROPS, min_states=300))
    core.run_tlc_jobs(ck, jobs, par=4)

    seed = ck.seed
    plans = []
    cfgs = [(8, 4, 0), (4, 4, 0), (12, 12, 0), (3, 6, 0), (16, 4, 4), (40, 8, 0)] if not th else \
        [(i, t, g) for i in (3, 4, 8, 12, 40) for t in (4, 8, 12) for g in (0, 4)]
    for impl in ('sync', 'async'):
        for (i, t, g) in cfgs:
            for mon in (True, False):
                cfg = {'ping_interval': i, 'ping_timeout': t, 'grace': g, 'monitor': mon}
                plans.append(dict(
                    what='PONG just before / at / just after each deadline; sends and polls on '
                         'either side; I=%d T=%d G=%d monitor=%s' % (i, t, g, mon),
                    impl=impl, cfg=cfg, nslots=2, scripts=timing_scripts(seed, i, t, 20 if th else 8)))
    core.conform(ck, plans, par=4)
    # the threaded server under pre-emptive schedules with a peer that really answers: this
    # package's threaded client on the same hub, idle periods of many heartbeat cycles, time in
    # steps of 1-3 ticks, an occasional send either way.  A live peer must never be dropped:
    # validated against the end-to-end contract (nobody ends an idle connection).
    from . import c10
    from .. import tracecheck
    itr, imeta = c10.run_idle_preempt(ck, seed + 7, 400 if th else 60, end=False)
    v = tracecheck.validate('EioE2ETrace', itr, constants={'MaxMsg': 100000}, batch=400)
    ck.cov['states'] += v.states
    ck.cov['transitions'] += v.generated
    ck.add_conformance('threaded server + threaded client of this package on one pre-emptive hub '
                       '(switches at every queue / websocket primitive, tasks held back at the call '
                       'and at the return of put): idle periods of 20-40 steps over %d heartbeat '
                       'settings, validated against EioE2E: a peer that answers every PING is never '
                       'dropped' % len(c10.IDLE_HB), len(itr), len(v.accepted))
    for i in v.rejected[:3]:
        ck.violation('live peer dropped under a pre-emptive schedule (%s, heartbeat=%s): %s' % (
            imeta[i]['transports'], imeta[i]['hb'], c10.explain(itr[i])),
            {'meta': imeta[i], 'trace': itr[i], 'kind': 'e2e'})
    # detection bound measured on the recorded traces (independent of the spec's bookkeeping)
    ck.cov['rule'] = ('case = one timing script (PONG offsets relative to each PING deadline in '
                      '{-1,0,+1} units of 1/16 s, or silence; sends, polls, second session) on one '
                      'implementation and (interval, timeout, grace, monitor) setting; distinct by '
                      'recorded action sequence')
    ck.assume('virtual clock in units of 1/16 s; all configured times are multiples of it, so the '
              'comparisons at the deadlines are exact')
    return ck.finish()


def timing_scripts(seed, I, T, n):
    rng = random.Random(seed * 7919 + I * 101 + T)
    out = []
    for k in range(n):
        ws = k % 3 == 2
        sc = [{'op': 'openws'}] if ws else [{'op': 'open'}]
        if rng.random() < 0.4:
            sc.append({'op': 'open'})
        t = 0
        ping_at = I
        for cycle in range(rng.randint(1, 4)):
            mode = rng.choice(['before', 'at', 'after', 'silent', 'early'])
            if mode == 'silent':
                # nothing from the peer any more; observe what the server does
                steps = sorted(rng.sample(range(ping_at, ping_at + I + 4 * T + 2), 3))
                for st in steps:
                    if st > t:
                        sc.append({'op': 'tick', 't': st})
                        t = st
                    sc.append(rng.choice([{'op': 'send', 's': 1}, {'op': 'poll', 's': 1},
                                          {'op': 'get', 's': 1}]))
                break
            off = {'before': T - 1, 'at': T, 'after': T + 1, 'early': 0}[mode]
            pong_t = ping_at + max(0, off)
            # other traffic before the pong
            mid = rng.randint(t, max(t, pong_t))
            if mid > t:
                sc.append({'op': 'tick', 't': mid})
                t = mid
            sc.append(rng.choice([{'op': 'send', 's': 1}, {'op': 'poll', 's': 1},
                                  {'op': 'post', 's': 1, 'body': ['m1']}]) if not ws else
                      rng.choice([{'op': 'send', 's': 1}, {'op': 'wsframe', 's': 1, 'f': 'm1'}]))
            if pong_t > t:
                sc.append({'op': 'tick', 't': pong_t})
                t = pong_t
            sc.append({'op': 'wsframe', 's': 1, 'f': 'PONG'} if ws else
                      {'op': 'post', 's': 1, 'body': ['PONG']})
            if not ws and rng.random() < 0.7:
                sc.append({'op': 'poll', 's': 1})
            ping_at = pong_t + I
        sc.append({'op': 'tick', 't': t + I + 4 * T + 3})
        sc.append({'op': 'send', 's': 1})
        out.append(sc)
    return out


def replay(path):
    import json
    with open(path) as f:
        if json.load(f).get('kind') == 'e2e':
            from . import c10
            return c10.replay(path, 'C07')
    return core.replay_server_trace('C07', path)
