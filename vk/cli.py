"""bin/check entry point."""
import argparse
import importlib
import os
import sys
import traceback

from .common import MachineryError


def main():
    ap = argparse.ArgumentParser()
    ap.add_argument('pid')
    ap.add_argument('--tier', default=os.environ.get('VERIF_TIER', 'quick'),
                    choices=['quick', 'thorough'])
    ap.add_argument('--replay')
    a = ap.parse_args()
    mod = importlib.import_module('vk.props.' + a.pid.lower())
    try:
        if a.replay:
            rc = mod.replay(a.replay)
        else:
            rc = mod.run(a.tier)
    except MachineryError as e:
        print('MACHINERY-ERROR %s: %s' % (a.pid, e))
        sys.exit(2)
    except Exception:
        traceback.print_exc()
        print('MACHINERY-ERROR %s: unexpected exception in the check itself' % a.pid)
        sys.exit(2)
    sys.exit(rc)


if __name__ == '__main__':
    main()
