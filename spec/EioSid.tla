------------------------------- MODULE EioSid -------------------------------
(***************************************************************************)
(* Session-id generator (BaseServer.generate_id, base_server.py).          *)
(*                                                                         *)
(* An id is the URL-safe base64 text of  r ++ c  where r is 12 bytes taken *)
(* from the operating system's random source and c is a 3-byte counter     *)
(* that advances modulo M = 2^24 with every issue.  The specification      *)
(* abstracts the id to the pair <<r, c>> (the text encoding is injective;  *)
(* the harness checks alphabet, length and that decoding yields r ++ c).   *)
(*                                                                         *)
(* win holds the last (at most M) ids issued, oldest first, so "no two of  *)
(* any M consecutively issued ids are equal" is the state invariant Unique.*)
(* The random source is adversarial: any r \in Rnd at every step,          *)
(* including the same value forever.                                       *)
(***************************************************************************)
EXTENDS Naturals, Sequences

CONSTANTS M,      \* counter modulus (16777216 in the implementation)
          Rnd     \* values the random source may return

VARIABLES seq,    \* next counter value
          win     \* sliding window of issued ids

vars == <<seq, win>>

Id(r, c) == <<r, c>>

Init == /\ seq \in 0..(M - 1)
        /\ win = <<>>

Issue(r) ==
    /\ win' = (IF Len(win) = M THEN Tail(win) ELSE win) \o <<Id(r, seq)>>
    /\ seq' = (seq + 1) % M

Next == \E r \in Rnd : Issue(r)

Spec == Init /\ [][Next]_vars

TypeOK == seq \in 0..(M - 1) /\ Len(win) <= M

\* C17: any M consecutive ids are pairwise distinct, whatever the random source returned.
Unique == \A i, j \in 1..Len(win) : i # j => win[i] # win[j]

\* the counters embedded in consecutive ids are consecutive modulo M
CountersConsecutive ==
    \A i \in 1..(Len(win) - 1) : win[i + 1][2] = (win[i][2] + 1) % M

\* Deviation used as a negative control: a counter that wraps too early (period P < M).
ShortIssue(r, P) ==
    /\ win' = (IF Len(win) = M THEN Tail(win) ELSE win) \o <<Id(r, seq)>>
    /\ seq' = (seq + 1) % P
=============================================================================
