"""C09 - client protocol conduct: PONG echo, ordered exactly-once I/O, probe upgrade."""
import random

from . import clientcore as K
from . import c08
from ..common import Check

OPENP = {'open': {'ups': True, 'pi': 8, 'pt': 4}}
OPEN0 = {'open': {'ups': False, 'pi': 8, 'pt': 4}}


def run(tier):
    ck = Check('C09', tier)
    th = tier == 'thorough'
    A = K.alpha
    jobs = [
        dict(name='polling conduct: PINGs, messages, NOOPs, unknown types, sends, POST outcomes, timed',
             consts=K.consts(Alpha=A('connect', 'poll', 'reply', 'fail', 'send', 'tick'),
                             Profile='"full"' if th else '"small"', MaxReq=5 if th else 4,
                             MaxEv=4 if th else 3, Horizon=6 if th else 5)),
        dict(name='probe upgrade: right / wrong / no answer, frames afterwards, sends (untimed)',
             consts=K.consts(Alpha=A('connect', 'both', 'reply', 'ws', 'send'),
                             Profile='"full"' if th else '"small"', MaxReq=3, MaxEv=3 if th else 2,
                             MaxSend=2 if th else 1)),
        dict(name='websocket conduct incl. silence (read timeout pi+pt), timed',
             consts=K.consts(Alpha=A('connect', 'ws', 'send', 'tick'), MaxReq=2, MaxEv=3 if th else 2,
                             MaxSend=2 if th else 1, Horizon=7 if th else 5)),
    ]
    K.run_tlc_jobs(ck, jobs)
    seed = ck.seed
    n = 300 if th else 100
    plans = []
    w_io = {'replyget': 14, 'replypost': 10, 'send': 12, 'wsdeliver': 14, 'tick': 6, 'connect': 0,
            'disconnect': 0, 'wait': 0, 'failget': 0, 'failpost': 0, 'badget': 0, 'badpost': 0,
            'wsclose': 0}
    urls = [('http://host:5000', 'engine.io'), ('https://host', '/custom/path/'),
            ('http://host:8080/ignored/path?token=abc&x=1', 'engine.io'),
            ('wss://host.example:8443?room=a%20b', 'eio'), ('ws://h', '/e.io'),
            # blank-valued arguments, bare flags and repeated keys are part of the caller's query
            ('http://host:5000?room=&user=bob', 'engine.io'), ('https://host/?debug', 'eio'),
            ('http://h:81/x?a=1&a=2&token=', '/engine.io/')]
    for impl in ('sync', 'async'):
        plans.append(dict(what='random conversations: PINGs with data, bursts, NOOPs, unknown types, '
                               'sends of every payload kind', impl=impl, cfg={},
                          scripts=K.random_scripts(seed + 1, n, 30, None, w_io)))
        plans.append(dict(what='bursts of 1..40 messages per response / frame run, sends of 1..40',
                          impl=impl, cfg={}, scripts=burst_scripts(seed + 2, 24 if th else 12)))
        plans.append(dict(what='probe answered correctly / wrongly / not at all, queue kept', impl=impl,
                          cfg={}, scripts=probe_scripts()))
        plans.append(dict(what='silence starting at every point', impl=impl, cfg={},
                          scripts=c08.silence_scripts()))
        for url, path in urls:
            plans.append(dict(what='URL %s path %s' % (url, path), impl=impl,
                              cfg={'url': url, 'path': path},
                              scripts=K.random_scripts(seed + 3, 12 if th else 6, 12, None, w_io)))
    K.conform(ck, plans)
    # the threaded client on polling at one primitive per step: PONG per PING, accepted packets in
    # send order at most once, under every thread schedule (EioClientFinePoll)
    K.l2_client_poll(ck, th, seed, lifecycle=False)
    ck.cov['rule'] = ('case = one scripted-server conversation on one client implementation (and URL '
                      'form); distinct by recorded action sequence')
    ck.assume('URL facts (scheme mapping, endpoint path, EIO=4, transport, caller query kept, sid '
              'appended) are computed by the harness for every request and required TRUE by the spec')
    ck.assume('silence bounds validated: websocket pi+pt exactly; polling max(pi,pt)+5 s on the GET and '
              'on the write loop queue wait (<= pi+pt+5 s of the statement)')
    return ck.finish()


def burst_scripts(seed, n):
    rng = random.Random(seed)
    out = []
    for i in range(n):
        tr = ('poll', 'both', 'ws')[i % 3]
        k = rng.choice([1, 2, 16, 17, 25, 40])
        m = rng.choice([1, 3, 16, 17, 40])
        msgs = ['M%d' % (j + 1) for j in range(k)]
        if tr == 'poll':
            sc = [{'op': 'connect', 'tr': 'poll'}, {'op': 'reply', 'm': 'GET', 'pk': [OPEN0]},
                  {'op': 'reply', 'm': 'GET', 'pk': msgs + ['PING:a']}]
            sc += [{'op': 'send', 'tok': 'm%d' % (j + 1)} for j in range(m)]
            sc += [{'op': 'reply', 'm': 'POST', 'pk': []}, {'op': 'reply', 'm': 'POST', 'pk': []},
                   {'op': 'reply', 'm': 'GET', 'pk': ['PING:b']}, {'op': 'reply', 'm': 'POST', 'pk': []}]
        else:
            if tr == 'both':
                sc = [{'op': 'connect', 'tr': 'both'}, {'op': 'reply', 'm': 'GET', 'pk': [OPENP]},
                      {'op': 'wsaccept'}, {'op': 'wsdeliver', 'f': 'PONGprobe'}]
            else:
                sc = [{'op': 'connect', 'tr': 'ws'}, {'op': 'wsaccept'}, {'op': 'wsdeliver', 'f': OPEN0}]
            sc += [{'op': 'wsdeliver', 'f': x} for x in msgs + ['PING:a']]
            sc += [{'op': 'send', 'tok': 'm%d' % (j + 1)} for j in range(m)]
            sc += [{'op': 'wsdeliver', 'f': 'PING:b'}]
        sc.append({'op': 'tick', 't': 5})
        out.append(sc)
    return out


def probe_scripts():
    out = []
    for ans in ('PONGprobe', 'PONGx', 'M1', 'NOOP', 'CLOSE', 'GARBAGE', 'EMPTY', 'PING', None, 'close',
                'refuse'):
        sc = [{'op': 'connect', 'tr': 'both'}, {'op': 'reply', 'm': 'GET', 'pk': [OPENP, 'M1']}]
        if ans == 'refuse':
            sc.append({'op': 'wsrefuse'})
        else:
            sc.append({'op': 'wsaccept'})
            if ans == 'close':
                sc.append({'op': 'wsclose'})
            elif ans is None:
                sc.append({'op': 'tick', 't': 90})
            else:
                sc.append({'op': 'wsdeliver', 'f': ans})
        sc += [{'op': 'send', 'tok': 'm1'}, {'op': 'send', 'tok': 'm3'},
               {'op': 'reply', 'm': 'POST', 'pk': []}, {'op': 'reply', 'm': 'GET', 'pk': ['M2', 'PING']},
               {'op': 'wsdeliver', 'f': 'M2'}, {'op': 'wsdeliver', 'f': 'PING:z'},
               {'op': 'reply', 'm': 'POST', 'pk': []}, {'op': 'tick', 't': 95}]
        out.append(sc)
    return out


def replay(path):
    return K.replay_client_trace('C09', path)
