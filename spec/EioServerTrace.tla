--------------------------- MODULE EioServerTrace ---------------------------
(***************************************************************************)
(* Trace validation of real executions of engineio.Server /                *)
(* engineio.AsyncServer against EioServer.                                 *)
(*                                                                         *)
(* The batch file is one JSON document: an array of traces; a trace is an  *)
(* array of lines {ev, a, st}: the environment action the harness          *)
(* performed, its arguments, and the projected state + outputs observed    *)
(* once the implementation was quiescent again.  Consume takes the next    *)
(* line's action from a quiescent state that matches the previous line's   *)
(* snapshot; Silent is any internal step of the specification.             *)
(***************************************************************************)
EXTENDS EioServerProps, Json, IOUtils, TLCExt

Tr == JsonDeserialize(IOEnv.TRACE_FILE)

VARIABLES tid, l
tvars == <<now, g, polls, psleep, wsr, wsin, wsw, wsgone, joiners, mon, nreq, tid, l>>

\* runs under pre-emptive schedules (the threaded server, scheduler switching inside blocks)
\* mark their snapshots "relax": outputs of different tasks may then interleave differently
\* from the block-to-block order of the specification; they are compared as bags, everything
\* else (state, per-session event order, deliveries) exactly
SameBag(a, b) ==
    /\ Len(a) = Len(b)
    /\ \A i \in 1..Len(a) : Cardinality({k \in 1..Len(a) : a[k] = a[i]})
                              = Cardinality({k \in 1..Len(b) : b[k] = a[i]})

Match(st) ==
    /\ now = st.now
    /\ g.ss = st.ss
    /\ g.table = {st.table[i] : i \in 1..Len(st.table)}
    /\ g.ev = st.ev
    /\ g.deliv = st.deliv
    /\ IF "relax" \in DOMAIN st THEN SameBag(g.out, st.out) ELSE g.out = st.out

EnvStep(e) == Do([op |-> e.ev] @@ e.a)

TraceInit ==
    /\ Init
    /\ tid \in 1..Len(Tr)
    /\ l = 1

Consume ==
    /\ l <= Len(Tr[tid])
    /\ Quiescent
    /\ (l > 1 => Match(Tr[tid][l - 1].st))
    /\ EnvStep(Tr[tid][l])
    /\ l' = l + 1
    /\ UNCHANGED tid

Silent ==
    /\ l <= Len(Tr[tid]) + 1
    /\ Internal
    /\ UNCHANGED <<tid, l>>

\* pre-emptive schedules of the threaded server: queue.join() re-checks the counter when the
\* joining thread gets to run; if it runs between the consumer's last task_done() and the
\* consumer's re-put of the sentinel it returns, otherwise it keeps waiting (finding F6).
\* Block-to-block the window does not exist; "relax" traces may take it.
SilentJoinWindow ==
    /\ l <= Len(Tr[tid]) + 1
    /\ "relax" \in DOMAIN Tr[tid][1].st
    /\ \E i \in 1..Len(joiners) : JoinReturnWith(i, TRUE)
    /\ UNCHANGED <<tid, l>>

\* second window of pre-emptive schedules: close() puts CLOSE, then sets `closed`, then puts
\* the sentinel.  A pending poll scheduled right after the first put takes the packets up to
\* CLOSE and finds the session still open: it does not reap it, and the sentinel put
\* afterwards stays queued.  (Block-to-block the poll sees CLOSE and the sentinel together.)
SilentCloseWindow ==
    /\ l <= Len(Tr[tid]) + 1
    /\ "relax" \in DOMAIN Tr[tid][1].st
    /\ \E i \in 1..Len(polls) :
          LET p == polls[i]
              s == p.s
              q == g.ss[s].q
          IN /\ p.kind = "http" /\ g.ss[s].closed
             /\ Len(q) >= 2 /\ Len(q) - 1 <= MaxPk
             /\ q[Len(q)] = NIL /\ q[Len(q) - 1] = "CLOSE"
             /\ \A k \in 1..(Len(q) - 1) : q[k] # NIL
             /\ LET pk == SubSeq(q, 1, Len(q) - 1)
                    g1 == [g EXCEPT !.ss[s].q = <<NIL>>, !.ss[s].unf = @ - Len(pk)]
                IN g' = Resp(Delivered(g1, s, pk, "polling"), p.rid, 200, pk)
             /\ polls' = RemoveAt(polls, i)
    /\ UNCHANGED <<now, psleep, wsr, wsin, wsw, wsgone, joiners, mon, nreq, tid, l>>

Finish ==
    /\ l = Len(Tr[tid]) + 1
    /\ Quiescent
    /\ (l > 1 => Match(Tr[tid][l - 1].st))
    /\ PrintT(<<"ACC", tid>>)
    /\ l' = l + 1
    /\ UNCHANGED <<vars, tid>>

TraceNext == Consume \/ Silent \/ SilentJoinWindow \/ SilentCloseWindow \/ Finish
TraceSpec == TraceInit /\ [][TraceNext]_tvars

\* diagnosis of a rejected trace: print every state reached
DiagPrint == PrintT(<<"DIAG", l, now, g, polls, psleep, wsr, wsin, wsw, wsgone, joiners, mon>>)
=============================================================================
