------------------------------ MODULE MC_EioHttp ------------------------------
(* TLC entry point for the table facts of EioHttp: a one-state behaviour whose *)
(* invariants quantify over every cell.                                        *)
EXTENDS EioHttp
VARIABLE x
Init == x = 0
Next == x' = x
Spec == Init /\ [][Next]_x
NCells == Cardinality(OriginCells) + Cardinality(AdmitCells) + Cardinality(OpenCells)
=============================================================================
