----------------------- MODULE EioClientFinePollTrace -----------------------
(***************************************************************************)
(* Primitive-by-primitive validation of pre-emptive executions of the real *)
(* threaded client on the polling transport against EioClientFinePoll.     *)
(* Records {t, op, item, items}: t in "app" / "wr" / "rd" / "env"; op in   *)
(* put_enter / put / get_enter / get / http_enter / http_ret /             *)
(* tjoin_enter / ret / srv_get / srv_post.                                 *)
(***************************************************************************)
EXTENDS EioClientFinePoll, Json, IOUtils, TLCExt

Tr == JsonDeserialize(IOEnv.TRACE_FILE)
VARIABLES tid, l
tvars == <<vars, tid, l>>

Evs == Tr[tid].log
TraceInit == Init /\ tid \in 1..Len(Tr) /\ l = 1

StepOf(p) == CASE p = "app" -> AppStep [] p = "wr" -> WrStep [] OTHER -> RdStep
Failed(r) == r \in {<<"BAD">>, <<"FAIL">>}
ResultOf(r) == IF r = <<"BAD">> THEN "bad" ELSE IF r = <<"FAIL">> THEN "fail" ELSE "ok"

Consume ==
    /\ l <= Len(Evs)
    /\ LET e == Evs[l]
           p == e.t
       IN CASE e.op = "put_enter"   -> StepOf(p) /\ pc'[p] = "put" /\ it'[p] = e.item /\ q' = q
            [] e.op = "put"         -> DoPut(p) /\ it[p] = e.item
            [] e.op = "get_enter"   -> p = "wr" /\ WAfter /\ pc'[p] = "w_wait"
            [] e.op = "get"         -> p = "wr" /\ (WGet \/ WMore) /\ it'[p] = e.item
            [] e.op = "http_enter"  ->
                   IF e.item = "POST" THEN p = "wr" /\ WPost /\ pbody' = e.items
                   ELSE p = "rd" /\ RdStep /\ gst = "idle" /\ gst' = "flight"
            [] e.op = "http_ret"    ->
                   \/ p = "wr" /\ WPostRet /\ pres = e.item
                   \/ p = "rd" /\ RGetRet /\ ResultOf(gres) = e.item
            [] e.op = "tjoin_enter" ->
                   \/ p = "app" /\ AppDiscState
                   \/ p = "rd" /\ RdStep /\ pc[p] # "r_join" /\ pc'[p] = "r_join"
            [] e.op = "ret"         -> StepOf(p) /\ pc[p] # "done" /\ pc'[p] = "done" /\ q' = q
            [] e.op = "srv_get"     -> SrvAnswerGet /\ gres' = e.items
            [] e.op = "srv_post"    -> SrvAnswerPost /\ pres' = e.item
            [] OTHER -> FALSE
    /\ l' = l + 1 /\ UNCHANGED tid

\* the step that touches no primitive
Silent ==
    /\ l <= Len(Evs) + 1
    /\ AppSend /\ st # "connected"
    /\ UNCHANGED <<tid, l>>

Fin == Tr[tid].final
Finish ==
    /\ l = Len(Evs) + 1
    /\ st = Fin.st /\ ev = Fin.ev /\ posted = Fin.posted /\ q = Fin.q
    /\ rx = Fin.rx /\ late = Fin.late /\ Done = Fin.done
    /\ PrintT(<<"ACC", tid>>)
    /\ l' = l + 1 /\ UNCHANGED <<vars, tid>>

TraceNext == Consume \/ Silent \/ Finish
TraceSpec == TraceInit /\ [][TraceNext]_tvars
DiagPrint == PrintT(<<"DIAG", l, st, q, ev, rx, wlt, pc, it, pk, pend, nsent, gst, gres, pst,
                      pres, posted, sgone, polls>>)
=============================================================================
