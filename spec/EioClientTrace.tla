--------------------------- MODULE EioClientTrace ---------------------------
(* Trace validation of real executions of engineio.Client / AsyncClient      *)
(* (scripted server as peer) against EioClient.                              *)
EXTENDS EioClientProps, Json, IOUtils, TLCExt

Tr == JsonDeserialize(IOEnv.TRACE_FILE)
VARIABLES tid, l
tvars == <<now, c, call, rd, wr, ws, dj, wj, hj, nid, tid, l>>

\* executions of the threaded client under pre-emptive schedules mark their snapshots "relax":
\* the outputs of one step (requests issued, events, returns of different tasks) are then
\* compared as a bag, everything else exactly
SameBag(a, b) ==
    /\ Len(a) = Len(b)
    /\ \A i \in 1..Len(a) : Cardinality({k \in 1..Len(a) : a[k] = a[i]})
                              = Cardinality({k \in 1..Len(b) : b[k] = a[i]})

Match(st) ==
    /\ now = st.now
    /\ c.st = st.st
    /\ c.sid = st.sid
    /\ c.tr = st.tr
    /\ c.ev = st.ev
    /\ IF "relax" \in DOMAIN st THEN SameBag(c.out, st.out) ELSE c.out = st.out
    /\ c.q = st.q
    /\ c.reg = st.reg

EnvStep(e) ==
    CASE e.ev = "connect"  -> Connect(e.a.tr)
      [] e.ev = "reply"    -> \/ ConnectReply(e.a.id, e.a.status, e.a.pk, e.a.raw, e.a.pi, e.a.pt)
                              \/ ReadReply(e.a.id, e.a.status, e.a.pk, e.a.raw)
                              \/ PostReply(e.a.id, e.a.status)
      [] e.ev = "fail"     -> \/ ConnectFail(e.a.id)
                              \/ ReadFail(e.a.id, FALSE)
                              \/ PostFail(e.a.id, FALSE)
      [] e.ev = "wsaccept" -> WsAccept(TRUE)
      [] e.ev = "wsrefuse" -> WsAccept(FALSE)
      [] e.ev = "wsdeliver" -> WsDeliver([f |-> e.a.f, pi |-> e.a.pi, pt |-> e.a.pt])
      [] e.ev = "wsclose"  -> WsPeerClose
      [] e.ev = "send"     -> Send(e.a.tok)
      [] e.ev = "disconnect" -> Disconnect
      [] e.ev = "wait"     -> WaitCall
      [] e.ev = "tick"     -> TickTo(e.a.t)
      [] OTHER -> FALSE

TraceInit == Init /\ tid \in 1..Len(Tr) /\ l = 1

Consume ==
    /\ l <= Len(Tr[tid])
    /\ Quiescent
    /\ (l > 1 => Match(Tr[tid][l - 1].st))
    /\ EnvStep(Tr[tid][l])
    /\ l' = l + 1
    /\ UNCHANGED tid

Silent == /\ l <= Len(Tr[tid]) + 1 /\ Internal /\ UNCHANGED <<tid, l>>

Finish ==
    /\ l = Len(Tr[tid]) + 1
    /\ Quiescent
    /\ (l > 1 => Match(Tr[tid][l - 1].st))
    /\ PrintT(<<"ACC", tid>>)
    /\ l' = l + 1
    /\ UNCHANGED <<vars, tid>>

TraceNext == Consume \/ Silent \/ Finish
TraceSpec == TraceInit /\ [][TraceNext]_tvars
DiagPrint == PrintT(<<"DIAG", l, now, c, call, rd, wr, ws, dj, wj, hj>>)
=============================================================================
