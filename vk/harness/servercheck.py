"""Validation of recorded server traces against EioServer (TLC), grouped by configuration."""
import json

from .. import tlc, tracecheck

DEFAULT_DEVS = ()


def constants_for(impl, cfg, nslots, deviations=()):
    return {
        'Sid': '{' + ', '.join(str(i) for i in range(1, nslots + 1)) + '}',
        'MaxMsg': 999,
        'PingInterval': cfg['ping_interval'],
        'PingTimeout': cfg['ping_timeout'],
        'AsyncHandlers': 'TRUE' if cfg['async_handlers'] else 'FALSE',
        'Monitor': 'TRUE' if cfg['monitor'] else 'FALSE',
        'WsAvailable': 'TRUE' if cfg['ws_available'] else 'FALSE',
        'ImplSentinel': 'TRUE',   # both servers put the sentinel in close() (asyncio since the fix)
        'ImplWsReadTimeout': 'TRUE' if impl == 'async' else 'FALSE',
        'ImplJoinLatch': 'TRUE' if impl == 'async' else 'FALSE',
        'Deviations': '{' + ', '.join('"%s"' % d for d in sorted(deviations)) + '}',
        'Horizon': 100000000,
        'Transports': '{' + ', '.join('"%s"' % t for t in (cfg.get('transports') or
                                                           ['polling', 'websocket'])) + '}',
        'Alpha': '{}', 'MaxQ': 0, 'MaxReq': 0, 'MaxPings': 0, 'MaxEv': 0, 'EnvAnytime': 'FALSE',
        'BodyProfile': '"none"', 'FrameProfile': '"none"',
    }


def validate(traces, impl, cfg, nslots, deviations=(), invariants=(), wd=None, workers=None):
    consts = constants_for(impl, cfg, nslots, deviations)
    return tracecheck.validate('EioServerTrace', traces, constants=consts,
                               invariants=invariants, wd=wd, workers=workers)


def diagnose(trace, impl, cfg, nslots, deviations=()):
    """Re-run one rejected trace printing every reached state; returns (last line matched,
    candidate spec states at the point of failure, expected snapshot)."""
    consts = constants_for(impl, cfg, nslots, deviations)
    wd = tlc.workdir('diag-')
    import os
    path = os.path.join(wd, 'one.json')
    with open(path, 'w') as f:
        json.dump([trace], f)
    cfgtxt = tlc.cfg_text(spec='TraceSpec', constants=consts, constraints=['DiagPrint'])
    r = tlc.run('EioServerTrace', cfgtxt, wd=wd, workers=1, env={'TRACE_FILE': path})
    states = _extract_diag(r.out)
    if not states:
        return {'error': r.out[-2000:]}
    maxl = max(s[1] for s in states)
    cands = [s for s in states if s[1] == maxl]
    # maxl = index of the next line to consume; lines < maxl-1 are matched; the step
    # trace[maxl-1] was taken; its snapshot is what no state could match
    exp = trace[maxl - 2]['st'] if maxl >= 2 else None
    nxt = trace[maxl - 1] if maxl - 1 < len(trace) else None
    return {'stuck_after_line': maxl - 1, 'line': trace[maxl - 2] if maxl >= 2 else None,
            'next_line': {'ev': nxt['ev'], 'a': nxt['a']} if nxt else None,
            'expected': exp, 'candidates': cands[:12], 'tlc_tail': r.out[-600:]}


def _extract_diag(txt):
    states = []
    i = 0
    while True:
        i = txt.find('<< "DIAG"', i)
        if i < 0:
            break
        depth = 0
        j = i
        while j < len(txt):
            if txt.startswith('<<', j):
                depth += 1
                j += 2
                continue
            if txt.startswith('>>', j):
                depth -= 1
                j += 2
                if depth == 0:
                    break
                continue
            if txt[j] == '"':
                j = txt.index('"', j + 1) + 1
                continue
            j += 1
        try:
            states.append(tlc.parse_tla_value(txt[i:j]))
        except Exception as e:
            states.append(['DIAG', -1, 'unparsed: %r' % e, txt[i:i + 200]])
        i = j
    return states
