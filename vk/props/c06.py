"""C06 - WebSocket upgrade completes only via the probe handshake; failure is harmless."""
import itertools

from . import core
from ..common import Check

INVS = ['TypeOK', 'C06_UpgradingOnlyDuringHandshake', 'C06_NeverBothFlags',
        'C06_WsOnlyIfAvailable', 'C06_UpgradedOnlyViaHandshake', 'C06_TransportAllowed',
        'C03_Retrievable', 'C03_InOrderOnce', 'C03_NoLoss', 'C05_EventShape']


def run(tier):
    ck = Check('C06', tier)
    th = tier == 'thorough'
    A = core.alpha
    jobs = [
        dict(name='handshake: every frame sequence, drop at every point, concurrent polls + sends',
             consts=core.consts(Alpha=A('open', 'poll', 'send', 'upgrade', 'wsio'),
                                FrameProfile='"all"', MaxMsg=2, MaxReq=6 if th else 5, MaxQ=5, MaxEv=2),
             invariants=INVS, min_states=1000),
        dict(name='handshake under the clock (heartbeat, poll timeout during upgrade)',
             consts=core.consts(Alpha=A('open', 'poll', 'send', 'upgrade', 'wsio', 'tick'),
                                FrameProfile='"handshake"', MaxMsg=1, Horizon=5, MaxReq=5, MaxQ=5,
                                MaxEv=2),
             invariants=INVS, min_states=1000),
        dict(name='websocket not available in the async mode',
             consts=core.consts(Alpha=A('open', 'openws', 'upgrade', 'poll', 'send'),
                                WsAvailable='FALSE', MaxReq=5),
             invariants=INVS, min_states=20),
        dict(name='transports = {polling}', consts=core.consts(
            Alpha=A('open', 'openws', 'upgrade', 'poll', 'send'), Transports='{"polling"}',
            MaxReq=5), invariants=INVS, min_states=20),
        dict(name='transports = {websocket}', consts=core.consts(
            Alpha=A('open', 'openws', 'upgrade', 'poll', 'send', 'wsio'), Transports='{"websocket"}',
            FrameProfile='"steady"', MaxReq=4, MaxEv=3), invariants=INVS, min_states=20),
        dict(name='NEG asyncio: socket closes before the probe (F8)',
             consts=core.consts(Alpha=A('open', 'upgrade', 'wsio'), FrameProfile='"handshake"',
                                MaxReq=3, Deviations='{"AsyncProbeVanishLeavesUpgrading"}'),
             invariants=['C06_UpgradingOnlyDuringHandshakeRaw'],
             expect='C06_UpgradingOnlyDuringHandshakeRaw'),
        dict(name='NEG garbage frame during the handshake (F12)',
             consts=core.consts(Alpha=A('open', 'upgrade', 'wsio'), FrameProfile='"all"',
                                MaxReq=3, Deviations='{"HandshakeGarbageLeavesUpgrading"}'),
             invariants=['C06_UpgradingOnlyDuringHandshakeRaw'],
             expect='C06_UpgradingOnlyDuringHandshakeRaw'),
    ]
    core.run_tlc_jobs(ck, jobs)

    seed = ck.seed
    plans = []
    hs = handshake_scripts(3 if th else 2)
    n = 300 if th else 100
    w = {'upgrade': 6, 'wsframe': 14, 'wsdrop': 3, 'poll': 6, 'send': 6, 'post': 2, 'openws': 1}
    for impl in ('sync', 'async'):
        plans.append(dict(what='every frame sequence of length <= %d on the upgrade socket, then '
                               'drop / poll / retry' % (3 if th else 2), impl=impl,
                          cfg={'ping_interval': 8, 'ping_timeout': 4}, nslots=1, scripts=hs))
        plans.append(dict(what='random upgrade attempts with concurrent polls and sends', impl=impl,
                          cfg={'ping_interval': 8, 'ping_timeout': 4}, nslots=2,
                          scripts=core.random_scripts(seed + 1, n, 30, 2, w, tstep=(1, 6))))
        for extra, what in (({'ws_available': False}, 'websocket unavailable'),
                            ({'transports': ['polling']}, "transports=['polling']"),
                            ({'transports': ['websocket']}, "transports=['websocket']"),
                            ({'allow_upgrades': False}, 'allow_upgrades=False')):
            cfg = {'ping_interval': 8, 'ping_timeout': 4}
            cfg.update(extra)
            plans.append(dict(what='random, ' + what, impl=impl, cfg=cfg, nslots=2,
                              scripts=core.random_scripts(seed + 2, n // 2, 20, 2, w)))
    core.conform(ck, plans, invariants=core.STATE_INVS + ['C06_UpgradedOnlyViaHandshake',
                                                          'C06_TransportAllowed'])
    # the handshake at one primitive per step, every flag write a step of its own, under every
    # thread schedule (EioQueueFineUp)
    core.l2_upgrade(ck, th, seed)
    ck.cov['rule'] = ('case = one environment script on one implementation/configuration; distinct by '
                      'recorded action sequence; the handshake family enumerates frame sequences '
                      'exhaustively up to the stated length over 11 frame classes')
    ck.assume('one upgrade socket per session at a time (a second concurrent handshake on the same '
              'session is outside the environment model)')
    ck.assume('allow_upgrades=False only removes websocket from the advertised upgrades; the server '
              'still accepts an upgrade request (the statement\'s last sentence concerns disallowed '
              'transports) - modelled as coded')
    return ck.finish()


FR = ['PINGprobe', 'UPGRADE', 'PONG', 'm1', 'CLOSE', 'BAD7', 'OVERSIZE', 'EMPTY', 'GARBAGE',
      'PINGx', 'm3']


def handshake_scripts(maxlen):
    out = []
    for L in range(0, maxlen + 1):
        for seq in itertools.product(FR, repeat=L):
            for tail in ('drop', 'none'):
                sc = [{'op': 'open'}, {'op': 'send', 's': 1}, {'op': 'poll', 's': 1},
                      {'op': 'poll', 's': 1}, {'op': 'upgrade', 's': 1}, {'op': 'send', 's': 1}]
                for f in seq:
                    sc.append({'op': 'wsframe', 's': 1, 'f': f})
                if tail == 'drop':
                    sc.append({'op': 'wsdrop', 's': 1})
                sc += [{'op': 'send', 's': 1}, {'op': 'poll', 's': 1}, {'op': 'upgrade', 's': 1},
                       {'op': 'wsframe', 's': 1, 'f': 'PINGprobe'}, {'op': 'poll', 's': 1},
                       {'op': 'wsframe', 's': 1, 'f': 'UPGRADE'}, {'op': 'send', 's': 1},
                       {'op': 'upgrade', 's': 1}, {'op': 'poll', 's': 1}]
                out.append(sc)
    return out


def replay(path):
    return core.replay_server_trace('C06', path)
