------------------------------- MODULE EioSystem -------------------------------
(***************************************************************************)
(* One Engine.IO client of this package talking to one server of this      *)
(* package: the protocol between them, at the grain of one request,        *)
(* response, frame or handled packet per step.  It composes the message    *)
(* paths of EioServer (queue, poll drain, POST decode, websocket reader    *)
(* and writer, probe/upgrade handshake, close) and of EioClient (connect   *)
(* with synchronous upgrade attempt, write loop batching, read loops,      *)
(* disconnect), leaving out time: heartbeats are PING/PONG exchanges the   *)
(* server may start whenever the previous one was answered.                *)
(*                                                                         *)
(* The four numbers that make the design safe or unsafe are constants:     *)
(*   CBatch  packets the client puts in one POST                           *)
(*   SLimit  packets the server's payload decoder accepts                  *)
(*   SBatch  packets the server puts in one poll response                  *)
(*   CLimit  packets the client's payload decoder accepts                  *)
(* The code has 16 for all four (after the repairs of F2 / F2b); the       *)
(* model checks the contract EioE2E for CBatch <= SLimit and               *)
(* SBatch <= CLimit and exhibits the loss of the connection otherwise.     *)
(***************************************************************************)
EXTENDS Naturals, Sequences, TLC

CONSTANTS
    MaxMsg,       \* messages each side may send
    MaxPing,      \* heartbeats the server may start
    CBatch, SLimit, SBatch, CLimit,
    Mode,         \* "polling" | "upgrade" (open on polling, then upgrade) | "websocket" (direct)
    CountPings,   \* BOOLEAN: FALSE = heartbeats are not counted (MaxPing is ignored)
    Flush,        \* BOOLEAN: the client's write loop still sends what disconnect() queued when
                  \* it was busy with a POST (TRUE in the code since the repair of F25)
    AllowDisc     \* subset of {"client", "server"}: who may call disconnect()

VARIABLES
    C,      \* client: [ph, tr, q, inbox, recv, sent, up, conns, discs]
    S,      \* server session: [ph, tr, q, inbox, recv, sent, up, conns, discs, pings, pingwait]
    get,    \* the client's GET: [st |-> "none"] | [st |-> "req", kind] | [st |-> "resp", code, body]
    post,   \* the client's POST: [st |-> "none"] | [st |-> "req", body] | [st |-> "proc"]
            \*                    | [st |-> "resp", code]
    c2s,    \* websocket frames client -> server, FIFO
    s2c     \* websocket frames server -> client, FIFO
vars == <<C, S, get, post, c2s, s2c>>

Msg(n) == [t |-> "MSG", n |-> n]
Ctl(t) == [t |-> t, n |-> 0]
None == [st |-> "none"]

Take(q, k) == SubSeq(q, 1, IF Len(q) < k THEN Len(q) ELSE k)
Drop(q, k) == SubSeq(q, (IF Len(q) < k THEN Len(q) ELSE k) + 1, Len(q))

Init ==
    /\ C = [ph |-> "idle", tr |-> "polling", q |-> <<>>, inbox |-> <<>>, recv |-> <<>>, sent |-> 0,
            up |-> FALSE, conns |-> 0, discs |-> 0]
    /\ S = [ph |-> "none", tr |-> "polling", q |-> <<>>, inbox |-> <<>>, recv |-> <<>>, sent |-> 0,
            up |-> FALSE, conns |-> 0, discs |-> 0, pings |-> 0, pingwait |-> FALSE]
    /\ get = None /\ post = None /\ c2s = <<>> /\ s2c = <<>>

(* ---- what each side does with one packet ---- *)

\* client: the connection is over (CLOSE received, transport failed, payload refused)
CAbort(c) == [c EXCEPT !.ph = "closed", !.up = FALSE, !.inbox = <<>>,
                       !.discs = IF c.up THEN @ + 1 ELSE @]
CHandle(c, p) ==
    IF c.ph \notin {"up", "closing0"} THEN c     \* read loops have stopped
    ELSE CASE p.t = "MSG"   -> [c EXCEPT !.recv = Append(@, p.n)]
           [] p.t = "PING"  -> [c EXCEPT !.q = Append(@, Ctl("PONG"))]
           [] p.t = "CLOSE" -> CAbort(c)
           [] OTHER         -> c                \* NOOP, stray PONG

\* server: close of the session (disconnect event; CLOSE queued unless the peer asked)
SClose(s, abort) == [s EXCEPT !.ph = "closed", !.up = FALSE, !.inbox = <<>>,
                              !.discs = IF s.up THEN @ + 1 ELSE @,
                              !.q = IF abort THEN @ ELSE Append(@, Ctl("CLOSE"))]
SHandle(s, p) ==
    IF s.ph = "closed" THEN s                   \* nothing after the disconnect event
    ELSE CASE p.t = "MSG"   -> [s EXCEPT !.recv = Append(@, p.n)]
           [] p.t = "PONG"  -> [s EXCEPT !.pingwait = FALSE]
           [] p.t = "CLOSE" -> SClose(s, TRUE)
           [] OTHER         -> s

(* ---- application calls ---- *)
CSend == /\ C.up /\ C.sent < MaxMsg
         /\ C' = [C EXCEPT !.sent = @ + 1, !.q = Append(@, Msg(C.sent + 1))]
         /\ UNCHANGED <<S, get, post, c2s, s2c>>
SSend == /\ S.up /\ S.sent < MaxMsg
         /\ S' = [S EXCEPT !.sent = @ + 1, !.q = Append(@, Msg(S.sent + 1))]
         /\ UNCHANGED <<C, get, post, c2s, s2c>>
\* client.disconnect(): CLOSE is queued behind what is already there (the state is still
\* 'connected': "closing0"); then the state changes and the disconnect event fires (CDiscEvent)
\* - the write loop may have run in between.  On websocket disconnect() then closes the socket:
\* what the write loop had not sent by then is lost (CWsCloseDrop).
\* (callable once connect() has returned, i.e. after the upgrade attempt)
CDisconnect == /\ "client" \in AllowDisc /\ C.up /\ C.ph = "up" /\ C.tr \in {"polling", "websocket"}
               /\ C' = [C EXCEPT !.q = Append(@, Ctl("CLOSE")), !.ph = "closing0"]
               /\ UNCHANGED <<S, get, post, c2s, s2c>>
CDiscEvent == /\ C.ph = "closing0"
              /\ C' = [C EXCEPT !.up = FALSE, !.discs = @ + 1, !.ph = "closing", !.inbox = <<>>]
              /\ UNCHANGED <<S, get, post, c2s, s2c>>
CFinish == /\ C.ph = "closing" /\ C.q = <<>> /\ post.st = "none"
           /\ C' = [C EXCEPT !.ph = "closed"]
           /\ UNCHANGED <<S, get, post, c2s, s2c>>
CWsCloseDrop == /\ C.ph = "closing" /\ C.tr = "websocket" /\ C.q # <<>>
                /\ C' = [C EXCEPT !.q = <<>>, !.ph = "closed"]
                /\ UNCHANGED <<S, get, post, c2s, s2c>>
SDisconnect == /\ "server" \in AllowDisc /\ S.up /\ get # [st |-> "req", kind |-> "opened"]
               /\ S' = SClose(S, FALSE)
               /\ UNCHANGED <<C, get, post, c2s, s2c>>
\* the server's heartbeat: one PING outstanding at a time
SPing == /\ S.up /\ ~S.pingwait /\ (CountPings => S.pings < MaxPing)
         /\ S' = [S EXCEPT !.q = Append(@, Ctl("PING")), !.pingwait = TRUE,
                           !.pings = IF CountPings THEN @ + 1 ELSE @]
         /\ UNCHANGED <<C, get, post, c2s, s2c>>

(* ---- opening ---- *)
COpenReq == /\ Mode # "websocket" /\ C.ph = "idle" /\ get = None
            /\ get' = [st |-> "req", kind |-> "open"]
            /\ C' = [C EXCEPT !.ph = "opening"]
            /\ UNCHANGED <<S, post, c2s, s2c>>
\* _handle_connect: OPEN is queued, then the connect handler runs (it may send), ...
SOpen == /\ get = [st |-> "req", kind |-> "open"] /\ S.ph = "none"
         /\ S' = [S EXCEPT !.ph = "up", !.up = TRUE, !.conns = 1, !.q = <<Ctl("OPEN")>>]
         /\ get' = [st |-> "req", kind |-> "opened"]
         /\ UNCHANGED <<C, post, c2s, s2c>>
\* ... then the response carries what the queue holds, up to the cap
SOpenResp == /\ get = [st |-> "req", kind |-> "opened"]
             /\ get' = [st |-> "resp", code |-> 200, body |-> Take(S.q, SBatch)]
             /\ S' = [S EXCEPT !.q = Drop(@, SBatch)]
             /\ UNCHANGED <<C, post, c2s, s2c>>
\* the client takes OPEN (connect event), queues the rest of the payload for handling
COpened == /\ C.ph = "opening" /\ get.st = "resp"
           /\ IF get.code = 200 /\ Len(get.body) <= CLimit /\ get.body # <<>> /\ get.body[1].t = "OPEN"
              THEN C' = [C EXCEPT !.ph = "up", !.up = TRUE, !.conns = 1, !.inbox = Tail(get.body),
                                  !.tr = IF Mode = "upgrade" THEN "probe0" ELSE "polling"]
              ELSE C' = [C EXCEPT !.ph = "closed"]         \* connect() raises; no events
           /\ get' = None
           /\ UNCHANGED <<S, post, c2s, s2c>>

\* websocket-only connection: the handshake request, then OPEN as the first frame; what the
\* connect handler sent follows through the writer
CWsOpenReq == /\ Mode = "websocket" /\ C.ph = "idle"
              /\ c2s' = Append(c2s, Ctl("WSOPEN"))
              /\ C' = [C EXCEPT !.ph = "opening", !.tr = "websocket"]
              /\ UNCHANGED <<S, get, post, s2c>>
SWsOpen == /\ S.ph = "none" /\ c2s # <<>> /\ Head(c2s).t = "WSOPEN"
           /\ c2s' = Tail(c2s)
           /\ S' = [S EXCEPT !.ph = "up", !.up = TRUE, !.conns = 1, !.tr = "websocket",
                             !.q = <<Ctl("OPEN")>>]
           /\ UNCHANGED <<C, get, post, s2c>>
COpenedWs == /\ C.ph = "opening" /\ C.tr = "websocket" /\ s2c # <<>>
             /\ s2c' = Tail(s2c)
             /\ C' = IF Head(s2c).t = "OPEN" THEN [C EXCEPT !.ph = "up", !.up = TRUE, !.conns = 1]
                     ELSE [C EXCEPT !.ph = "closed"]
             /\ UNCHANGED <<S, get, post, c2s>>

\* one packet of a received payload is handled
CProc == /\ C.inbox # <<>>
         /\ C' = LET c1 == CHandle([C EXCEPT !.inbox = Tail(@)], Head(C.inbox)) IN c1
         /\ UNCHANGED <<S, get, post, c2s, s2c>>
SProc == /\ S.inbox # <<>>
         /\ S' = SHandle([S EXCEPT !.inbox = Tail(@)], Head(S.inbox))
         /\ UNCHANGED <<C, get, post, c2s, s2c>>

(* ---- upgrade: attempted synchronously inside connect(), before the loops start ---- *)
\* tr: "probe0" (about to probe) -> "probing" -> "websocket", or back to "polling" on failure
CProbe == /\ C.ph = "up" /\ C.tr = "probe0" /\ C.inbox = <<>>
          /\ c2s' = Append(c2s, Ctl("PINGp"))
          /\ C' = [C EXCEPT !.tr = "probing"]
          /\ UNCHANGED <<S, get, post, s2c>>
\* the server answers the probe, marks the session upgrading and releases a pending poll
SProbe == /\ S.ph = "up" /\ S.tr = "polling" /\ c2s # <<>> /\ Head(c2s).t = "PINGp"
          /\ c2s' = Tail(c2s)
          /\ s2c' = Append(s2c, Ctl("PONGp"))
          /\ S' = [S EXCEPT !.tr = "upging", !.q = Append(@, Ctl("NOOP"))]
          /\ UNCHANGED <<C, get, post>>
CProbed == /\ C.ph = "up" /\ C.tr = "probing" /\ s2c # <<>> /\ Head(s2c).t = "PONGp"
           /\ s2c' = Tail(s2c)
           /\ c2s' = Append(c2s, Ctl("UPGRADE"))
           /\ C' = [C EXCEPT !.tr = "websocket"]
           /\ UNCHANGED <<S, get, post>>
SUpgraded == /\ S.ph = "up" /\ S.tr = "upging" /\ c2s # <<>> /\ Head(c2s).t = "UPGRADE"
             /\ c2s' = Tail(c2s)
             /\ S' = [S EXCEPT !.tr = "websocket"]
             /\ UNCHANGED <<C, get, post, s2c>>
\* the server closed meanwhile: the probe goes unanswered, the client stays on polling
CProbeFail == /\ C.ph = "up" /\ C.tr = "probing" /\ S.ph = "closed" /\ s2c = <<>>
              /\ C' = [C EXCEPT !.tr = "polling"]
              /\ c2s' = <<>>
              /\ UNCHANGED <<S, get, post, s2c>>

(* ---- polling transport ---- *)
CPolling == C.tr = "polling" /\ C.inbox = <<>>
CPollReq == /\ C.ph \in {"up", "closing0"} /\ CPolling /\ get = None
            /\ get' = [st |-> "req", kind |-> "poll"]
            /\ UNCHANGED <<C, S, post, c2s, s2c>>
\* the server receives the GET: a session that is closed by now is refused (400) whatever is
\* still queued for it - what was sent just before a server-side disconnect() and not collected
\* by a poll already waiting is never delivered (the root of finding F6)
SPollAdmit ==
    /\ get = [st |-> "req", kind |-> "poll"]
    /\ get' = IF S.ph = "up" THEN [st |-> "req", kind |-> "polladm"]
              ELSE [st |-> "resp", code |-> 400, body |-> <<>>]
    /\ UNCHANGED <<C, S, post, c2s, s2c>>
\* a waiting poll is answered with what the queue holds (up to the cap); when the session was
\* closed under it and nothing is queued, the sentinel releases it with an empty payload
SPollAnswer ==
    /\ get = [st |-> "req", kind |-> "polladm"]
    /\ \/ /\ S.q # <<>> /\ S.tr \in {"polling", "upging"}
          /\ get' = [st |-> "resp", code |-> 200, body |-> Take(S.q, SBatch)]
          /\ S' = [S EXCEPT !.q = Drop(@, SBatch)]
       \/ /\ S.q = <<>> /\ S.ph = "closed"
          /\ get' = [st |-> "resp", code |-> 200, body |-> <<>>]
          /\ UNCHANGED S
    /\ UNCHANGED <<C, post, c2s, s2c>>
CPollRecv == /\ get.st = "resp" /\ C.ph # "opening"
             /\ get' = None
             /\ IF C.ph \notin {"up", "closing0"} THEN UNCHANGED C
                ELSE IF get.code # 200 \/ Len(get.body) > CLimit THEN C' = CAbort(C)
                ELSE C' = [C EXCEPT !.inbox = get.body]
             /\ UNCHANGED <<S, post, c2s, s2c>>
\* write loop: up to CBatch queued packets in one POST; one POST at a time
CPost == /\ C.ph \in {"up", "closing0", "closing"} /\ C.tr = "polling" /\ post = None /\ C.q # <<>>
         /\ post' = [st |-> "req", body |-> Take(C.q, CBatch)]
         /\ C' = [C EXCEPT !.q = Drop(@, CBatch)]
         /\ UNCHANGED <<S, get, c2s, s2c>>
\* the server decodes the payload: too many packets -> refused, and the session is closed
SPostRecv == /\ post.st = "req"
             /\ IF S.ph # "up" THEN post' = [st |-> "resp", code |-> 400] /\ UNCHANGED S
                ELSE IF Len(post.body) > SLimit
                THEN post' = [st |-> "resp", code |-> 400] /\ S' = SClose(S, FALSE)
                ELSE post' = [st |-> "proc"] /\ S' = [S EXCEPT !.inbox = post.body]
             /\ UNCHANGED <<C, get, c2s, s2c>>
SPostDone == /\ post.st = "proc" /\ S.inbox = <<>>
             /\ post' = [st |-> "resp", code |-> 200]
             /\ UNCHANGED <<C, S, get, c2s, s2c>>
CPostDone == /\ post.st = "resp"
             /\ post' = None
             /\ C' = IF post.code # 200 /\ C.ph \in {"up", "closing0"} THEN CAbort(C)
                     ELSE IF C.ph = "closing" /\ (C.q = <<>> \/ ~Flush)
                     THEN [C EXCEPT !.ph = "closed", !.q = <<>>]
                     ELSE C
             /\ UNCHANGED <<S, get, c2s, s2c>>

(* ---- websocket transport ---- *)
CWsWrite == /\ C.ph \in {"up", "closing0", "closing"} /\ C.tr = "websocket" /\ C.q # <<>>
            /\ c2s' = Append(c2s, Head(C.q))
            /\ C' = LET c1 == [C EXCEPT !.q = Tail(@)]
                    IN IF c1.ph = "closing" /\ c1.q = <<>> THEN [c1 EXCEPT !.ph = "closed"] ELSE c1
            /\ UNCHANGED <<S, get, post, s2c>>
SWsRecv == /\ S.tr = "websocket" /\ c2s # <<>> /\ S.inbox = <<>>
           /\ c2s' = Tail(c2s)
           /\ S' = SHandle(S, Head(c2s))
           /\ UNCHANGED <<C, get, post, s2c>>
SWsWrite == /\ S.tr = "websocket" /\ S.q # <<>>
            /\ s2c' = Append(s2c, Head(S.q))
            /\ S' = [S EXCEPT !.q = Tail(@)]
            /\ UNCHANGED <<C, get, post, c2s>>
CWsRecv == /\ C.tr = "websocket" /\ C.ph # "opening" /\ s2c # <<>> /\ C.inbox = <<>>
           /\ s2c' = Tail(s2c)
           /\ C' = CHandle(C, Head(s2c))
           /\ UNCHANGED <<S, get, post, c2s>>
\* each side notices the websocket closing under it once everything sent before was read
CWsGone == /\ C.ph \in {"up", "closing0"} /\ C.tr = "websocket" /\ S.ph = "closed" /\ s2c = <<>>
           /\ (S.q = <<>> \/ S.tr # "websocket")
           /\ C' = CAbort(C)
           /\ UNCHANGED <<S, get, post, c2s, s2c>>
SWsGone == /\ S.ph = "up" /\ S.tr \in {"websocket", "upging"} /\ C.ph = "closed" /\ c2s = <<>>
           /\ S' = SClose(S, TRUE)
           /\ UNCHANGED <<C, get, post, c2s, s2c>>

Internal ==
    \/ SOpen \/ SOpenResp \/ COpened \/ SWsOpen \/ COpenedWs \/ CProc \/ SProc
    \/ CProbe \/ SProbe \/ CProbed \/ SUpgraded \/ CProbeFail
    \/ CPollReq \/ SPollAdmit \/ SPollAnswer \/ CPollRecv \/ CPost \/ SPostRecv \/ SPostDone \/ CPostDone
    \/ CWsWrite \/ SWsRecv \/ SWsWrite \/ CWsRecv \/ CWsGone \/ SWsGone
    \/ CDiscEvent \/ CFinish \/ CWsCloseDrop
Env == COpenReq \/ CWsOpenReq \/ CSend \/ SSend \/ CDisconnect \/ SDisconnect \/ SPing
Next == Internal \/ Env
Spec == Init /\ [][Next]_vars
\* liveness is checked under weak fairness of the protocol's own steps
FairSpec == Spec /\ WF_vars(Internal)

(* ---- the contract EioE2E is implemented ---- *)
Last(q) == IF q = <<>> THEN 0 ELSE q[Len(q)]
E2E == INSTANCE EioE2E WITH csent <- C.sent, ssent <- S.sent, crecv <- Last(C.recv),
                            srecv <- Last(S.recv), cup <- C.up, sup <- S.up,
                            cconns <- C.conns, sconns <- S.conns, cdiscs <- C.discs,
                            sdiscs <- S.discs
ImplementsE2E == E2E!Spec

TypeOK ==
    /\ C.ph \in {"idle", "opening", "up", "closing0", "closing", "closed"}
    /\ C.tr \in {"polling", "probe0", "probing", "websocket"}
    /\ S.ph \in {"none", "up", "closed"}
    /\ S.tr \in {"polling", "upging", "websocket"}
    /\ get.st \in {"none", "req", "resp"} /\ post.st \in {"none", "req", "proc", "resp"}

\* each side receives 1, 2, 3, ... : in order, once, nothing skipped
InOrderOnce == /\ \A i \in 1..Len(C.recv) : C.recv[i] = i
               /\ \A i \in 1..Len(S.recv) : S.recv[i] = i
\* the polling idle state of a connection: a GET waiting at the server is the only thing pending
Quiescent == ~ENABLED Internal
NoLoss == (Quiescent /\ C.up /\ S.up) => (Len(C.recv) = S.sent /\ Len(S.recv) = C.sent)
\* nobody ends the connection unasked
NoSpontaneousEnd == (AllowDisc = {}) => (C.discs = 0 /\ S.discs = 0 /\ C.ph # "closed")
\* a disconnect by one side is seen, once, by the other
BothSeeDisconnect == (Quiescent /\ C.conns = 1 /\ C.discs + S.discs > 0) => (C.discs = 1 /\ S.discs = 1)
TransportAgreed == (Quiescent /\ C.up /\ S.up) =>
                       (C.tr = S.tr \/ (C.tr = "polling" /\ S.tr = "polling"))
\* liveness: every message sent on a connection that stays up is delivered
EventuallyDelivered ==
    /\ \A n \in 1..MaxMsg : (C.sent >= n) ~> (Len(S.recv) >= n \/ ~C.up \/ ~S.up)
    /\ \A n \in 1..MaxMsg : (S.sent >= n) ~> (Len(C.recv) >= n \/ ~C.up \/ ~S.up)

Bound == Len(C.q) <= MaxMsg + MaxPing + 1 /\ Len(S.q) <= MaxMsg + MaxPing + 3
=============================================================================
