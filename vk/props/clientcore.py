"""Shared machinery of the client checks (C08, C09): TLC jobs on MC_EioClient, conformance of
real Client / AsyncClient executions (scripted server) against EioClient."""
import concurrent.futures as cf
import json
import random

from .. import tlc
from .. import tracecheck
from ..common import MachineryError, NCPU, load_known_findings
from ..harness import cdriver, clientcheck

INVS = ['TypeOK', 'C08_OneDisconnectPerConnect', 'C08_ConnectedHasOpenCycle', 'C08_CleanAfter',
        'C08_ConnectedConsistent', 'C08_TasksEnd', 'C08_NoTaskStuck', 'C08_NothingReceivedAfterEnd',
        'C08_NothingLeftQueuedRaw', 'C09_RxOnceInOrder', 'C09_TxOnceInOrder', 'C09_WsOnlyAfterProbe']
TRACE_INVS = ['TypeOK', 'C08_OneDisconnectPerConnect', 'C08_ConnectedHasOpenCycle',
              'C08_CleanAfter', 'C08_ConnectedConsistent', 'C08_TasksEnd', 'C08_NoTaskStuck',
              'C08_NothingReceivedAfterEnd', 'C09_RxOnceInOrder']

BASE = dict(RT=3, Grace=2, ImplWsProbeTimeout='TRUE', ImplWsSetTimeout='TRUE', ConnectDisconnects='FALSE',
            MsgDisconnects='FALSE', Deviations='{}',
            Horizon=8, Alpha='{}', MaxReq=5, MaxEv=4, MaxSend=2, PI=2, PT=1, Profile='"small"',
            MaxCycles=1)


def consts(**kw):
    c = dict(BASE)
    c.update(kw)
    return c


def alpha(*names):
    return '{' + ', '.join('"%s"' % n for n in names) + '}'


def run_tlc_jobs(ck, jobs, par=4, timeout=1500):
    def one(j):
        cfg = tlc.cfg_text(spec='MSpec', constants=j['consts'], constraints=['Bound'], view='View',
                           invariants=j.get('invariants', INVS))
        return j, tlc.run('MC_EioClient', cfg, workers=max(2, NCPU // par), timeout=timeout,
                          constants=j['consts'])
    with cf.ThreadPoolExecutor(max_workers=par) as ex:
        for j, r in ex.map(one, jobs):
            if r.error:
                raise MachineryError('TLC job %s failed: %s\n%s' % (j['name'], r.error, r.out[-2500:]))
            ck.add_tlc(r, j['name'])
            exp = j.get('expect')
            if exp:
                if r.violated != exp:
                    raise MachineryError('negative control %s: expected %s violated, got %r' % (
                        j['name'], exp, r.violated))
                ck.cov.setdefault('negative_controls', []).append(
                    '%s: %s violated as expected' % (j['name'], exp))
            elif r.violated:
                ck.violation('TLC: %s violated in model %s' % (r.violated, j['name']),
                             {'job': j['name'], 'constants': j['consts'],
                              'counterexample': '\n'.join(r.trace)[-8000:]})
            elif r.distinct < j.get('min_states', 200):
                raise MachineryError('vacuity: model %s has only %d states' % (j['name'], r.distinct))


def conform(ck, plans, par=4):
    """plans: dict(what, impl, cfg, scripts).  Returns [(plan, traces, facts, verdict)]."""
    done = []
    for p in plans:
        traces, facts = [], []
        for k, sc in enumerate(p['scripts']):
            if p.get('preempt') is not None:
                # the threaded client under a pre-emptive seeded schedule (task switches inside
                # blocks); snapshots marked "relax" (outputs compared as a bag)
                ssd = p['preempt'] * 100003 + k
                lines, f = cdriver.run_script(p['impl'], p['cfg'], sc, seed=ssd, preempt=True)
                f['schedule_seed'] = ssd
                for ln in lines:
                    ln['st']['relax'] = True
            else:
                lines, f = cdriver.run_script(p['impl'], p['cfg'], sc)
            f['script'] = sc
            traces.append(lines)
            facts.append(f)
        done.append([p, traces, facts, None])

    def val(item):
        p, traces, facts, _ = item
        return clientcheck.validate(traces, p['impl'], facts[0]['cfg'] if facts else {},
                                    invariants=TRACE_INVS, workers=max(2, NCPU // par))
    with cf.ThreadPoolExecutor(max_workers=par) as ex:
        for item, v in zip(done, ex.map(val, done)):
            item[3] = v
    for p, traces, facts, v in done:
        ck.cov['states'] += v.states
        ck.cov['transitions'] += v.generated
        ck.add_conformance(p['what'], len(traces), len(v.accepted), impl=p['impl'],
                           trace_lines=sum(len(t) for t in traces), rejected=len(v.rejected))
        for t in traces:
            ck.distinct([[ln['ev'], ln['a']] for ln in t])
        rejected = list(v.rejected)
        if p.get('preempt') is not None and rejected:
            # a schedule the block-to-block specification cannot follow is judged by the
            # history contract alone
            hv = tracecheck.validate('EioClientHistory', [traces[i] for i in rejected],
                                     invariants=['CycleShape', 'StateAgrees'],
                                     properties=['AppendOnly'])
            ck.cov['schedules_outside_block_spec'] = \
                ck.cov.get('schedules_outside_block_spec', 0) + len(hv.accepted)
            for k, inv, txt in hv.inv_violations[:3]:
                i = rejected[k]
                ck.violation('client history contract %s violated under a pre-emptive schedule (%s)'
                             % (inv, p['what']),
                             {'impl': p['impl'], 'cfg': facts[i]['cfg'], 'script': facts[i]['script'],
                              'schedule_seed': facts[i].get('schedule_seed'), 'tlc': txt,
                              'kind': 'client-trace'})
            rejected = [rejected[k] for k in hv.rejected]
        for i in rejected[:3]:
            d = clientcheck.diagnose(traces[i], p['impl'], facts[i]['cfg'])
            ck.violation('client trace rejected by EioClient (%s, %s): stuck after line %s: %s' % (
                p['impl'], p['what'], d.get('stuck_after_line'),
                json.dumps({'ev': (d.get('line') or {}).get('ev'), 'a': (d.get('line') or {}).get('a'),
                            'observed': (d.get('line') or {}).get('st', {}).get('out')})[:500]),
                {'impl': p['impl'], 'cfg': facts[i]['cfg'], 'script': facts[i]['script'],
                 'schedule_seed': facts[i].get('schedule_seed'), 'diagnosis': d,
                 'kind': 'client-trace'})
        for i, inv, txt in v.inv_violations[:3]:
            ck.violation('invariant %s violated on a real client execution (%s, %s)' % (
                inv, p['impl'], p['what']),
                {'impl': p['impl'], 'cfg': facts[i]['cfg'], 'script': facts[i]['script'], 'tlc': txt,
                 'kind': 'client-trace'})
        # every application call returned (wait(), disconnect(), connect())
        for f in facts:
            stuck = [c for c in f['calls'].values() if not c['done']]
            if stuck:
                ck.violation('application call never returned (%s, %s): %r' % (p['impl'], p['what'],
                                                                                stuck),
                             {'impl': p['impl'], 'cfg': f['cfg'], 'script': f['script'],
                              'kind': 'client-trace'})
                break
        if traces and traces[0]:
            ck.sample({'impl': p['impl'], 'what': p['what'], 'script': facts[0]['script'][:8],
                       'first_lines': [{'ev': ln['ev'], 'a': ln['a'], 'out': ln['st']['out']}
                                       for ln in traces[0][:3]]}, limit=4)
    return done


def random_scripts(seed, n, length, trs=None, weights=None):
    rng = random.Random(seed)
    return [cdriver.gen_script(rng, length, trs, weights) for _ in range(n)]


def replay_client_trace(pid, path):
    with open(path) as f:
        rp = json.load(f)
    if rp.get('kind') == 'l2-client-trace':
        rp['_path'] = path
        return replay_l2_client(pid, rp)
    if rp.get('kind') in ('l2-poll-trace', 'l2-poll-schedule'):
        rp['_path'] = path
        return replay_l2_poll(pid, rp)
    if rp.get('kind') != 'client-trace':
        print(json.dumps(rp, indent=1)[:3000])
        return 1
    if rp.get('schedule_seed') is not None:
        lines, facts = cdriver.run_script(rp['impl'], rp['cfg'], rp['script'],
                                          seed=rp['schedule_seed'], preempt=True)
        for ln in lines:
            ln['st']['relax'] = True
        hv = tracecheck.validate('EioClientHistory', [lines], invariants=['CycleShape', 'StateAgrees'],
                                 properties=['AppendOnly'])
        if hv.accepted and not hv.inv_violations:
            print('replay: pre-emptive schedule satisfies the client history contract')
            return 0
    else:
        lines, facts = cdriver.run_script(rp['impl'], rp['cfg'], rp['script'])
    v = clientcheck.validate([lines], rp['impl'], facts['cfg'], invariants=TRACE_INVS)
    if v.accepted and not v.inv_violations:
        print('replay: trace accepted, all invariants hold')
        return 0
    d = clientcheck.diagnose(lines, rp['impl'], facts['cfg'])
    print(json.dumps(d, indent=1)[:5000])
    print('VIOLATION property=%s replay=%s' % (pid, path))
    return 1


# ---- L2: the threaded client at one primitive per step (EioClientFine) ------------------------

def l2_client(ck, th, seed):
    """TLC on EioClientFine (every interleaving of the application thread, the write loop, the
    read loop and the server end), then pre-emptive executions of the real threaded Client
    validated primitive by primitive.  OneDisconnect fails in the model and on some real
    schedules: known finding F27."""
    from .. import tlc
    from ..harness import l2
    opn, _ = load_known_findings(ck.pid)
    f27 = [e for e in opn if e['id'] == 'F27']
    base = dict(MaxSend=3 if th else 2, Cap=2, SrvMayClose='TRUE', Timeouts='TRUE')
    jobs = [dict(name='L2 client (websocket): application burst + disconnect(), write loop, read '
                      'loop, server end closing / disconnecting: event and frame-order invariants',
                 spec='Spec', consts=base, invariants=['TypeOK', 'AtMostOnePerCause', 'TxInOrder']),
            dict(name='L2 client liveness under fair scheduling: the three tasks end, the client is '
                      'disconnected', spec='FairSpec', consts=dict(base, MaxSend=1),
                 properties=['AllEnd']),
            dict(name='L2 client: one disconnect event per connection - expected to fail (finding '
                      'F27: disconnect() changes the state only after its two puts)',
                 spec='Spec', consts=dict(base, MaxSend=1), invariants=['OneDisconnect'], f27=True)]
    for j in jobs:
        cfg = tlc.cfg_text(spec=j['spec'], constants=j['consts'], invariants=j.get('invariants', ()),
                           properties=j.get('properties', ()))
        r = tlc.run('EioClientFine', cfg, workers=max(2, NCPU // 2), timeout=1200,
                    constants=j['consts'])
        if r.error:
            raise MachineryError('TLC job %s failed: %s\n%s' % (j['name'], r.error, r.out[-2000:]))
        ck.add_tlc(r, j['name'])
        if j.get('f27'):
            txt = '\n'.join(r.trace)
            if r.violated and f27 and '"client"' in txt.split('/\\ ev = ')[-1][:60]:
                ck.known_finding('F27', f27[0]['what'])
                ck.cov.setdefault('known_finding_counterexamples', []).append(
                    {'model': j['name'], 'length': len(r.trace)})
            elif r.violated:
                ck.violation('EioClientFine: OneDisconnect violated and the finding is not listed',
                             {'counterexample': txt[-6000:]})
            continue
        if r.violated:
            ck.violation('EioClientFine: %s violated (%s)' % (r.violated, j['name']),
                         {'job': j['name'], 'counterexample': '\n'.join(r.trace)[-8000:]})
        elif r.distinct < 500:
            raise MachineryError('vacuity: %s has only %d states' % (j['name'], r.distinct))
    n = 400 if th else 80
    groups = {}
    for i in range(n):
        k = i % 4
        t, f = l2.run_client(k, i % 3 == 0, seed=seed * 100043 + i)
        groups.setdefault(k, []).append((t, f))
        ck.distinct(['l2client', k, i % 3 == 0, f['schedule_seed']])
    nacc = ntot = nf27 = 0
    for k, items in groups.items():
        c = dict(MaxSend=k, Cap=16, SrvMayClose='TRUE', Timeouts='FALSE')
        v = tracecheck.validate('EioClientFineTrace', [x[0] for x in items], constants=c,
                                invariants=['TypeOK', 'AtMostOnePerCause', 'TxInOrder'])
        ck.cov['states'] += v.states
        ck.cov['transitions'] += v.generated
        nacc += len(v.accepted)
        ntot += len(items)
        for i in v.rejected[:3]:
            ck.violation('primitive-level client trace rejected by EioClientFine (schedule seed %s)'
                         % items[i][1]['schedule_seed'],
                         {'script': items[i][1]['script'], 'schedule_seed': items[i][1]['schedule_seed'],
                          'trace': items[i][0], 'kind': 'l2-client-trace'})
        for i, inv, txt in v.inv_violations[:3]:
            ck.violation('EioClientFine invariant %s violated on a real execution' % inv,
                         {'script': items[i][1]['script'], 'schedule_seed': items[i][1]['schedule_seed'],
                          'tlc': txt, 'kind': 'l2-client-trace'})
        for t, f in items:
            if len(t['final']['ev']) > 1:
                nf27 += 1
                if f27:
                    ck.known_finding('F27', f27[0]['what'])
                else:
                    ck.violation('two client disconnect events for one connection (schedule seed %s)'
                                 % f['schedule_seed'],
                                 {'script': f['script'], 'schedule_seed': f['schedule_seed'],
                                  'trace': t, 'kind': 'l2-client-trace'})
    # ---- spec -> code at L2: TLC schedules replayed on the real Client -----------------------
    from . import core as _core
    sc_consts = dict(MaxSend=2, Cap=16, SrvMayClose='TRUE', Timeouts='FALSE')
    cfg = tlc.cfg_text(spec='SimSpec', constants=sc_consts, constraints=['EmitSchedule'])
    r = tlc.run('EioClientFineSim', cfg, simulate='num=%d' % (600 if th else 150), depth=80,
                workers=1, seed=seed + 3, timeout=600, constants=sc_consts)
    if r.error:
        raise MachineryError('EioClientFineSim simulation failed: %s\n%s' % (r.error, r.out[-1500:]))
    ck.add_tlc(r, 'simulation of EioClientFineSim: complete behaviours with their schedules')
    seen, i, txt = {}, 0, r.out
    while True:
        i = txt.find('<< "SCHEDULE"', i)
        if i < 0:
            break
        j = _core._balanced(txt, i)
        key, i = txt[i:j], j
        if key not in seen:
            seen[key] = tlc.parse_tla_value(key)
    nrep = nsame = ntwo = 0
    for key, v in seen.items():
        sched, mev, mtx, mst = v[1], v[2], v[3], v[4]
        nrep += 1
        try:
            t, left = l2.replay_client_schedule(2, sched)
        except RuntimeError as e:
            ck.violation('the real Client cannot follow a TLC schedule of EioClientFine: %s' % e,
                         {'schedule': sched, 'kind': 'l2-client-schedule'})
            continue
        same = t['final']['ev'] == mev and t['final']['tx'] == mtx and t['final']['st'] == mst \
            and not left
        nsame += bool(same)
        if not same and nrep - nsame <= 3:
            ck.violation('under a TLC schedule the real Client ends with events %r frames %r state %s, '
                         'EioClientFine with %r %r %s' % (t['final']['ev'], t['final']['tx'],
                                                          t['final']['st'], mev, mtx, mst),
                         {'schedule': sched, 'real': t, 'kind': 'l2-client-schedule'})
        if same and len(mev) > 1:
            ntwo += 1
            if f27:
                ck.known_finding('F27', f27[0]['what'])
            else:
                ck.violation('two disconnect events under a TLC schedule', {'schedule': sched})
        ck.distinct(['l2sched', [(e['p'], e['silent']) for e in sched]])
    if nrep < 20:
        raise MachineryError('vacuity: only %d complete behaviours came out of the simulation' % nrep)
    ck.add_conformance('spec -> code at L2: complete behaviours of EioClientFine generated by TLC, '
                       'each replayed on the real threaded Client under exactly its schedule (hub in '
                       'scripted mode: a task stops after every primitive); final events, frames '
                       'and state must equal the model\'s', nrep, nsame,
                       behaviours_with_two_disconnect_events=ntwo)
    ck.cov['f27_schedules'] = nf27
    ck.add_conformance('threaded Client on websocket with a scripted server end under pre-emptive '
                       'schedules: every primitive of the send queue and of the websocket (call of '
                       'put, put, call of get, get, send, close, receive) and every task return is '
                       'one step of EioClientFine; final state, events, frames sent must match',
                       ntot, nacc)


def replay_l2_client(pid, rp):
    from ..harness import l2
    t, f = l2.run_client(rp['script']['k'], rp['script']['srv'], seed=rp['schedule_seed'])
    c = dict(MaxSend=rp['script']['k'], Cap=16, SrvMayClose='TRUE', Timeouts='FALSE')
    v = tracecheck.validate('EioClientFineTrace', [t], constants=c,
                            invariants=['TypeOK', 'AtMostOnePerCause', 'TxInOrder'])
    if v.accepted and not v.inv_violations:
        print('replay: primitive-level client trace accepted by EioClientFine; events %r'
              % t['final']['ev'])
        return 0
    print(json.dumps(t)[:4000])
    print('VIOLATION property=%s replay=%s' % (pid, rp.get('_path', '?')))
    return 1


# ---- L2: the threaded client on polling (EioClientFinePoll) -----------------------------------

POLL_INVS = ['TypeOK', 'AtMostOnePerCause', 'TxInOrder', 'NoLateMessage', 'ClearedMeansOver',
             'EndsWithEvent']


def _poll_trace_consts(k):
    return dict(MaxSend=k, Cap=16, MaxPolls=3, Payloads='<- PayloadsAll', AllowFail='TRUE',
                Timeouts='TRUE', Deviation='"none"')


def _f27_shape(ev):
    """two events, one of them the application's own disconnect (the listed signature)"""
    return len(ev) == 2 and 'client' in ev and ev[0] != ev[1]


def l2_client_poll(ck, th, seed, lifecycle=True):
    """TLC on EioClientFinePoll (application thread, write loop, read loop and a server answering
    every request as it likes), then pre-emptive executions of the real threaded Client on
    polling validated primitive by primitive, then TLC-generated schedules replayed on it.
    lifecycle=False (C09): the number of disconnect events is not judged (that is C08's business,
    finding F27); order, exactly-once and PONG conduct are."""
    from .. import tlc
    from ..harness import l2
    opn, _ = load_known_findings(ck.pid)
    f27 = [e for e in opn if e['id'] == 'F27']
    base = dict(MaxSend=3 if th else 2, Cap=2, MaxPolls=2,
                Payloads='<- PayloadsAll' if th else '<- PayloadsSmall', AllowFail='TRUE',
                Timeouts='TRUE', Deviation='"none"')
    small = dict(base, MaxSend=1, Payloads='<- PayloadsSmall')
    jobs = [dict(name='L2 client (polling): application burst + disconnect(), write loop (queue -> '
                      'POST), read loop (GET -> packets), server answering with any payload / error '
                      '/ failure: event, message and order invariants',
                 spec='Spec', consts=base, invariants=POLL_INVS),
            dict(name='L2 polling client liveness under fair scheduling: the three tasks end, the '
                      'client is disconnected', spec='FairSpec', consts=small, properties=['AllEnd']),
            dict(name='L2 polling client: with a server that answers properly the application\'s '
                      'disconnect() reaches it (CLOSE posted or the server closed first)',
                 spec='FairSpec', consts=dict(small, AllowFail='FALSE', Timeouts='FALSE'),
                 properties=['CloseReaches']),
            dict(name='L2 polling client negative control: without the per-packet state check '
                      '(the defect F24 repaired) a message event fires after the disconnect event',
                 spec='Spec', consts=dict(small, Deviation='"NoStateCheckPerPacket"'),
                 invariants=['NoLateMessage'], must_fail=True),
            dict(name='L2 polling client: one disconnect event per connection - expected to fail '
                      '(finding F27: disconnect() changes the state only after its two puts)',
                 spec='Spec', consts=small, invariants=['OneDisconnect'], f27=True)]
    if not lifecycle:
        jobs = jobs[:1]
    for j in jobs:
        cfg = tlc.cfg_text(spec=j['spec'], constants=j['consts'], invariants=j.get('invariants', ()),
                           properties=j.get('properties', ()))
        r = tlc.run('EioClientFinePoll', cfg, workers=max(2, NCPU // 2), timeout=1800,
                    constants=j['consts'])
        if r.error:
            raise MachineryError('TLC job %s failed: %s\n%s' % (j['name'], r.error, r.out[-2000:]))
        ck.add_tlc(r, j['name'])
        if j.get('must_fail'):
            if not r.violated:
                raise MachineryError('negative control did not fail: %s' % j['name'])
            continue
        if j.get('f27'):
            txt = '\n'.join(r.trace)
            last = txt.split('/\\ ev = ')[-1][:60]
            if r.violated and f27 and '"client"' in last:
                ck.known_finding('F27', f27[0]['what'])
                ck.cov.setdefault('known_finding_counterexamples', []).append(
                    {'model': j['name'], 'length': len(r.trace)})
            elif r.violated:
                ck.violation('EioClientFinePoll: OneDisconnect violated and the finding is not listed',
                             {'counterexample': txt[-6000:]})
            continue
        if r.violated:
            ck.violation('EioClientFinePoll: %s violated (%s)' % (r.violated, j['name']),
                         {'job': j['name'], 'counterexample': '\n'.join(r.trace)[-8000:]})
        elif r.distinct < 500:
            raise MachineryError('vacuity: %s has only %d states' % (j['name'], r.distinct))
    # ---- code -> spec ---------------------------------------------------------------------------
    n = 1500 if th else 300
    groups = {}
    for i in range(n):
        k = i % 4
        script = (k, 1 + i % 3, i % 4 == 0)
        t, f = l2.run_client_poll(*script, seed=seed * 100057 + i)
        groups.setdefault(k, []).append((t, f))
        ck.distinct(['l2poll', script, f['schedule_seed']])
    nacc = ntot = nf27 = 0
    for k, items in groups.items():
        v = tracecheck.validate('EioClientFinePollTrace', [x[0] for x in items],
                                constants=_poll_trace_consts(k), invariants=POLL_INVS)
        ck.cov['states'] += v.states
        ck.cov['transitions'] += v.generated
        nacc += len(v.accepted)
        ntot += len(items)
        for i in v.rejected[:3]:
            ck.violation('primitive-level polling-client trace rejected by EioClientFinePoll '
                         '(schedule seed %s)' % items[i][1]['schedule_seed'],
                         {'script': items[i][1]['script'], 'schedule_seed': items[i][1]['schedule_seed'],
                          'trace': items[i][0], 'kind': 'l2-poll-trace'})
        for i, inv, txt in v.inv_violations[:3]:
            ck.violation('EioClientFinePoll invariant %s violated on a real execution' % inv,
                         {'script': items[i][1]['script'], 'schedule_seed': items[i][1]['schedule_seed'],
                          'tlc': txt, 'kind': 'l2-poll-trace'})
        for t, f in items:
            if len(t['final']['ev']) > 1 and lifecycle:
                nf27 += 1
                if f27 and _f27_shape(t['final']['ev']):
                    ck.known_finding('F27', f27[0]['what'])
                else:
                    ck.violation('several client disconnect events for one connection: %r (schedule '
                                 'seed %s)' % (t['final']['ev'], f['schedule_seed']),
                                 {'script': f['script'], 'schedule_seed': f['schedule_seed'],
                                  'trace': t, 'kind': 'l2-poll-trace'})
    ck.cov['f27_schedules_polling'] = nf27
    ck.add_conformance('threaded Client on polling with a server task answering every request at a '
                       'random moment (payloads of NOOP / MSG / PING / CLOSE, error status, failure) '
                       'under pre-emptive schedules: every primitive of the send queue (call of put, '
                       'put, call of get, get), of the HTTP layer (request leaves, request returns), '
                       'every call of Thread.join and every task return is one step of '
                       'EioClientFinePoll; final state, events, accepted packets, message count '
                       'and queue must match', ntot, nacc)
    # ---- spec -> code ---------------------------------------------------------------------------
    from . import core as _core
    sc = dict(MaxSend=2, Cap=16, MaxPolls=2, Payloads='<- PayloadsSmall', AllowFail='TRUE',
              Timeouts='FALSE', Deviation='"none"')
    cfg = tlc.cfg_text(spec='SimSpec', constants=sc, constraints=['EmitSchedule'])
    r = tlc.run('EioClientFinePollSim', cfg, simulate='num=%d' % (800 if th else 200), depth=120,
                workers=1, seed=seed + 5, timeout=900, constants=sc)
    if r.error:
        raise MachineryError('EioClientFinePollSim simulation failed: %s\n%s' % (r.error, r.out[-1500:]))
    ck.add_tlc(r, 'simulation of EioClientFinePollSim: complete behaviours with their schedules')
    seen, i, txt = {}, 0, r.out
    while True:
        i = txt.find('<< "SCHEDULE"', i)
        if i < 0:
            break
        j = _core._balanced(txt, i)
        key, i = txt[i:j], j
        if key not in seen:
            seen[key] = tlc.parse_tla_value(key)
    nrep = nsame = ntwo = 0
    for key, v in seen.items():
        sched = v[1]
        model = {'ev': list(v[2]), 'posted': list(v[3]), 'rx': v[4], 'st': v[5], 'q': list(v[6])}
        nrep += 1
        try:
            t, left = l2.replay_client_poll_schedule(2, sched)
        except RuntimeError as e:
            ck.violation('the real Client cannot follow a TLC schedule of EioClientFinePoll: %s' % e,
                         {'schedule': sched, 'kind': 'l2-poll-schedule'})
            continue
        real = {x: t['final'][x] for x in model}
        same = real == model and not left
        nsame += bool(same)
        if not same and nrep - nsame <= 3:
            ck.violation('under a TLC schedule the real polling Client ends with %r, '
                         'EioClientFinePoll with %r (unfinished tasks: %r)' % (real, model, left),
                         {'schedule': sched, 'real': t, 'kind': 'l2-poll-schedule'})
        if same and len(model['ev']) > 1 and lifecycle:
            ntwo += 1
            if f27 and _f27_shape(model['ev']):
                ck.known_finding('F27', f27[0]['what'])
            else:
                ck.violation('several disconnect events under a TLC schedule', {'schedule': sched})
        ck.distinct(['l2pollsched', [(e['p'], e['silent'], list(e['ans'])) for e in sched]])
    if nrep < 20:
        raise MachineryError('vacuity: only %d complete behaviours came out of the simulation' % nrep)
    ck.add_conformance('spec -> code at L2 (polling): complete behaviours of EioClientFinePoll '
                       'generated by TLC, each replayed on the real threaded Client under exactly '
                       'its schedule and with the server answers TLC chose; final events, accepted '
                       'packets, message count, state and queue must equal the model\'s', nrep, nsame,
                       behaviours_with_two_disconnect_events=ntwo)


def replay_l2_poll(pid, rp):
    from ..harness import l2
    if rp.get('kind') == 'l2-poll-schedule':
        t, left = l2.replay_client_poll_schedule(2, rp['schedule'])
        print(json.dumps(t['final']), 'unfinished:', left)
        print('VIOLATION property=%s replay=%s' % (pid, rp.get('_path', '?')))
        return 1
    sc = rp['script']
    t, f = l2.run_client_poll(sc['k'], sc['maxpolls'], sc['allowfail'], seed=rp['schedule_seed'])
    v = tracecheck.validate('EioClientFinePollTrace', [t], constants=_poll_trace_consts(sc['k']),
                            invariants=POLL_INVS)
    if v.accepted and not v.inv_violations and len(t['final']['ev']) <= 1:
        print('replay: primitive-level polling-client trace accepted by EioClientFinePoll; events %r'
              % t['final']['ev'])
        return 0
    print(json.dumps(t)[:4000])
    print('VIOLATION property=%s replay=%s' % (pid, rp.get('_path', '?')))
    return 1
