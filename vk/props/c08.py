"""C08 - client connection lifecycle: one connect, one disconnect, clean reusable state."""
import itertools

from . import clientcore as K
from ..common import Check

OPENP = {'open': {'ups': True, 'pi': 8, 'pt': 4}}
OPEN0 = {'open': {'ups': False, 'pi': 8, 'pt': 4}}


def run(tier):
    ck = Check('C08', tier)
    th = tier == 'thorough'
    A = K.alpha
    jobs = [
        dict(name='polling: every server behaviour at every step (refuse, status, garbage, OPEN then '
                  'CLOSE, silence, failed GET / POST), disconnect() at every point, timed',
             consts=K.consts(Alpha=A('connect', 'poll', 'reply', 'fail', 'send', 'disconnect', 'tick'),
                             MaxReq=5 if th else 4, Horizon=8)),
        dict(name='upgrade: websocket refused / accepted, every probe answer, close at every point '
                  '(untimed)',
             consts=K.consts(Alpha=A('connect', 'both', 'reply', 'ws', 'send', 'disconnect'),
                             MaxReq=3, MaxEv=3, MaxSend=1)),
        dict(name='websocket-only: OPEN / non-OPEN / garbage first frame, frames, silence, close, '
                  'timed',
             consts=K.consts(Alpha=A('connect', 'ws', 'send', 'disconnect', 'tick', 'wait'),
                             MaxReq=3, MaxEv=3, MaxSend=1, Horizon=6)),
        dict(name='two connect / disconnect cycles on one client (reusable)',
             consts=K.consts(Alpha=A('connect', 'poll', 'reply', 'fail', 'disconnect', 'wait'),
                             MaxReq=6 if th else 5, MaxEv=4, MaxCycles=2, MaxSend=0),
             min_states=500),
        dict(name='NEG a failed POST goes unnoticed (repaired defect F17)',
             consts=K.consts(Alpha=A('connect', 'poll', 'reply', 'fail', 'send', 'tick'), MaxReq=4,
                             Horizon=40, Grace=20, Deviations='{"PostFailureSilent"}'),
             invariants=['C08_PostFailureEndsConnectionRaw'],
             expect='C08_PostFailureEndsConnectionRaw'),
        dict(name='NEG packets of a poll response handled after the connection ended (repaired '
                  'defect F24)',
             consts=K.consts(Alpha=A('connect', 'poll', 'reply', 'disconnect'), MaxReq=4,
                             Deviations='{"ReadLoopIgnoresState"}'),
             invariants=['C08_NothingReceivedAfterEnd'], expect='C08_NothingReceivedAfterEnd'),
        dict(name='NEG disconnect() while a POST is in flight never sends CLOSE (repaired defect F25)',
             consts=K.consts(Alpha=A('connect', 'poll', 'reply', 'send', 'disconnect'), MaxReq=5,
                             Deviations='{"WriteLoopDropsQueued"}'),
             invariants=['C08_NothingLeftQueuedRaw'], expect='C08_NothingLeftQueuedRaw'),
    ]
    K.run_tlc_jobs(ck, jobs)
    seed = ck.seed
    n = 300 if th else 100
    plans = []
    w_life = {'connect': 3, 'wait': 2, 'disconnect': 3, 'failget': 2, 'failpost': 2, 'badget': 3,
              'badpost': 2, 'tick': 8}
    for impl in ('sync', 'async'):
        plans.append(dict(what='every first answer to connect() x transports', impl=impl, cfg={},
                          scripts=first_answer_scripts()))
        plans.append(dict(what='random lifecycles: faults at every step, repeated cycles', impl=impl,
                          cfg={}, scripts=K.random_scripts(seed + 1, n, 24, None, w_life)))
        plans.append(dict(what='disconnect() from inside the connect handler', impl=impl,
                          cfg={'connect_disconnects': True},
                          scripts=K.random_scripts(seed + 2, n // 2, 14, None, w_life)))
        plans.append(dict(what='disconnect() from inside a message handler', impl=impl,
                          cfg={'message_disconnects': True},
                          scripts=K.random_scripts(seed + 3, n // 2, 18, None,
                                                   dict(w_life, replyget=14, wsdeliver=12))))
        plans.append(dict(what='silence from every point (server stops answering)', impl=impl, cfg={},
                          scripts=silence_scripts()))
    w_pre = dict(w_life, send=4, replyget=8, replypost=4)
    plans.append(dict(what='threaded client under pre-emptive schedules (task switches inside blocks, '
                           'random choice of the next task): lifecycles with faults, sends and '
                           'disconnect() racing the loops', impl='sync', cfg={}, preempt=seed,
                      scripts=K.random_scripts(seed + 9, 300 if th else 60, 24, None, w_pre)))
    K.conform(ck, plans)
    K.l2_client(ck, th, seed)
    K.l2_client_poll(ck, th, seed)
    ck.cov['rule'] = ('case = one scripted-server script (replies, failures, frames, clock) with '
                      'application calls, on one client implementation; distinct by recorded action '
                      'sequence')
    ck.assume('one connect() at a time, and a new connect() only after the tasks of the previous '
              'connection have ended (when wait() would return)')
    ck.assume('the threaded Client runs against fake requests / websocket-client modules (the real '
              'packages are not installed here); AsyncClient against a fake aiohttp session')
    return ck.finish()


def first_answer_scripts():
    out = []
    firsts = [
        {'op': 'reply', 'm': 'GET', 'pk': [OPENP]}, {'op': 'reply', 'm': 'GET', 'pk': [OPEN0]},
        {'op': 'reply', 'm': 'GET', 'pk': [OPENP, 'CLOSE']}, {'op': 'reply', 'm': 'GET', 'pk': [OPENP, 'M1', 'PING']},
        {'op': 'reply', 'm': 'GET', 'pk': ['M1']}, {'op': 'reply', 'm': 'GET', 'pk': ['NOOP', OPENP]},
        {'op': 'reply', 'm': 'GET', 'raw': 'garbage'}, {'op': 'reply', 'm': 'GET', 'raw': 'empty'},
        {'op': 'reply', 'm': 'GET', 'raw': 'notutf8'}, {'op': 'reply', 'm': 'GET', 'raw': 'toomany'},
        {'op': 'reply', 'm': 'GET', 'raw': 'json'},
        {'op': 'reply', 'm': 'GET', 'pk': [{'open': {'variant': 'nodata'}}]},
        {'op': 'reply', 'm': 'GET', 'pk': [{'open': {'variant': 'notdict'}}]},
        {'op': 'reply', 'm': 'GET', 'pk': [{'open': {'variant': 'missingkey'}}]},
        {'op': 'fail', 'm': 'GET'}, {'op': 'tick', 't': 200},
    ] + [{'op': 'reply', 'm': 'GET', 'status': s, 'pk': [OPENP]} for s in (199, 299, 300, 400, 401, 500)]
    wsfirst = [{'op': 'wsrefuse'}, {'op': 'tick', 't': 200}] + [
        [{'op': 'wsaccept'}, x] for x in (
            {'op': 'wsdeliver', 'f': OPEN0}, {'op': 'wsdeliver', 'f': 'M1'},
            {'op': 'wsdeliver', 'f': 'GARBAGE'}, {'op': 'wsdeliver', 'f': 'EMPTY'},
            {'op': 'wsdeliver', 'f': {'open': {'variant': 'nodata'}}},
            {'op': 'wsdeliver', 'f': {'open': {'variant': 'missingkey'}}},
            {'op': 'wsclose'}, {'op': 'tick', 't': 200}, {'op': 'wsdeliver', 'f': 'PONGprobe'},
            {'op': 'wsdeliver', 'f': 'CLOSE'})]
    tail = [{'op': 'send', 'tok': 'm1'}, {'op': 'disconnect'}, {'op': 'reply', 'm': 'POST', 'pk': []},
            {'op': 'reply', 'm': 'GET', 'pk': ['NOOP']}, {'op': 'wait'},
            {'op': 'connect', 'tr': 'poll'}, {'op': 'reply', 'm': 'GET', 'pk': [OPEN0]},
            {'op': 'reply', 'm': 'GET', 'pk': ['CLOSE']}, {'op': 'reply', 'm': 'POST', 'pk': []},
            {'op': 'tick', 't': 600}]
    for tr in ('poll', 'both'):
        for f in firsts:
            for up in (wsfirst if tr == 'both' else [None]):
                sc = [{'op': 'connect', 'tr': tr}, f]
                if up is not None:
                    sc += up if isinstance(up, list) else [up]
                out.append(sc + tail)
    for up in wsfirst:
        out.append([{'op': 'connect', 'tr': 'ws'}] + (up if isinstance(up, list) else [up]) + tail)
    return out


def silence_scripts():
    """The server answers k steps of an ordinary conversation and then nothing any more."""
    conv = {
        'poll': [{'op': 'reply', 'm': 'GET', 'pk': [OPEN0]}, {'op': 'send', 'tok': 'm1'},
                 {'op': 'reply', 'm': 'POST', 'pk': []}, {'op': 'reply', 'm': 'GET', 'pk': ['PING']},
                 {'op': 'reply', 'm': 'POST', 'pk': []}, {'op': 'reply', 'm': 'GET', 'pk': ['M1']}],
        'both': [{'op': 'reply', 'm': 'GET', 'pk': [OPENP]}, {'op': 'wsaccept'},
                 {'op': 'wsdeliver', 'f': 'PONGprobe'}, {'op': 'send', 'tok': 'm1'},
                 {'op': 'wsdeliver', 'f': 'PING'}, {'op': 'wsdeliver', 'f': 'M1'}],
        'ws': [{'op': 'wsaccept'}, {'op': 'wsdeliver', 'f': OPEN0}, {'op': 'send', 'tok': 'm1'},
               {'op': 'wsdeliver', 'f': 'PING'}, {'op': 'wsdeliver', 'f': 'M1'}],
    }
    out = []
    for tr, steps in conv.items():
        for k in range(0, len(steps) + 1):
            for t0 in (0, 3):
                out.append([{'op': 'connect', 'tr': tr}] + steps[:k] +
                           [{'op': 'tick', 't': t0}, {'op': 'wait'}, {'op': 'tick', 't': 700},
                            {'op': 'send', 'tok': 'm9'}, {'op': 'connect', 'tr': 'poll'},
                            {'op': 'reply', 'm': 'GET', 'pk': [OPEN0]}, {'op': 'disconnect'},
                            {'op': 'tick', 't': 1400}])
    return out


def replay(path):
    return K.replay_client_trace('C08', path)
