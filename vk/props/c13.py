"""C13 - origin policy is enforced before anything else and CORS headers never over-grant."""
from ..common import Check
from ..harness import world as W
from . import httpcommon as H

ALLOWED = 'https://allowed.example'
CFG = {
    'none': None, 'star': '*', 'str': ALLOWED, 'list': [ALLOWED, 'https://other.example'],
    'callT': lambda o: True, 'callF': lambda o: False, 'empty': [],
}


def origins(cfg):
    """(class, fwd, Origin value or None, extra request headers)"""
    out = [('absent', False, None, {}), ('empty', False, '', {}),
           ('same', False, 'http://test', {}),
           ('same', True, 'http://test', {'X-Forwarded-Host': 'proxy.example'}),
           ('fwd', True, 'https://test', {'X-Forwarded-Proto': 'https'}),
           ('fwd', True, 'http://proxy.example', {'X-Forwarded-Host': 'proxy.example'}),
           ('fwd', True, 'https://proxy.example', {'X-Forwarded-Proto': 'https',
                                                   'X-Forwarded-Host': 'proxy.example'}),
           ('fwd', True, 'https://proxy.example', {'X-Forwarded-Proto': 'https, http',
                                                   'X-Forwarded-Host': 'proxy.example, inner'}),
           ('fwd', False, 'https://test', {}),
           ('listed', False, ALLOWED, {}),
           ('foreign', False, 'https://evil.example', {}),
           ('foreign', True, 'https://evil.example', {'X-Forwarded-Host': 'proxy.example'}),
           ('foreign', False, 'null', {}),
           # both forwarded headers present: the request's own origin is the pair seen directly
           # or the pair seen through the forwarding headers; own scheme + forwarded host is
           # neither (forwarded scheme + own host is left out: the ASGI driver has no other
           # notion of the direct scheme than X-Forwarded-Proto)
           ('foreign', True, 'http://proxy.example', {'X-Forwarded-Proto': 'https',
                                                      'X-Forwarded-Host': 'proxy.example'})]
    if cfg == 'list':
        out.append(('listed', False, 'https://other.example', {}))
    base = ALLOWED if cfg in ('str', 'list') else 'http://test'
    for near in (base[:-1], base[1:], base.upper(), base + '/', base + '.', base + ':443',
                 base + '.evil.example', 'x' + base, base.replace('://', ':/'),
                 base.split('://')[1], base[:len(base) // 2], ' ' + base):
        out.append(('near', False, near, {}))
    return out


def run(tier):
    ck = Check('C13', tier)
    H.tlc_tables(ck, 'EioHttp decision tables: facts over every cell (OriginGate, Admit, OpenReply, '
                     'Compress)')
    recs, metas = [], []
    for impl in ('sync', 'async'):
        for cfgname, cfgval in CFG.items():
            for cred in (True, False):
                w = W.make_world(impl, {'cors': cfgval, 'cors_credentials': cred,
                                        'ping_interval': 400, 'ping_timeout': 200})
                try:
                    # two sessions reached without any Origin header: one for polls/posts, one
                    # per upgrade attempt is created on demand
                    base = H.run_request(w, 'GET', 'transport=polling&EIO=4')
                    sid = w.sids[1]
                    for oc, fwd, origin, xh in origins(cfgname):
                        hdrs = dict(xh)
                        if origin is not None:
                            hdrs['Origin'] = origin
                        for kind in ('open', 'poll', 'post', 'options', 'upgrade', 'openws'):
                            before = H.state_digest(w)
                            if kind == 'open':
                                r = H.run_request(w, 'GET', 'transport=polling&EIO=4', hdrs)
                            elif kind == 'poll':
                                w.app_send(1)
                                w.quiesce()
                                before = H.state_digest(w)
                                r = H.run_request(w, 'GET', 'transport=polling&EIO=4&sid=' + sid,
                                                  hdrs, slot=1)
                            elif kind == 'post':
                                r = H.run_request(w, 'POST', 'transport=polling&EIO=4&sid=' + sid,
                                                  hdrs, body=b'4' + W.cli_payload('m1').encode(),
                                                  slot=1)
                            elif kind == 'options':
                                r = H.run_request(w, 'OPTIONS', 'transport=polling&EIO=4', hdrs)
                            elif kind == 'upgrade':
                                r = H.run_request(w, 'GET', 'transport=websocket&EIO=4&sid=' + sid,
                                                  hdrs, ws=True, slot=1)
                                if r.conn.accepted:
                                    w.ws_frame(1, 'x')      # fail the handshake: back to polling
                                    w.quiesce()
                            else:
                                r = H.run_request(w, 'GET', 'transport=websocket&EIO=4', hdrs, ws=True)
                                if r.conn.accepted:
                                    w.ws_drop(r.conn.slot)
                                    w.quiesce()
                            st = H.status_of(r)
                            after = H.state_digest(w)
                            blocked = st in (400, 499)
                            hdr = r.kind == 'http'
                            acao = H.header(r.headers, 'Access-Control-Allow-Origin') if hdr else []
                            acac = H.header(r.headers, 'Access-Control-Allow-Credentials') if hdr else []
                            rec = {'k': 'origin', 'cfg': cfgname, 'cred': cred, 'oc': oc, 'fwd': fwd,
                                   'blocked': blocked, 'effect': before != after, 'hdr': hdr,
                                   'acao': len(acao) > 0, 'acac': len(acac) > 0,
                                   'acaoval': all(v == origin for v in acao) and len(acao) <= 1 and
                                   all(v == 'true' for v in acac)}
                            recs.append(rec)
                            metas.append({'impl': impl, 'cfg': cfgname, 'cred': cred, 'kind': kind,
                                          'origin': origin, 'xhdrs': xh, 'status': st,
                                          'acao': acao, 'acac': acac})
                            ck.distinct([cfgname, cred, oc, fwd, origin, kind, impl])
                finally:
                    w.close()
    traces, v = H.validate(ck, recs, 'origin gate: 7 configuration forms x credentials x ~27 Origin '
                                     'values (own host, forwarded, listed, 12 near-misses, foreign) x 6 '
                                     'request kinds x 2 servers')
    bad = 0
    for ti in v.rejected:
        for j, rec in enumerate(traces[ti]):
            if not ok_origin(rec):
                m = metas[ti * 400 + j]
                bad += 1
                if bad <= 4:
                    ck.violation('origin gate / CORS headers contradict EioHttp: %r -> %r' % (m, rec),
                                 {'request': m, 'record': rec})
    if v.rejected and not bad:
        ck.violation('trace rejected (no single record identified)', {'n': len(v.rejected)})
    ck.sample({'record': recs[40], 'request': {k: metas[40][k] for k in ('impl', 'cfg', 'kind', 'origin', 'status')}})
    ck.cov['rule'] = ('case = one request (configuration form, credentials flag, Origin value, '
                      'forwarded headers, request kind, server); distinct by that tuple')
    ck.assume('"same origin" uses scheme http and Host "test"; the ASGI driver derives the scheme from '
              'X-Forwarded-Proto only, so the own-host class is exercised with X-Forwarded-Host alone')
    ck.assume('CORS response headers of websocket-type requests are not observable through the '
              'threaded gateway and are compared for HTTP responses only')
    return ck.finish()


def ok_origin(e):
    cfg, oc, fwd = e['cfg'], e['oc'], e['fwd']
    allowed = {'star': True, 'none': oc == 'same' or (oc == 'fwd' and fwd),
               'str': oc == 'listed', 'list': oc == 'listed', 'callT': True, 'callF': False,
               'empty': False}[cfg]
    has = oc not in ('absent', 'empty')
    blocked = cfg != 'empty' and has and not allowed
    acao = cfg != 'empty' and not blocked and oc != 'absent' and (allowed or (oc == 'empty' and cfg == 'star'))
    acac = cfg != 'empty' and e['cred']
    if e['blocked'] != blocked or (blocked and e['effect']):
        return False
    if e['hdr']:
        if (not blocked and e['acao'] != acao) or (blocked and e['acao']):
            return False
        if (e['acac'] and not acac) or (not blocked and e['acac'] != acac) or not e['acaoval']:
            return False
    return True


def replay(path):
    print(open(path).read()[:3000])
    return 1
