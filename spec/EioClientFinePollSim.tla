------------------------ MODULE EioClientFinePollSim ------------------------
(***************************************************************************)
(* Behaviour generation at L2 (spec -> code) for the polling client:       *)
(* EioClientFinePoll with a history variable recording who took each step  *)
(* and, for the server, what it answered.  TLC simulates; every behaviour  *)
(* that runs to the end prints its schedule and its final events, accepted *)
(* packets, message count and state.  The harness then drives the real     *)
(* threaded Client under exactly that schedule and must observe the same.  *)
(***************************************************************************)
EXTENDS EioClientFinePoll

VARIABLE sched   \* sequence of [p, silent, ans]: who stepped; ans = the server's answer
svars == <<vars, sched>>

Rec(p, s, a) == sched' = Append(sched, [p |-> p, silent |-> s, ans |-> a])
None == <<>>

SimInit == Init /\ sched = <<>>
SimNext ==
    \/ AppStep /\ Rec("app", pc["app"] = "send" /\ nsent < MaxSend /\ st # "connected", None)
    \/ WrStep /\ Rec("wr", FALSE, None)
    \/ RdStep /\ Rec("rd", FALSE, None)
    \/ SrvAnswerGet /\ Rec("srv_get", FALSE, gres')
    \/ SrvAnswerPost /\ Rec("srv_post", FALSE, <<pres'>>)
SimSpec == SimInit /\ [][SimNext]_svars

\* printed once, in the first state where everything has ended
EmitSchedule ==
    Done => PrintT(<<"SCHEDULE", sched, ev, posted, rx, st, q>>)
=============================================================================
