------------------------ MODULE EioQueueFineUpTrace ------------------------
(***************************************************************************)
(* Primitive-by-primitive validation of pre-emptive executions of the real *)
(* threaded server with one polling session being upgraded, against        *)
(* EioQueueFineUp.  Records {t, op, item}; t = 0 for the client ("env":    *)
(* probe / upgrade / bad1 / bad2 / gone).  The upgrade request is Proc 1,  *)
(* the writer thread it starts Proc 2.  Ops: start, put_enter, put,        *)
(* get_enter, get, task_done, ws_wait_enter, ws_wait, flag, ret.           *)
(***************************************************************************)
EXTENDS EioQueueFineUp, Json, IOUtils, TLCExt

Tr == JsonDeserialize(IOEnv.TRACE_FILE)
VARIABLES tid, l
tvars == <<allvars, tid, l>>

Evs == Tr[tid].log
TraceInit == UpInit /\ tid \in 1..Len(Tr) /\ l = 1

StepOf(p) == IF p = U THEN UpgraderStep
             ELSE IF p = Wt THEN WriterStep
             ELSE ShortStep(p)
FlagIs(item) == CASE item = "upgrading=T" -> upgrading' = TRUE /\ upgraded' = upgraded
                  [] item = "upgrading=F" -> upgrading' = FALSE /\ upgraded' = upgraded
                  [] item = "upgraded=T"  -> upgraded' = TRUE /\ upgrading' = upgrading
                  [] item = "upgraded=F"  -> upgraded' = FALSE /\ upgrading' = upgrading
                  [] OTHER -> FALSE

NoopWrite(item) == CASE item = "upgrading=T" -> upgrading
                     [] item = "upgrading=F" -> ~upgrading
                     [] item = "upgraded=T"  -> upgraded
                     [] item = "upgraded=F"  -> ~upgraded
                     [] OTHER -> FALSE

Consume ==
    /\ l <= Len(Evs)
    /\ LET e == Evs[l]
           p == e.t
       IN CASE e.op = "env" ->
                   CASE e.item = "probe"   -> ClientProbe /\ wsin' = Append(wsin, "PINGprobe")
                     [] e.item = "bad1"    -> ClientProbe /\ wsin' = Append(wsin, "BAD")
                     [] e.item = "upgrade" -> ClientUpgrade /\ wsin' = Append(wsin, "UPGRADE")
                     [] e.item = "bad2"    -> ClientUpgrade /\ wsin' = Append(wsin, "BAD")
                     [] e.item = "gone"    -> ClientGone
                     [] OTHER -> FALSE
            [] e.op = "start"     -> IF e.item = "upg" THEN p = U /\ StartUpgrade ELSE UpStart(p, e.item)
            [] e.op = "get_enter" -> StepOf(p) /\ pc'[p] = "wait" /\ q' = q /\ unf' = unf
            [] e.op = "put_enter" -> StepOf(p) /\ pc'[p] = "put" /\ it'[p] = e.item /\ q' = q
            [] e.op = "put"       -> DoPut(p) /\ UpUnch /\ it[p] = e.item
            [] e.op = "get"       -> StepOf(p) /\ q # <<>> /\ Head(q) = e.item /\ q' = Tail(q)
            [] e.op = "task_done" -> StepOf(p) /\ unf' = unf - 1 /\ q' = q
            [] e.op = "ws_wait_enter" -> p = U /\ UpgraderStep /\ pc'[p] \in {"u_wait1", "u_wait2", "r_wait"}
                                         /\ pc[p] \notin {"u_wait1", "u_wait2", "r_wait"}
                                         /\ upgrading' = upgrading /\ upgraded' = upgraded /\ q' = q
            [] e.op = "ws_wait"   -> p = U /\ (UFrame("u_wait1", "u_got1") \/ UFrame("u_wait2", "u_got2"))
                                     /\ it'[p] = e.item
            [] e.op = "flagread"  -> IF p = U THEN (UBegin \/ URead2) /\ pc'[p] \in {"u_r1", "u_r2"}
                                                   /\ e.item = "upgraded=F"
                                     ELSE ShortStep(p) /\ pc'[p] \in {"g1", "g2", "g3"}
                                          /\ e.item = (IF pc'[p] = "g2" THEN "upgrading=" ELSE "upgraded=") \o it'[p]
            \* a write that changes the flag must be the next effective write of the model; a
            \* write of the value the flag already has is visible to nobody: consumed as it is
            [] e.op = "flag"      -> \/ /\ p = U /\ UpgraderStep /\ FlagIs(e.item) /\ q' = q
                                        /\ (upgrading' # upgrading \/ upgraded' # upgraded)
                                        /\ pc'[p] \notin {"u_wait1", "u_wait2", "r_wait", "put", "done"}
                                        /\ wsout' = wsout
                                     \/ /\ p = U /\ NoopWrite(e.item) /\ UNCHANGED allvars
            [] e.op = "ret"       -> StepOf(p) /\ pc'[p] = "done" /\ pc[p] # "done" /\ q' = q /\ unf' = unf
                                     /\ upgrading' = upgrading /\ upgraded' = upgraded
            [] OTHER -> FALSE
    /\ l' = l + 1 /\ UNCHANGED tid

\* ... and a write of the model that changes nothing needs no record
Silent ==
    /\ l <= Len(Evs) + 1
    /\ UpgraderStep
    /\ pc[U] \in {"u_r2", "u_got1", "u_got2", "u_f2", "u_x1", "u_fin"}
    /\ pc'[U] \in {"u_b1", "u_fin", "u_ret", "u_f2", "u_f3", "u_x1"}
    /\ upgrading' = upgrading /\ upgraded' = upgraded
    /\ UNCHANGED <<tid, l>>

Fin == Tr[tid].final
Finish ==
    /\ l = Len(Evs) + 1
    /\ q = Fin.q /\ unf = Fin.unf /\ intable = Fin.intable /\ sent = Fin.sent
    /\ upgrading = Fin.upgrading /\ upgraded = Fin.upgraded
    /\ MsgsOf(deliv) = Fin.pdeliv /\ MsgsOf(wsdeliv) = Fin.wdeliv
    /\ \A i \in 1..Len(Fin.status) : resp[Fin.status[i][1]] = Fin.status[i][2]
    /\ PrintT(<<"ACC", tid>>)
    /\ l' = l + 1 /\ UNCHANGED <<allvars, tid>>

TraceNext == Consume \/ Silent \/ Finish
TraceSpec == TraceInit /\ [][TraceNext]_tvars
DiagPrint == PrintT(<<"DIAG", l, q, unf, upgrading, upgraded, wsin, wsout, read, stage, gone, pc, it, pk, deliv, wsdeliv>>)
=============================================================================
