-------------------------- MODULE EioQueueFineWsSim --------------------------
(***************************************************************************)
(* Behaviour generation at L2 for one websocket session of the threaded    *)
(* server (spec -> code): EioQueueFineWs with a history variable recording *)
(* who was started / stepped and which environment event happened.         *)
(***************************************************************************)
EXTENDS EioQueueFineWs

VARIABLE sched      \* [p, k]: p = task (0 = environment); k = kind for a start, "close" / "gone"
                    \* for the environment, "" for a step, "silent" for a step without primitive
wsvars == <<q, unf, closing, closed, intable, ev, deliv, sent, kind, pc, pk, it, resp,
            nx, alloc, putord, wsopen, gone, inframes, sched>>
Rec(p, k) == sched' = Append(sched, [p |-> p, k |-> k])

SimInit == WsInit /\ sched = <<>>
SimNext ==
    \/ WriterStep /\ Rec(Writer, "")
    \/ ReaderStep /\ Rec(Reader, IF pc[Reader] = "r_wait" /\ inframes # <<>>
                                    /\ closing /\ ~closed THEN "silent" ELSE "")
    \/ \E p \in Others : \/ ShortStep(p) /\ Rec(p, "")
                         \/ \E k \in {"send", "disc"} : WsStart(p, k) /\ Rec(p, k)
    \/ ClientSendsClose /\ Rec(0, "close")
    \/ ClientGone /\ Rec(0, "gone")
SimSpec == SimInit /\ [][SimNext]_wsvars

Stuck == ~ENABLED WriterStep /\ ~ENABLED ReaderStep /\ \A p \in Others : ~ENABLED ShortStep(p)
AllStarted == \A p \in Others : pc[p] # "idle"
EmitSchedule ==
    (Stuck /\ AllStarted) =>
        PrintT(<<"SCHEDULE", sched, q, unf, closed, closing, intable, ev, MsgsOf(deliv), sent,
                 [p \in Proc |-> pc[p]]>>)
=============================================================================
