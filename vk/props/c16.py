"""C16 - session table hygiene: dead ids are inert, sessions isolated, nothing leaks."""
import random

from . import core
from ..common import Check
from ..harness import driver

INVS = ['TypeOK', 'C16_TableOnlyUsed', 'C16_ReapedInTime', 'C16_DataIsolated', 'C16_DeadNotInTable',
        'C05_RejectedSilent', 'C05_EventShape', 'C07_DetectionBound']


def run(tier):
    ck = Check('C16', tier)
    th = tier == 'thorough'
    A = core.alpha
    jobs = [
        dict(name='2 sessions: opens (accepted / rejected), closes by every cause, API calls with '
                  'live / dead ids, monitor sweeps, clock',
             consts=core.consts(Sid='{1, 2}',
                                Alpha=A('open', 'reject', 'post', 'api', 'sess', 'send', 'tick')
                                if th else A('open', 'reject', 'post', 'sess', 'tick', 'shutdown'),
                                BodyProfile='"close"', PingInterval=2, PingTimeout=2, Monitor='TRUE',
                                MaxMsg=1, Horizon=6, MaxReq=4 if th else 3, MaxQ=3,
                                MaxEv=3, MaxPings=3),
             invariants=INVS + ['C16_DataIsolatedMC'], min_states=1000),
        dict(name='1 session on websocket / mid-upgrade vanishing, monitor on',
             consts=core.consts(Alpha=A('open', 'openws', 'upgrade', 'wsio', 'sess', 'tick'),
                                FrameProfile='"handshake"', PingInterval=2, PingTimeout=1,
                                Monitor='TRUE', Horizon=8, MaxReq=3, MaxQ=4, MaxEv=2, MaxPings=3),
             invariants=INVS, min_states=500),
        dict(name='2 sessions without monitor: lazy reaping only (untimed)',
             consts=core.consts(Sid='{1, 2}', Alpha=A('open', 'reject', 'post', 'api', 'sess', 'send',
                                                       'poll'),
                                BodyProfile='"close"', MaxMsg=1, MaxReq=5, MaxQ=3, MaxEv=3),
             invariants=[i for i in INVS if i != 'C16_ReapedInTime'] + ['C16_DataIsolatedMC'],
             min_states=500),
        dict(name='2 sessions, disconnect() of all clients between other API calls, asyncio',
             consts=core.consts(Sid='{1, 2}', Alpha=A('open', 'openws', 'apiall', 'sess', 'send'),
                                ImplJoinLatch='TRUE', ImplWsReadTimeout='TRUE',
                                MaxMsg=1, MaxReq=5, MaxQ=3, MaxEv=3),
             invariants=[i for i in INVS if i != 'C16_ReapedInTime'] + ['C16_DataIsolatedMC'],
             min_states=300),
    ]
    core.run_tlc_jobs(ck, jobs, timeout=3600)

    seed = ck.seed
    plans = []
    ns = 6
    w = {'open': 4, 'openrej': 3, 'openws': 2, 'post': 8, 'poll': 5, 'disconnect': 0, 'send': 6,
         'save': 6, 'get': 8, 'sessctx': 4, 'transport': 4, 'wsframe': 8, 'wsdrop': 3, 'upgrade': 3,
         'tick': 10, 'shutdown': 0.3}
    for impl in ('sync', 'async'):
        plans.append(dict(
            what='long histories (%d steps, up to %d sessions), clients vanishing mid-poll / '
                 'mid-upgrade / mid-handshake, API calls with live / dead / foreign ids, real '
                 'monitor task' % (300 if th else 120, ns), impl=impl,
            cfg={'ping_interval': 120, 'ping_timeout': 60, 'monitor': True}, nslots=ns,
            scripts=long_scripts(seed + 1, 30 if th else 10, 300 if th else 120, ns, w)))
        # the application ends sessions itself, also ones whose client has vanished (the call may
        # never return - known finding F6 of C15, not judged here): the id must be dead all the same
        plans.append(dict(
            what='histories with application disconnect(sid) calls, clients vanishing, real '
                 'monitor task', impl=impl,
            cfg={'ping_interval': 120, 'ping_timeout': 60, 'monitor': True}, nslots=ns,
            scripts=long_scripts(seed + 3, 24 if th else 8, 80, ns, dict(w, disconnect=5, shutdown=0))))
        plans.append(dict(
            what='histories without monitor (lazy reaping), 3 sessions', impl=impl,
            cfg={'ping_interval': 12, 'ping_timeout': 6, 'monitor': False}, nslots=3,
            scripts=core.random_scripts(seed + 2, 200 if th else 60, 40, 3, w, tstep=(1, 12))))
    done = core.conform(ck, plans, invariants=core.STATE_INVS + ['C16_DeadNotInTable'])
    # at the end of every monitored history the table holds exactly the live sessions
    for p, traces, facts, v in done:
        if not p['cfg'].get('monitor'):
            continue
        for t, f in zip(traces, facts):
            if any(o['op'] == 'shutdown' for o in f['script']):
                continue      # monitoring was stopped by the application
            st = t[-1]['st']
            live = [i + 1 for i, s in enumerate(st['ss']) if s['used'] and not s['closed'] and
                    (i + 1) in st['table']]
            if sorted(st['table']) != sorted(live):
                ck.violation('table %r != live sessions %r at the end of a monitored history (%s)'
                             % (st['table'], live, p['impl']),
                             {'impl': p['impl'], 'cfg': f['cfg'], 'nslots': p['nslots'],
                              'script': f['script'], 'kind': 'server-trace'})
                break
    ck.cov['rule'] = ('case = one environment script on one implementation; distinct by recorded '
                      'action sequence; long histories use ping_timeout = 60 units so that the '
                      'monitor step ping_timeout/len(table) is exact for 1..6 sessions')
    return ck.finish()


def long_scripts(seed, n, length, ns, w):
    rng = random.Random(seed)
    return [driver.gen_script(rng, ns, length, w, tstep=(1, 40)) for _ in range(n)]


def replay(path):
    return core.replay_server_trace('C16', path)
