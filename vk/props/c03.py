"""C03 - server-to-client messages: exactly once, in order, one transport, across upgrade."""
from . import core
from ..common import Check

INVS = ['TypeOK', 'C03_InOrderOnce', 'C03_OnlyAccepted', 'C03_NoLoss', 'C03_Retrievable',
        'C06_UpgradingOnlyDuringHandshake', 'C06_NeverBothFlags']


def run(tier):
    ck = Check('C03', tier)
    th = tier == 'thorough'
    A = core.alpha
    jobs = [
        dict(name='1 session, timed, polls+sends+heartbeat (2 overlapping polls)',
             consts=core.consts(Alpha=A('open', 'poll', 'send', 'post', 'tick'),
                                BodyProfile='"pong"', MaxMsg=3 if th else 2, Horizon=8 if th else 6,
                                MaxReq=7 if th else 6, MaxQ=4),
             invariants=INVS, min_states=1000),
        dict(name='1 session, upgrade handshake with failures, sends, polls (untimed)',
             consts=core.consts(Alpha=A('open', 'poll', 'send', 'upgrade', 'wsio'),
                                FrameProfile='"handshake"', MaxMsg=2, MaxReq=8 if th else 7,
                                MaxQ=5, MaxEv=3),
             invariants=INVS, min_states=1000),
        dict(name='1 session, websocket-only, sends, frames, drop (untimed)',
             consts=core.consts(Alpha=A('openws', 'send', 'wsio'), FrameProfile='"steady"',
                                MaxMsg=3, MaxReq=3, MaxQ=5, MaxEv=4),
             invariants=INVS, min_states=200),
        dict(name='2 sessions, untimed, polls+sends (no cross delivery, isolation)',
             consts=core.consts(Sid='{1, 2}', Alpha=A('open', 'poll', 'send'), MaxMsg=2,
                                MaxReq=8 if th else 7, MaxQ=3),
             invariants=INVS, properties=['H_AppendOnly'], min_states=1000),
        dict(name='1 session, environment actions interleaved with internal steps (polling)',
             consts=core.consts(Alpha=A('open', 'poll', 'send', 'post', 'tick'),
                                BodyProfile='"msg"', EnvAnytime='TRUE', MaxMsg=2, Horizon=4,
                                MaxReq=6 if th else 5, MaxQ=4, MaxEv=3),
             invariants=INVS, min_states=1000),
        # negative controls: the repaired defects, re-admitted as deviations, must be caught
        dict(name='NEG handshake garbage leaves upgrading (F12)',
             consts=core.consts(Alpha=A('open', 'poll', 'send', 'upgrade', 'wsio'),
                                FrameProfile='"handshake"', MaxReq=5,
                                Deviations='{"HandshakeGarbageLeavesUpgrading"}'),
             invariants=['C06_UpgradingOnlyDuringHandshakeRaw'],
             expect='C06_UpgradingOnlyDuringHandshakeRaw'),
    ]
    core.run_tlc_jobs(ck, jobs)
    core.l2_models(ck, th)

    seed = ck.seed
    n = 400 if th else 120
    cfgA = {'ping_interval': 8, 'ping_timeout': 4}
    w_poll = {'send': 10, 'poll': 10, 'post': 2, 'upgrade': 0, 'wsframe': 0, 'wsdrop': 0,
              'openws': 0, 'disconnect': 0}
    w_upg = {'send': 10, 'poll': 6, 'upgrade': 4, 'wsframe': 12, 'wsdrop': 2, 'openws': 1}
    w_ws = {'open': 0, 'openrej': 0, 'openws': 3, 'send': 12, 'wsframe': 10, 'wsdrop': 1, 'poll': 1,
            'upgrade': 1, 'post': 1}
    simc = core.consts(Sid='{1, 2}', Alpha=core.alpha('open', 'poll', 'send', 'post', 'upgrade',
                                                       'wsio', 'tick', 'openws'),
                       BodyProfile='"msg"', FrameProfile='"steady"', MaxMsg=4, Horizon=14, MaxReq=16,
                       MaxQ=6, MaxPings=4, MaxEv=8)
    sim_scripts, r = core.scripts_from_spec(simc, 200 if th else 60, 28, seed, limit=600 if th else 150)
    ck.add_tlc(r, 'simulation of EioServerSim: behaviours replayed on the real servers')
    plans = []
    for impl in ('sync', 'async'):
        plans.append(dict(what='TLC-simulated behaviours replayed', impl=impl,
                          cfg={'ping_interval': 2, 'ping_timeout': 1}, nslots=2,
                          scripts=sim_scripts))
        plans.append(dict(what='random: polling, overlapping polls, sends', impl=impl, cfg=cfgA,
                          nslots=2, scripts=core.random_scripts(seed + 1, n, 24, 2, w_poll)))
        plans.append(dict(what='random: upgrade handshake interleaved with sends and polls',
                          impl=impl, cfg=cfgA, nslots=2,
                          scripts=core.random_scripts(seed + 2, n, 30, 2, w_upg)))
        plans.append(dict(what='bursts of 1..40 sends on polling / upgraded / websocket sessions',
                          impl=impl, cfg=cfgA, nslots=1,
                          scripts=core.burst_scripts(seed + 5, 80 if th else 24)))
        plans.append(dict(what='random: websocket-only sessions', impl=impl, cfg=cfgA, nslots=2,
                          scripts=core.random_scripts(seed + 3, n, 24, 2, w_ws)))
        plans.append(dict(what='random: 3 sessions, monitor on, background handlers', impl=impl,
                          cfg={'ping_interval': 12, 'ping_timeout': 6, 'monitor': True,
                               'async_handlers': True},
                          nslots=3, scripts=core.random_scripts(seed + 4, n, 36, 3, w_upg)))
    plans.append(core.preempt_plan(seed, 300 if th else 40, 30, 2, w_upg, cfgA,
                                   'upgrade handshake interleaved with sends and polls'))
    plans.append(core.preempt_plan(seed + 1, 300 if th else 40, 24, 2, w_poll, cfgA,
                                   'polling, overlapping polls, sends'))
    core.conform(ck, plans)
    core.l2_conform(ck, seed, 300 if th else 60)
    core.l2_upgrade(ck, th, seed)
    ck.cov['rule'] = ('case = one environment script (opens, polls, posts, frames, sends, clock '
                      'advances) executed on one server implementation; distinct by the sequence of '
                      'recorded actions with arguments; non-trivial = every script (each contains at '
                      'least an open and reaches quiescence)')
    ck.assume('schedules explored on the real code are the cooperative (block-to-block) ones; TLC '
              'explores all interleavings of the abstract actions incl. EnvAnytime')
    ck.assume('payload data independence: messages are numbered tokens; the harness checks the '
              'payload, its type and the wire form (binary raw on websocket, base64 on polling)')
    return ck.finish()


def replay(path):
    return core.replay_server_trace('C03', path)
