"""C05 - session events: connect first, one disconnect with the true reason, none after."""
import random

from . import core
from ..common import Check

INVS = ['TypeOK', 'C05_EventShape', 'C05_ReasonIsFirstCause', 'C05_ClosedHasDisc',
        'C05_RejectedSilent', 'C05_NothingAfterDisc', 'C05_NothingAfterDiscStrict', 'C04_MessageOnce']


def run(tier):
    ck = Check('C05', tier)
    th = tier == 'thorough'
    A = core.alpha
    jobs = [
        dict(name='polling: racing end causes (CLOSE, disconnect(), ping timeout, poll timeout, '
                  'protocol error), timed',
             consts=core.consts(Alpha=A('open', 'reject', 'poll', 'post', 'api', 'send', 'tick'),
                                BodyProfile='"close"', MaxMsg=1, Horizon=7 if th else 6,
                                MaxReq=6 if th else 5, MaxQ=4, MaxEv=4),
             invariants=INVS, properties=['C07_NoFalseTimeout', 'H_AppendOnly'], min_states=1000),
        dict(name='websocket: CLOSE frame, drop, oversize, writer/reader timeouts, disconnect(), '
                  'timed, asyncio read timeout',
             consts=core.consts(Alpha=A('openws', 'wsio', 'wsburst', 'api', 'send', 'tick'),
                                FrameProfile='"steady"', ImplWsReadTimeout='TRUE',
                                ImplJoinLatch='TRUE', MaxMsg=1, Horizon=6, MaxReq=3, MaxQ=4, MaxEv=3),
             invariants=INVS, min_states=500),
        dict(name='upgrade in progress when the session ends, monitor on',
             consts=core.consts(Alpha=A('open', 'upgrade', 'wsio', 'post', 'api', 'tick'),
                                BodyProfile='"close"', FrameProfile='"handshake"', Monitor='TRUE',
                                MaxMsg=1, Horizon=5, MaxReq=4, MaxQ=4, MaxEv=3),
             invariants=INVS, min_states=500),
        dict(name='2 sessions: an end of one never touches the other',
             consts=core.consts(Sid='{1, 2}', Alpha=A('open', 'post', 'api', 'poll'),
                                BodyProfile='"close"', MaxReq=6 if th else 5, MaxQ=3, MaxEv=3),
             invariants=INVS, min_states=500),
    ]
    jobs.append(dict(
        name='frames buffered behind a CLOSE frame; environment interleaved with internal steps',
        consts=core.consts(Alpha=A('openws', 'wsio', 'wsburst', 'send'), FrameProfile='"steady"',
                           EnvAnytime='TRUE', MaxMsg=1, MaxReq=2, MaxQ=4, MaxEv=3),
        invariants=INVS, min_states=300))
    jobs.append(dict(
        name='NEG the reader keeps processing frames after the session ended (repaired defect F23)',
        consts=core.consts(Alpha=A('openws', 'wsburst'), FrameProfile='"steady"', MaxReq=2, MaxEv=3,
                           Deviations='{"ReaderContinuesAfterClose"}'),
        invariants=['C05_NothingAfterDiscStrict'], expect='C05_NothingAfterDiscStrict'))
    core.run_tlc_jobs(ck, jobs)
    core.l2_models(ck, th)

    seed = ck.seed
    n = 400 if th else 120
    w = {'post': 10, 'disconnect': 4, 'tick': 10, 'poll': 5, 'wsframe': 10, 'wsframes': 5, 'wsdrop': 3,
         'upgrade': 3, 'openws': 2, 'openrej': 2, 'send': 4}
    plans = []
    for impl in ('sync', 'async'):
        for mon in (False, True):
            for dr, et in ((False, 'type'), (True, 'runtime'), (True, 'type'), ('cancel', 'key')):
                cfg = {'ping_interval': 8, 'ping_timeout': 4, 'monitor': mon, 'disc_raises': dr,
                       'exc_type': et}
                plans.append(dict(
                    what='random histories with every end cause, monitor=%s, disconnect handler '
                         'raises=%s, handler failures are %s' % (mon, dr, et), impl=impl, cfg=cfg,
                    nslots=2,
                    scripts=core.random_scripts(seed + 1, n // 2, 30, 2, w, tstep=(1, 8))))
        plans.append(dict(what='pairs of end causes at the same instant, both orders', impl=impl,
                          cfg={'ping_interval': 8, 'ping_timeout': 4, 'monitor': True}, nslots=1,
                          scripts=race_scripts()))
    for impl in ('sync', 'async'):
        plans.append(dict(what='frames buffered behind a CLOSE frame (websocket-only and upgraded)',
                          impl=impl, cfg={'ping_interval': 8, 'ping_timeout': 4}, nslots=1,
                          scripts=buffered_scripts()))
    for mon in (False, True):
        plans.append(core.preempt_plan(seed + int(mon), 300 if th else 40, 30, 2, w,
                                       {'ping_interval': 8, 'ping_timeout': 4, 'monitor': mon},
                                       'every end cause, monitor=%s' % mon, tstep=(1, 8)))
    core.conform(ck, plans, invariants=core.STATE_INVS + ['C05_NothingAfterDisc',
                                                          'C05_NothingAfterDiscStrict'])
    core.l2_conform(ck, seed, 300 if th else 60)
    ck.cov['rule'] = ('case = one environment script on one implementation/configuration; distinct by '
                      'recorded action sequence')
    ck.assume('handler exceptions are scripted (message tokens mX*, disconnect handler raising in '
              'half of the configurations)')
    return ck.finish()


def race_scripts():
    """Every ordered pair of end causes issued back to back at the same virtual instant, on a
    polling session and on a websocket session, at a time where the ping has just expired."""
    causes_poll = [{'op': 'post', 's': 1, 'body': ['CLOSE']}, {'op': 'disconnect', 's': 1},
                   {'op': 'post', 's': 1, 'body': ['BAD7']}, {'op': 'post', 's': 1, 'body': ['OVERSIZE']},
                   {'op': 'send', 's': 1}, {'op': 'poll', 's': 1}]
    causes_ws = [{'op': 'wsframe', 's': 1, 'f': 'CLOSE'}, {'op': 'disconnect', 's': 1},
                 {'op': 'wsdrop', 's': 1}, {'op': 'wsframe', 's': 1, 'f': 'OVERSIZE'},
                 {'op': 'send', 's': 1}, {'op': 'wsframe', 's': 1, 'f': 'm1'}]
    out = []
    for t in (0, 8, 12, 13):     # before any ping, at the ping, at and just after its deadline
        for a in causes_poll:
            for b in causes_poll:
                out.append([{'op': 'open'}, {'op': 'poll', 's': 1}, {'op': 'tick', 't': t}, a, b,
                            {'op': 'poll', 's': 1}])
        for a in causes_ws:
            for b in causes_ws:
                out.append([{'op': 'openws'}, {'op': 'tick', 't': t}, a, b])
    return out


def buffered_scripts():
    out = []
    for fs in (['CLOSE', 'm1'], ['m1', 'CLOSE', 'm2'], ['CLOSE', 'PONG', 'm1'], ['CLOSE', 'CLOSE'],
               ['m1', 'm2'], ['CLOSE', 'mE1'], ['BAD7', 'CLOSE', 'm1']):
        out.append([{'op': 'openws'}, {'op': 'send', 's': 1}, {'op': 'wsframes', 's': 1, 'fs': fs},
                    {'op': 'send', 's': 1}])
        out.append([{'op': 'open'}, {'op': 'upgrade', 's': 1}, {'op': 'wsframes', 's': 1,
                    'fs': ['PINGprobe', 'UPGRADE'] + fs}, {'op': 'poll', 's': 1}, {'op': 'send', 's': 1}])
    return out


def replay(path):
    return core.replay_server_trace('C05', path)
