--------------------------- MODULE EioServerTrace ---------------------------
(***************************************************************************)
(* Trace validation of real executions of engineio.Server /                *)
(* engineio.AsyncServer against EioServer.                                 *)
(*                                                                         *)
(* The batch file is one JSON document: an array of traces; a trace is an  *)
(* array of lines {ev, a, st}: the environment action the harness          *)
(* performed, its arguments, and the projected state + outputs observed    *)
(* once the implementation was quiescent again.  Consume takes the next    *)
(* line's action from a quiescent state that matches the previous line's   *)
(* snapshot; Silent is any internal step of the specification.             *)
(***************************************************************************)
EXTENDS EioServerProps, Json, IOUtils, TLCExt

Tr == JsonDeserialize(IOEnv.TRACE_FILE)

VARIABLES tid, l
tvars == <<now, g, polls, psleep, wsr, wsin, wsw, wsgone, joiners, mon, nreq, tid, l>>

Match(st) ==
    /\ now = st.now
    /\ g.ss = st.ss
    /\ g.table = {st.table[i] : i \in 1..Len(st.table)}
    /\ g.ev = st.ev
    /\ g.deliv = st.deliv
    /\ g.out = st.out

EnvStep(e) == Do([op |-> e.ev] @@ e.a)

TraceInit ==
    /\ Init
    /\ tid \in 1..Len(Tr)
    /\ l = 1

Consume ==
    /\ l <= Len(Tr[tid])
    /\ Quiescent
    /\ (l > 1 => Match(Tr[tid][l - 1].st))
    /\ EnvStep(Tr[tid][l])
    /\ l' = l + 1
    /\ UNCHANGED tid

Silent ==
    /\ l <= Len(Tr[tid]) + 1
    /\ Internal
    /\ UNCHANGED <<tid, l>>

Finish ==
    /\ l = Len(Tr[tid]) + 1
    /\ Quiescent
    /\ (l > 1 => Match(Tr[tid][l - 1].st))
    /\ PrintT(<<"ACC", tid>>)
    /\ l' = l + 1
    /\ UNCHANGED <<vars, tid>>

TraceNext == Consume \/ Silent \/ Finish
TraceSpec == TraceInit /\ [][TraceNext]_tvars

\* diagnosis of a rejected trace: print every state reached
DiagPrint == PrintT(<<"DIAG", l, now, g, polls, psleep, wsr, wsin, wsw, wsgone, joiners, mon>>)
=============================================================================
