"""Executes scripted-server scripts against a client world and records the trace."""
from . import cworld as CW
from . import hub as hubmod
from . import world as W


def pending(w, method):
    for rid in sorted(w.reqs):
        r = w.reqs[rid]
        if r['m'] == method and not r['done'] and r['reply'] is None:
            return rid
    return None


def ws_state(w):
    return w.conns[-1]['state'] if w.conns else 'none'


def can(w, op):
    k = op['op']
    if k in ('reply', 'fail'):
        return pending(w, op['m']) is not None
    if k in ('wsaccept', 'wsrefuse'):
        return ws_state(w) == 'connecting'
    if k in ('wsdeliver', 'wsclose'):
        return ws_state(w) == 'open'
    if k == 'connect':
        # environment assumption: one connect() at a time, and a new cycle only after the
        # tasks of the previous one have ended (i.e. once wait() would return)
        if any(c['name'] == 'connect' and not c['done'] for c in w.calls.values()):
            return False
        return tasks_idle(w)
    return True


def tasks_idle(w):
    c = w.client
    for t in (c.read_loop_task, c.write_loop_task):
        if t is None:
            continue
        if hasattr(t, 'is_alive'):
            if t.is_alive():
                return False
        elif hasattr(t, 'done') and not t.done():
            return False
    return True


def body_of(op, w):
    """bytes of an HTTP reply: packets joined, or a special body."""
    if 'raw' in op:
        return {'garbage': b'zz\x1e4', 'empty': b'', 'notutf8': b'\xff\xfe', 'json': b'{"a":1}',
                'toomany': '\x1e'.join(['6'] * 17).encode()}[op['raw']]
    parts = []
    for p in op.get('pk', []):
        if isinstance(p, dict):
            o = p['open']
            parts.append(CW.open_wire('SID%d' % (len(w.events) + 1), o.get('ups', False), o.get('pi', 8),
                                      o.get('pt', 4), o.get('variant', 'ok')))
        else:
            parts.append(CW.pkt_wire(p))
    return '\x1e'.join(parts).encode('utf-8')


def run_script(impl, cfg, script, seed=0, preempt=False):
    w = CW.make_client_world(impl, cfg, seed=seed, preempt=preempt)
    lines = []
    facts = {'impl': impl, 'cfg': dict(w.cfg)}
    try:
        for opi, op in enumerate(script):
            k = op['op']
            if k == 'tick':
                target = hubmod.EPOCH + op['t'] * W.TICK
                while w.now() < target - 1e-9:
                    nd = w.next_deadline()
                    t = target if nd is None or nd > target else nd
                    w.out = []
                    w.set_time(t)
                    lines.append({'ev': 'tick', 'a': {'t': w.ticks()}, 'st': w.snapshot(), 'i': opi})
                continue
            if not can(w, op):
                continue
            w.out = []
            a = {}
            if k == 'connect':
                w.app_connect(op['tr'])
                a = {'tr': op['tr']}
            elif k == 'reply':
                rid = pending(w, op['m'])
                w.reply(rid, op.get('status', 200), body_of(op, w))
                pi = pt = 0
                for p in op.get('pk', []):
                    if isinstance(p, dict) and p['open'].get('variant', 'ok') == 'ok':
                        pi, pt = p['open'].get('pi', 8), p['open'].get('pt', 4)
                        break
                a = {'id': rid, 'status': op.get('status', 200),
                     'pk': [p if isinstance(p, str) else open_token(p) for p in op.get('pk', [])],
                     'raw': op.get('raw', 'none'), 'pi': pi, 'pt': pt}
            elif k == 'fail':
                rid = pending(w, op['m'])
                w.fail(rid)
                a = {'id': rid}
            elif k == 'wsaccept':
                w.ws_accept(True)
            elif k == 'wsrefuse':
                w.ws_accept(False)
            elif k == 'wsdeliver':
                f = op['f']
                if isinstance(f, dict):
                    o = f['open']
                    raw = CW.open_wire('SID%d' % (len(w.events) + 1), o.get('ups', False),
                                       o.get('pi', 8), o.get('pt', 4), o.get('variant', 'ok'))
                    ok_ = o.get('variant', 'ok') == 'ok'
                    a = {'f': open_token(f), 'pi': o.get('pi', 8) if ok_ else 0,
                         'pt': o.get('pt', 4) if ok_ else 0}
                elif f == 'GARBAGE':
                    raw, a = 'zz', {'f': 'GARBAGE', 'pi': 0, 'pt': 0}
                elif f == 'EMPTY':
                    raw, a = '', {'f': 'EMPTY', 'pi': 0, 'pt': 0}
                else:
                    raw, a = CW.pkt_frame(f), {'f': f, 'pi': 0, 'pt': 0}
                w.ws_deliver(raw)
            elif k == 'wsclose':
                w.ws_close()
            elif k == 'send':
                w.app_send(op['tok'])
                a = {'tok': op['tok']}
            elif k == 'disconnect':
                w.app_disconnect()
            elif k == 'wait':
                w.app_wait()
            else:
                raise ValueError(k)
            w.quiesce()
            lines.append({'ev': k, 'a': a, 'st': w.snapshot(), 'i': opi})
        facts['calls'] = {cid: {'name': c['name'], 'done': c['done'], 'exc': c['exc']}
                          for cid, c in w.calls.items()}
        facts['urlfacts'] = w.urlfacts[:6]
        facts['pending'] = [rid for rid, r in w.reqs.items() if not r['done']]
    finally:
        w.close()
    return lines, facts


def open_token(p):
    o = p['open']
    v = o.get('variant', 'ok')
    if v != 'ok':
        return 'OPENbad'
    return 'OPEN1' if o.get('ups') else 'OPEN0'


# ---- random scripted-server scripts ----------------------------------------------------------

def gen_script(rng, length, trs=None, weights=None):
    wts = {'replyget': 10, 'replypost': 8, 'failget': 1, 'failpost': 1, 'badget': 2, 'badpost': 1,
           'send': 8, 'disconnect': 1, 'wait': 1, 'tick': 6, 'wsaccept': 6, 'wsrefuse': 1,
           'wsdeliver': 10, 'wsclose': 1, 'connect': 2}
    if weights:
        wts.update(weights)
    kinds = [k for k in wts if wts[k] > 0]
    tr = trs or rng.choice(['poll', 'poll', 'both', 'both', 'ws'])
    ups = rng.random() < 0.7
    pi, pt = rng.choice([(8, 4), (4, 8), (12, 12)])
    sc = [{'op': 'connect', 'tr': tr}]
    openp = {'open': {'ups': ups, 'pi': pi, 'pt': pt}}
    if tr == 'ws':
        sc += [{'op': 'wsaccept'}, {'op': 'wsdeliver', 'f': openp}]
    else:
        first = [openp] + rng.choice([[], [], ['M1'], ['PING'], ['NOOP', 'M1']])
        sc.append({'op': 'reply', 'm': 'GET', 'pk': first})
    t = 0
    n = 1 if (tr != 'ws' and 'M1' in sc[-1].get('pk', [])) else 0
    ms = 0
    for _ in range(length):
        k = rng.choices(kinds, [wts[x] for x in kinds])[0]
        if k == 'replyget':
            pk = []
            for _ in range(rng.choice([0, 1, 1, 2, 3])):
                c = rng.choice(['M', 'M', 'PING', 'PING:x', 'NOOP', 'UNK8', 'PONGx'])
                if c == 'M':
                    n += 1
                    c = 'M%d' % n
                pk.append(c)
            if rng.random() < 0.05:
                pk.append('CLOSE')
            sc.append({'op': 'reply', 'm': 'GET', 'pk': pk})
        elif k == 'replypost':
            sc.append({'op': 'reply', 'm': 'POST', 'pk': []})
        elif k == 'failget':
            sc.append({'op': 'fail', 'm': 'GET'})
        elif k == 'failpost':
            sc.append({'op': 'fail', 'm': 'POST'})
        elif k == 'badget':
            sc.append(rng.choice([{'op': 'reply', 'm': 'GET', 'status': rng.choice([199, 300, 400, 500]),
                                   'pk': []},
                                  {'op': 'reply', 'm': 'GET', 'raw': rng.choice(['garbage', 'notutf8',
                                                                                  'toomany', 'empty'])}]))
        elif k == 'badpost':
            sc.append({'op': 'reply', 'm': 'POST', 'status': rng.choice([400, 500, 199, 300]), 'pk': []})
        elif k == 'send':
            ms += 1
            sc.append({'op': 'send', 'tok': 'm%d' % ms})
        elif k == 'tick':
            t += rng.choice([1, 2, 3, 5, 8, 13, 30, 90])
            sc.append({'op': 'tick', 't': t})
        elif k == 'wsdeliver':
            c = rng.choice(['M', 'M', 'PING', 'PING:y', 'NOOP', 'PONGprobe', 'PONGprobe', 'UNK8',
                            'CLOSE', 'GARBAGE', 'EMPTY', 'M'])
            if c == 'M':
                n += 1
                c = 'M%d' % n
            sc.append({'op': 'wsdeliver', 'f': c})
        elif k == 'connect':
            sc.append({'op': 'connect', 'tr': rng.choice(['poll', 'both', 'ws'])})
            sc.append(rng.choice([{'op': 'reply', 'm': 'GET', 'pk': [openp]}, {'op': 'wsaccept'},
                                  {'op': 'reply', 'm': 'GET', 'pk': [openp, 'CLOSE']}]))
        else:
            sc.append({'op': k})
    sc.append({'op': 'tick', 't': t + 400})
    return sc
