"""C14 - inbound size and volume limits are exact and nothing oversize reaches the app."""
import random

from . import core
from ..common import Check

INVS = ['TypeOK', 'C04_MessageOnce', 'C05_EventShape', 'C05_ClosedHasDisc']


def run(tier):
    ck = Check('C14', tier)
    th = tier == 'thorough'
    A = core.alpha
    jobs = [
        dict(name='polling: oversize / garbage / too-many bodies among ordinary ones (a refused body '
                  'yields no event; an oversize one ends the session)',
             consts=core.consts(Alpha=A('open', 'poll', 'post'), BodyProfile='"types"', MaxReq=4,
                                MaxQ=4, MaxEv=4),
             invariants=INVS + ['C14_OversizeEndsSession'], min_states=300),
        dict(name='websocket steady state / handshake: oversize frames',
             consts=core.consts(Alpha=A('open', 'openws', 'upgrade', 'wsio'), FrameProfile='"all"',
                                MaxReq=3, MaxQ=4, MaxEv=3),
             invariants=INVS, min_states=300),
    ]
    core.run_tlc_jobs(ck, jobs)
    seed = ck.seed
    plans = []
    limits = [30, 64, 100, 1000, 1000000] if th else [30, 100, 1000000]
    for impl in ('sync', 'async'):
        for L in limits:
            cfg = {'ping_interval': 8, 'ping_timeout': 4, 'max_buf': L}
            plans.append(dict(what='bodies and frames of limit-2..limit+2, 0, 1, 10x (text, multi-byte text and '
                                   'binary), declared vs actual length, limit=%d' % L,
                              impl=impl, cfg=cfg, nslots=2, scripts=size_scripts(seed, L, big=L < 10 ** 5)))
        for L in (1, 2, 3):
            plans.append(dict(what='tiny limit %d: 1- and 2-byte bodies' % L, impl=impl,
                              cfg={'ping_interval': 8, 'ping_timeout': 4, 'max_buf': L}, nslots=1,
                              scripts=tiny_scripts(L)))
        for L in (1, 2, 3, 5, 6, 7):
            plans.append(dict(what='tiny limit %d on websocket: the probe itself (6 characters) and '
                                   'one-character frames, upgrade attempted and websocket-only' % L,
                              impl=impl, cfg={'ping_interval': 8, 'ping_timeout': 4, 'max_buf': L},
                              nslots=1, scripts=tiny_ws_scripts()))
        plans.append(dict(what='packet counts 0..18 per body', impl=impl,
                          cfg={'ping_interval': 8, 'ping_timeout': 4}, nslots=1,
                          scripts=count_scripts()))
    done = core.conform(ck, plans)
    # the body reader is never asked for more than min(declared, limit) bytes (WSGI side)
    nreads = 0
    for p, traces, facts, v in done:
        if p['impl'] != 'sync':
            continue
        L = facts[0]['cfg']['max_buf'] if facts else 0
        for f in facts:
            for rid, r in f['reqs'].items():
                if r.get('api') or r.get('kind') != 'http' or not r.get('reads'):
                    continue
                nreads += 1
                if sum(x for x in r['reads'] if x) > L or any(x is None or x < 0 for x in r['reads']):
                    ck.violation('the server asked the body stream for %r bytes with limit %d' % (
                        r['reads'], L), {'impl': 'sync', 'cfg': f['cfg'], 'script': f['script'],
                                         'request': rid, 'kind': 'reads'})
    ck.cov['body_reads_checked'] = nreads
    ck.cov['rule'] = ('case = one script of size probes (exact byte / character lengths around the '
                      'configured limit) on one implementation and limit; distinct by recorded action '
                      'sequence')
    ck.assume('declared lengths are >= 0 (no gateway delivers a negative Content-Length)')
    ck.assume('the ASGI driver buffers the whole body before the size gate (translate_request); the '
              'read bound is observed on the WSGI body stream')
    return ck.finish()


def size_scripts(seed, L, big=True):
    rng = random.Random(seed + L)
    out = []
    rels = [-2, -1, 0, 1, 2] + ([9 * L] if big else [])
    for rel in rels:
        for binp in (False, True):
            out.append([{'op': 'open'}, {'op': 'poll', 's': 1},
                        {'op': 'postsz', 's': 1, 'rel': rel, 'bin': binp},
                        {'op': 'poll', 's': 1}, {'op': 'post', 's': 1, 'body': ['m1']}])
            out.append([{'op': 'openws'}, {'op': 'wsframesz', 's': 1, 'rel': rel, 'bin': binp},
                        {'op': 'wsframe', 's': 1, 'f': 'm1'}, {'op': 'send', 's': 1}])
            out.append([{'op': 'open'}, {'op': 'upgrade', 's': 1},
                        {'op': 'wsframesz', 's': 1, 'rel': rel, 'bin': binp},
                        {'op': 'poll', 's': 1}, {'op': 'upgrade', 's': 1},
                        {'op': 'wsframe', 's': 1, 'f': 'PINGprobe'},
                        {'op': 'wsframesz', 's': 1, 'rel': rel, 'bin': binp}, {'op': 'poll', 's': 1}])
            out.append([{'op': 'open'}, {'op': 'upgrade', 's': 1},
                        {'op': 'wsframe', 's': 1, 'f': 'PINGprobe'}, {'op': 'poll', 's': 1},
                        {'op': 'wsframe', 's': 1, 'f': 'UPGRADE'},
                        {'op': 'wsframesz', 's': 1, 'rel': rel, 'bin': binp}, {'op': 'send', 's': 1}])
    # multi-byte text: bodies around the limit in BYTES whose character count is far below it
    for rel in (-3, -2, -1, 0, 1, 2, 3, 4):
        out.append([{'op': 'open'}, {'op': 'poll', 's': 1},
                    {'op': 'postsz', 's': 1, 'rel': rel, 'mb': True},
                    {'op': 'poll', 's': 1}, {'op': 'post', 's': 1, 'body': ['m1']}])
    for rel in (1, 2, 1000):
        out.append([{'op': 'open'}, {'op': 'postdecl', 's': 1, 'rel': rel}, {'op': 'poll', 's': 1}])
    out.append([{'op': 'open'}, {'op': 'posttrunc', 's': 1}, {'op': 'poll', 's': 1}])
    out.append([{'op': 'open'}, {'op': 'postnolen', 's': 1, 'declared': 0}, {'op': 'poll', 's': 1}])
    out.append([{'op': 'open'}, {'op': 'postnolen', 's': 1, 'declared': 'absent'}, {'op': 'poll', 's': 1}])
    out.append([{'op': 'open'}, {'op': 'postlong', 's': 1}, {'op': 'post', 's': 1, 'body': ['m2']}])
    return out


def tiny_scripts(L):
    return [[{'op': 'open'}, {'op': 'postsz', 's': 1, 'rel': rel, 'tiny': True},
             {'op': 'poll', 's': 1}] for rel in (-L + 1, 0, 1) if L + rel >= 1]


def tiny_ws_scripts():
    return [
        [{'op': 'open'}, {'op': 'upgrade', 's': 1}, {'op': 'wsframe', 's': 1, 'f': 'PINGprobe'},
         {'op': 'poll', 's': 1}, {'op': 'wsframe', 's': 1, 'f': 'UPGRADE'},
         {'op': 'wsframe', 's': 1, 'f': 'm1'}, {'op': 'send', 's': 1},
         {'op': 'wsframe', 's': 1, 'f': 'PONG'}, {'op': 'poll', 's': 1}],
        [{'op': 'open'}, {'op': 'upgrade', 's': 1}, {'op': 'wsframe', 's': 1, 'f': 'UPGRADE'},
         {'op': 'wsframe', 's': 1, 'f': 'PINGprobe'}, {'op': 'poll', 's': 1}],
        [{'op': 'openws'}, {'op': 'wsframe', 's': 1, 'f': 'PONG'},
         {'op': 'wsframe', 's': 1, 'f': 'm1'}, {'op': 'send', 's': 1},
         {'op': 'wsframe', 's': 1, 'f': 'PONG'}],
        [{'op': 'openws'}, {'op': 'wsframe', 's': 1, 'f': 'PINGprobe'},
         {'op': 'wsframe', 's': 1, 'f': 'CLOSE'}],
    ]


def count_scripts():
    out = []
    for k in range(0, 19):
        if k == 0:
            body = ['EMPTYBODY']
        elif k <= 16:
            body = ['m%d' % (j + 1) for j in range(k)]
        else:
            body = ['TOOMANY%d' % k]
        out.append([{'op': 'open'}, {'op': 'post', 's': 1, 'body': body}, {'op': 'poll', 's': 1}])
        if k >= 1:
            # the form-encoded (JSONP) variant of the same body
            out.append([{'op': 'open'}, {'op': 'postform', 's': 1, 'k': k}, {'op': 'poll', 's': 1}])
    return out


def replay(path):
    return core.replay_server_trace('C14', path)
