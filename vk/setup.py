"""setup_cmd: syntax-check all specification modules (SANY) and run the quick self-test."""
import glob
import os
import sys

from . import tlc
from .common import SPEC


def main():
    files = sorted(glob.glob(os.path.join(SPEC, '*.tla')))
    bad = tlc.sany(files)
    for f, out in bad:
        print('SANY FAILED', f)
        print(out)
    print('setup: %d modules parsed, %d failed' % (len(files), len(bad)))
    import greenlet  # noqa: F401  (harness dependency, must be importable)
    import engineio  # noqa: F401
    sys.exit(1 if bad else 0)


if __name__ == '__main__':
    main()
