---------------------------- MODULE EioClientFine ----------------------------
(***************************************************************************)
(* L2 for the threaded client on the websocket transport: the application  *)
(* thread (a burst of send() calls, then disconnect()), the write loop and *)
(* the read loop of engineio/client.py, at the grain of one primitive per  *)
(* step - a primitive being an operation of the send queue (call of put,   *)
(* put, call of get, get, task_done) or of the websocket (send, close, a   *)
(* receive returning) - with the server reduced to what it does to the     *)
(* transport: it closes it when it has read the client's CLOSE frame, or   *)
(* sends its own CLOSE frame and closes (server-side disconnect).          *)
(*                                                                         *)
(* The point of this grain: disconnect() tests the state, makes two puts   *)
(* (switch points) and only then changes the state.  TLC shows what else   *)
(* can happen in between.  OneDisconnect FAILS: that is finding F27.       *)
(***************************************************************************)
EXTENDS Naturals, Sequences, TLC

CONSTANTS MaxSend,       \* send() calls of the application before its disconnect()
          Cap,           \* packets the write loop takes per turn (16 in the code)
          SrvMayClose,   \* BOOLEAN: the server application may disconnect on its own
          Timeouts       \* BOOLEAN: the write loop's queue.get() may time out when nothing comes

NIL == "NIL"
Procs == {"app", "wr", "rd"}

VARIABLES
    st,        \* client.state: "connected" | "disconnecting" | "disconnected"
    q,         \* the send queue (items)
    ev,        \* disconnect events fired (reasons)
    tx,        \* frames the client put on the websocket
    wsc,       \* the client has not closed its end
    sclosed,   \* the server closed the transport
    sseen,     \* number of frames of tx the server has read
    inq,       \* frames from the server not yet read by the client
    pc, it, nx,\* per task: program counter, item about to be put / just taken, continuation
    pk,        \* packets the write loop holds
    nsent,     \* send() calls made by the application
    rdisc      \* the read loop is inside disconnect(abort=True) (it runs the same code)
vars == <<st, q, ev, tx, wsc, sclosed, sseen, inq, pc, it, nx, pk, nsent, rdisc>>

Msg(n) == "m" \o ToString(n)

Init ==
    /\ st = "connected" /\ q = <<>> /\ ev = <<>> /\ tx = <<>> /\ wsc = TRUE /\ sclosed = FALSE
    /\ sseen = 0 /\ inq = <<>>
    /\ pc = [p \in Procs |-> CASE p = "app" -> "send" [] p = "wr" -> "w_wait" [] OTHER -> "r_wait"]
    /\ it = [p \in Procs |-> NIL] /\ nx = [p \in Procs |-> "done"] /\ pk = <<>> /\ nsent = 0
    /\ rdisc = FALSE

Goto(p, l) == pc' = [pc EXCEPT ![p] = l]
PrePut(p, item, lnext) ==
    /\ it' = [it EXCEPT ![p] = item] /\ nx' = [nx EXCEPT ![p] = lnext] /\ Goto(p, "put")
DoPut(p) ==
    /\ pc[p] = "put"
    /\ q' = Append(q, it[p])
    /\ Goto(p, nx[p])
    /\ UNCHANGED <<st, ev, tx, wsc, sclosed, sseen, inq, it, nx, pk, nsent, rdisc>>

(* Every step below ends with exactly one logged primitive (named in its comment), except the
   two marked SILENT, which read shared state but touch no primitive. *)

(* ---- application thread: send() x MaxSend, then disconnect() ---- *)
\* _send_packet(): only while connected.  [put_enter]; not connected: SILENT
AppSend ==
    /\ pc["app"] = "send" /\ nsent < MaxSend
    /\ nsent' = nsent + 1
    /\ IF st = "connected" THEN PrePut("app", Msg(nsent + 1), "send")
       ELSE UNCHANGED <<pc, it, nx>>
    /\ UNCHANGED <<st, q, ev, tx, wsc, sclosed, sseen, inq, pk, rdisc>>
\* disconnect(): `if self.state == 'connected'` ... `_send_packet(CLOSE)`.  [put_enter];
\* not connected: _reset() and return [ret]
AppDisc ==
    /\ pc["app"] = "send" /\ nsent = MaxSend
    /\ IF st = "connected"
       THEN PrePut("app", "CLOSE", "d_nil") /\ UNCHANGED st
       ELSE st' = "disconnected" /\ Goto("app", "done") /\ UNCHANGED <<it, nx>>
    /\ UNCHANGED <<q, ev, tx, wsc, sclosed, sseen, inq, pk, nsent, rdisc>>
\* the call of put(None)  [put_enter]
DiscNil(p) ==
    /\ pc[p] = "d_nil"
    /\ PrePut(p, NIL, "d_state")
    /\ UNCHANGED <<st, q, ev, tx, wsc, sclosed, sseen, inq, pk, nsent, rdisc>>
\* state = 'disconnecting', the disconnect event, ws.close()  [ws_close].  The application
\* then joins the read loop; the read loop (abort=True) goes straight on: state =
\* 'disconnected', _reset(), back to its loop, whose condition now fails
DiscState(p) ==
    /\ pc[p] = "d_state"
    /\ ev' = Append(ev, IF p = "app" THEN "client" ELSE "server")
    /\ wsc' = FALSE
    /\ IF p = "app" THEN st' = "disconnecting" /\ Goto(p, "d_join") /\ UNCHANGED rdisc
       ELSE st' = "disconnected" /\ Goto(p, "r_end") /\ rdisc' = FALSE
    /\ UNCHANGED <<q, tx, sclosed, sseen, inq, it, nx, pk, nsent>>
\* read_loop_task.join() returned: state = 'disconnected', _reset()  [ret]
DiscEnd ==
    /\ pc["app"] = "d_join" /\ pc["rd"] = "done"
    /\ st' = "disconnected"
    /\ Goto("app", "done")
    /\ UNCHANGED <<q, ev, tx, wsc, sclosed, sseen, inq, it, nx, pk, nsent, rdisc>>

(* ---- write loop ---- *)
\* top of the loop (also reached after the last packet of a batch went out): goes on while
\* connected or while something is queued: the call of get()  [get_enter]; else returns [ret]
WTop ==
    /\ pc["wr"] = "w_top" \/ (pc["wr"] = "w_send" /\ pk = <<>>)
    /\ IF st = "connected" \/ q # <<>> THEN Goto("wr", "w_wait") ELSE Goto("wr", "done")
    /\ UNCHANGED <<st, q, ev, tx, wsc, sclosed, sseen, inq, it, nx, pk, nsent, rdisc>>
\* the blocking get returns  [get]: the sentinel ends the loop, anything else starts a batch
WGet ==
    /\ pc["wr"] = "w_wait" /\ q # <<>>
    /\ it' = [it EXCEPT !["wr"] = Head(q)] /\ q' = Tail(q)
    /\ IF Head(q) = NIL THEN Goto("wr", "w_exit") /\ UNCHANGED pk
       ELSE pk' = <<Head(q)>> /\ Goto("wr", "w_more")
    /\ UNCHANGED <<st, ev, tx, wsc, sclosed, sseen, inq, nx, nsent, rdisc>>
WExit ==                                                                        \* [ret]
    /\ pc["wr"] = "w_exit"
    /\ Goto("wr", "done")
    /\ UNCHANGED <<st, q, ev, tx, wsc, sclosed, sseen, inq, it, nx, pk, nsent, rdisc>>
\* nothing came for max(ping_interval, ping_timeout) + 5 s: the loop ends  [ret]
WTimeout ==
    /\ Timeouts /\ pc["wr"] = "w_wait" /\ q = <<>>
    /\ Goto("wr", "done")
    /\ UNCHANGED <<st, q, ev, tx, wsc, sclosed, sseen, inq, it, nx, pk, nsent, rdisc>>
\* queue.get(block=False) while the batch is not full  [get]; a sentinel is dropped and ends
\* the filling
WMore ==
    /\ pc["wr"] = "w_more" /\ Len(pk) < Cap /\ q # <<>>
    /\ it' = [it EXCEPT !["wr"] = Head(q)] /\ q' = Tail(q)
    /\ IF Head(q) = NIL THEN Goto("wr", "w_send") /\ UNCHANGED pk
       ELSE pk' = Append(pk, Head(q)) /\ UNCHANGED pc
    /\ UNCHANGED <<st, ev, tx, wsc, sclosed, sseen, inq, nx, nsent, rdisc>>
\* the batch is complete (full, Empty raised, or sentinel met): ws.send() of its next packet
\* [ws_send]; on a closed socket the send raises and the loop ends [ret]
WSend ==
    /\ \/ pc["wr"] = "w_send" /\ pk # <<>>
       \/ pc["wr"] = "w_more" /\ (Len(pk) >= Cap \/ q = <<>>)
    /\ IF ~wsc \/ sclosed THEN Goto("wr", "done") /\ UNCHANGED <<tx, pk>>
       ELSE /\ tx' = Append(tx, Head(pk)) /\ pk' = Tail(pk) /\ Goto("wr", "w_send")
    /\ UNCHANGED <<st, q, ev, wsc, sclosed, sseen, inq, it, nx, nsent, rdisc>>

(* ---- read loop ---- *)
\* loop condition holds: the call of ws.recv()  [ws_recv_enter]
RTop ==
    /\ pc["rd"] = "r_top" /\ st = "connected"
    /\ Goto("rd", "r_wait")
    /\ UNCHANGED <<st, q, ev, tx, wsc, sclosed, sseen, inq, it, nx, pk, nsent, rdisc>>
\* ws.recv() returns the server's CLOSE frame -> disconnect(abort=True, server disconnect):
\* connected: the call of put(CLOSE) [put_enter]; not connected any more: _reset(), the loop
\* condition fails (SILENT)
RFrame ==
    /\ pc["rd"] = "r_wait" /\ inq # <<>>        \* (a frame already buffered is still returned)
    /\ inq' = Tail(inq)
    /\ IF st = "connected"
       THEN PrePut("rd", "CLOSE", "d_nil") /\ rdisc' = TRUE /\ UNCHANGED st
       ELSE st' = "disconnected" /\ Goto("rd", "r_end") /\ UNCHANGED <<it, nx, rdisc>>
    /\ UNCHANGED <<q, ev, tx, wsc, sclosed, sseen, pk, nsent>>
\* ws.recv() raises: the socket is closed (by us, or by the server with nothing left to read)
\* [ws_recv_closed]; then the call of put(None) [put_enter] and out of the loop
RClosed ==
    /\ pc["rd"] = "r_wait" /\ (~wsc \/ sclosed) /\ inq = <<>>
    /\ Goto("rd", "r_nil")
    /\ UNCHANGED <<st, q, ev, tx, wsc, sclosed, sseen, inq, it, nx, pk, nsent, rdisc>>
RNil ==
    /\ pc["rd"] = "r_nil"
    /\ PrePut("rd", NIL, "r_end")
    /\ UNCHANGED <<st, q, ev, tx, wsc, sclosed, sseen, inq, pk, nsent, rdisc>>
\* the loop is over (also: its condition fails at the top): write_loop_task.join(); still
\* 'connected' -> disconnect event "transport error", _reset()  [ret]
REnd ==
    /\ pc["rd"] = "r_end" \/ (pc["rd"] = "r_top" /\ st # "connected")
    /\ pc["wr"] = "done"
    /\ IF st = "connected"
       THEN ev' = Append(ev, "terror") /\ st' = "disconnected"
       ELSE UNCHANGED <<ev, st>>
    /\ Goto("rd", "done")
    /\ UNCHANGED <<q, tx, wsc, sclosed, sseen, inq, it, nx, pk, nsent, rdisc>>

(* ---- the server, as far as the transport is concerned ---- *)
\* it has read the client's CLOSE frame: it closes the transport
SrvCloses ==
    /\ ~sclosed /\ \E i \in 1..Len(tx) : tx[i] = "CLOSE"
    /\ sclosed' = TRUE
    /\ UNCHANGED <<st, q, ev, tx, wsc, sseen, inq, pc, it, nx, pk, nsent, rdisc>>
\* the server application disconnects: CLOSE frame to the client, then the transport closes
SrvDisconnects ==
    /\ SrvMayClose /\ ~sclosed /\ wsc /\ inq = <<>>
    /\ inq' = <<"CLOSE">> /\ sclosed' = TRUE
    /\ UNCHANGED <<st, q, ev, tx, wsc, sseen, pc, it, nx, pk, nsent, rdisc>>

AppStep == DoPut("app") \/ AppSend \/ AppDisc \/ DiscNil("app") \/ DiscState("app") \/ DiscEnd
WrStep == WTop \/ WGet \/ WExit \/ WTimeout \/ WMore \/ WSend
RdStep == DoPut("rd") \/ RTop \/ RFrame \/ RClosed \/ RNil \/ REnd
          \/ DiscNil("rd") \/ DiscState("rd")
Next == AppStep \/ WrStep \/ RdStep \/ SrvCloses \/ SrvDisconnects
Spec == Init /\ [][Next]_vars
FairSpec == Spec /\ WF_vars(AppStep) /\ WF_vars(WrStep) /\ WF_vars(RdStep) /\ WF_vars(SrvCloses)

TypeOK == /\ st \in {"connected", "disconnecting", "disconnected"}
          /\ \A p \in Procs : pc[p] \in {"send", "put", "d_nil", "d_state", "d_join", "done", "w_top",
                                         "w_wait", "w_exit", "w_more", "w_send", "r_top", "r_wait",
                                         "r_nil", "r_end"}
\* C08: one connection, one disconnect event.  FAILS: finding F27
OneDisconnect == Len(ev) <= 1
\* what does hold: never more than two, and a second one only next to the application's own
AtMostOnePerCause ==
    /\ Len(ev) <= 2
    /\ \A i, j \in 1..Len(ev) : ev[i] = ev[j] => i = j
\* messages reach the wire in the order they were sent, each at most once
Frames == SelectSeq(tx, LAMBDA f : f \notin {"CLOSE"})
TxInOrder == \A i \in 1..Len(Frames) : Frames[i] = Msg(i)
\* everything ends: the three tasks finish and the client is disconnected
AllEnd == <>[](pc["app"] = "done" /\ pc["wr"] = "done" /\ pc["rd"] = "done" /\ st = "disconnected")
=============================================================================
