---------------------------- MODULE EioServerSim ----------------------------
(* Behaviour generation (spec -> code): simulation of EioServer with a     *)
(* history variable recording the environment actions taken; the script    *)
(* of every behaviour that reaches SimDepth is printed and replayed        *)
(* against the real servers.                                               *)
EXTENDS EioServerProps
CONSTANT SimDepth
VARIABLE script
svars == <<now, g, polls, psleep, wsr, wsin, wsw, wsgone, joiners, mon, nreq, script>>

SimInit == Init /\ script = <<>>
SimNext ==
    \/ /\ EnvOK
       /\ \E a \in EnvActs : Do(a) /\ script' = Append(script, a)
    \/ Internal /\ UNCHANGED script
    \/ /\ "tick" \in Alpha
       /\ TickTo(now + 1)
       /\ script' = Append(script, [op |-> "tick", t |-> now + 1])
SimSpec == SimInit /\ [][SimNext]_svars
EmitScript == TLCGet("level") < SimDepth \/ PrintT(<<"SCRIPT", script>>)
=============================================================================
